/-
C10 – persistent store/validate/fetch round-trips and stays inside its region.
Property theorems only (helper lemmas: Ufw/Lemmas/Persist.lean).
-/
import Ufw.Model.Persist
import Ufw.Model.Crc
import Ufw.Lemmas.Persist
import Ufw.Lemmas.EndianSpec

namespace Ufw.Props.C10
open Ufw Ufw.Model.Persist Ufw.Lemmas.Persist

/-- the checksum the instance should hold for a medium: the configured function applied to the data
    image on the medium, at the checksum width -/
def expected (f : List Octet → Nat → Nat) (s : Store) (m : Medium) : Nat :=
  if s.dataSize = 0 then trunc s s.init else trunc s (f (image s m) (trunc s s.init))

/-- part accesses reaching beyond the data size - as natural numbers, so also pairs whose sum wraps in
    size_t - are refused without touching the medium -/
theorem part_bounds (f : List Octet → Nat → Nat) (s : Store) (m : Medium) (src : List Octet) (offset n : Nat) :
    (offset + src.length > s.dataSize → persistent_store_part f s m src offset = (.outOfRange, m)) ∧
    (offset + n > s.dataSize → persistent_fetch_part s m offset n = (.outOfRange, [], m)) := by
  constructor
  · intro h
    have : src.length > s.dataSize ∨ offset > s.dataSize - src.length := by omega
    simp [persistent_store_part, this]
  · intro h
    have : n > s.dataSize ∨ offset > s.dataSize - n := by omega
    simp [persistent_fetch_part, this]

/-- however the library chunks its reads (any auxiliary buffer size, including none and 0), the
    checksum it computes from the medium is the configured function applied to the whole data image -/
theorem checksum_chunking (f : List Octet → Nat → Nat) (s : Store) (hst : Streamable f s) (m : Medium)
    (hc : Clean m) (hf : Fits s m) :
    ∃ m', persistent_calculate_checksum f s m = (.success, expected f s m, m') ∧ m'.cells = m.cells ∧ Clean m' := by
  obtain ⟨m', e1, e2, e3⟩ := calcLoop_spec f s hst s.dataSize m s.dataSize s.dataAddr (trunc s s.init) hc hf (Nat.le_refl _)
  exact ⟨m', by simpa [persistent_calculate_checksum, expected, image] using e1, e2, e3⟩

/-- validation reports success exactly when the checksum field on the medium equals the checksum of the
    data image on the medium, invalid data otherwise – on ANY medium content -/
theorem validate_iff (f : List Octet → Nat → Nat) (s : Store) (hst : Streamable f s) (m : Medium)
    (hc : Clean m) (hf : Fits s m) :
    ∃ m', persistent_validate f s m =
        ((if Ufw.Spec.Endian.loadU s.hostBig (field s m) = expected f s m then .success else .invalidData), m') ∧
      m'.cells = m.cells ∧ Clean m' := by
  have hr : s.sumAddr + s.width ≤ m.cells.length := by
    simp only [Fits, Store.dataAddr] at hf; omega
  simp only [persistent_validate, persistent_fetch_checksum, read_clean m hc s.sumAddr s.width hr, ne_eq,
    not_true_eq_false, ↓reduceIte]
  have hc1 : Clean { m with log := m.log ++ [(false, s.sumAddr, s.width)] } := hc
  obtain ⟨m', e1, e2, e3⟩ := checksum_chunking f s hst { m with log := m.log ++ [(false, s.sumAddr, s.width)] } hc1 hf
  rw [e1]
  refine ⟨m', ?_, e2, e3⟩
  rfl

/-- any alteration of a stored octet is reported as invalid data whenever the configured checksum
    distinguishes the two images (or the checksum field itself was altered) -/
theorem alteration_detected (f : List Octet → Nat → Nat) (s : Store) (hst : Streamable f s) (m : Medium)
    (hc : Clean m) (hf : Fits s m)
    (hdiff : Ufw.Spec.Endian.loadU s.hostBig (field s m) ≠ expected f s m) :
    (persistent_validate f s m).1 = .invalidData := by
  obtain ⟨m', e, _⟩ := validate_iff f s hst m hc hf
  rw [e]; simp [hdiff]

private theorem load_sumImage (s : Store) (v : Nat) :
    Ufw.Spec.Endian.loadU s.hostBig (sumImage s (trunc s v)) = trunc s v := by
  simp only [sumImage, Ufw.Lemmas.EndianSpec.load_store]
  exact Nat.mod_eq_of_lt (trunc_lt s v)

private theorem sumImage_length (s : Store) (v : Nat) : (sumImage s v).length = s.width := by
  simp [sumImage, Ufw.Lemmas.EndianSpec.store_length]

/-- writing the right checksum makes the instance valid and leaves the data image alone -/
private theorem store_checksum_valid (f : List Octet → Nat → Nat) (s : Store) (hst : Streamable f s) (m : Medium)
    (hc : Clean m) (hf : Fits s m) :
    ∃ m2, persistent_store_checksum s m (expected f s m) = (.success, m2) ∧ Clean m2 ∧ Fits s m2 ∧
      image s m2 = image s m ∧ (persistent_validate f s m2).1 = .success := by
  have hr : s.sumAddr + s.width ≤ m.cells.length := by
    simp only [Fits, Store.dataAddr] at hf; omega
  have hexp : expected f s m = trunc s (expected f s m) := by
    simp only [expected]; split <;> rw [trunc_idem]
  have hl := sumImage_length s (expected f s m)
  simp only [persistent_store_checksum]
  rw [write_clean m hc s.sumAddr _ (by rw [hl]; exact hr)]
  simp only [hl, ne_eq, not_true_eq_false, ↓reduceIte]
  refine ⟨_, rfl, hc, ?_, ?_, ?_⟩
  · have := put_length m.cells (sumImage s (expected f s m)) s.sumAddr (by rw [hl]; exact hr)
    rw [hl] at this
    simp only [Fits, this]; exact hf
  · simp only [image]
    have := put_frame m.cells (sumImage s (expected f s m)) s.sumAddr s.dataAddr s.dataSize (by rw [hl]; exact hr)
      (Or.inr (by rw [hl]; simp [Store.dataAddr]))
    rw [hl] at this
    exact this
  · obtain ⟨m2, hm2⟩ : ∃ m2 : Medium, m2 = { m with cells := m.cells.take s.sumAddr ++ (sumImage s (expected f s m) ++ m.cells.drop (s.sumAddr + s.width)), log := m.log ++ [(true, s.sumAddr, s.width)] } := ⟨_, rfl⟩
    rw [← hm2]
    have hc2 : Clean m2 := by rw [hm2]; exact hc
    have hf2 : Fits s m2 := by
      simp only [Fits, hm2]
      have := put_length m.cells (sumImage s (expected f s m)) s.sumAddr (by rw [hl]; exact hr)
      rw [hl] at this
      rw [this]; exact hf
    obtain ⟨m', e, _⟩ := validate_iff f s hst m2 hc2 hf2
    rw [e]
    have himg : image s m2 = image s m := by
      simp only [image, hm2]
      have := put_frame m.cells (sumImage s (expected f s m)) s.sumAddr s.dataAddr s.dataSize (by rw [hl]; exact hr)
        (Or.inr (by rw [hl]; simp [Store.dataAddr]))
      rw [hl] at this
      exact this
    have hfield : field s m2 = sumImage s (expected f s m) := by
      simp only [field, hm2]
      have := put_get m.cells (sumImage s (expected f s m)) s.sumAddr (by rw [hl]; exact hr)
      rw [hl] at this
      exact this
    have hexp2 : expected f s m2 = expected f s m := by simp only [expected, himg]
    rw [hfield, hexp2, hexp, load_sumImage]
    simp [← hexp]

/-- after a successful store – full or partial, any data size, placement, checksum width, streamable
    function and auxiliary buffer size – validation succeeds and the data image is the old image with
    the stored octets laid over it (for a full store: exactly the stored image) -/
theorem store_validate_fetch (f : List Octet → Nat → Nat) (s : Store) (hst : Streamable f s) (m : Medium)
    (hc : Clean m) (hf : Fits s m) (src : List Octet) (offset : Nat) (hn : 0 < src.length)
    (hin : offset + src.length ≤ s.dataSize) :
    ∃ m2, persistent_store_part f s m src offset = (.success, m2) ∧ Clean m2 ∧ Fits s m2 ∧
      image s m2 = (image s m).take offset ++ (src ++ (image s m).drop (offset + src.length)) ∧
      (persistent_validate f s m2).1 = .success ∧
      (persistent_fetch s m2).1 = .success ∧ (persistent_fetch s m2).2.1 = image s m2 := by
  have hrange : ¬ (src.length > s.dataSize ∨ offset > s.dataSize - src.length) := by omega
  have hw : s.dataAddr + offset + src.length ≤ m.cells.length := by simp only [Fits] at hf; omega
  simp only [persistent_store_part, hrange, ↓reduceIte]
  rw [write_clean m hc (s.dataAddr + offset) src hw]
  simp only [ne_eq, not_true_eq_false, ↓reduceIte]
  obtain ⟨m1, hm1⟩ : ∃ m1 : Medium, m1 = { m with cells := m.cells.take (s.dataAddr + offset) ++ (src ++ m.cells.drop (s.dataAddr + offset + src.length)), log := m.log ++ [(true, s.dataAddr + offset, src.length)] } := ⟨_, rfl⟩
  rw [← hm1]
  have hc1 : Clean m1 := by rw [hm1]; exact hc
  have hlen1 : m1.cells.length = m.cells.length := by rw [hm1]; exact put_length m.cells src (s.dataAddr + offset) hw
  have hf1 : Fits s m1 := by simp only [Fits, hlen1]; exact hf
  -- the data image after the data write
  have himg1 : image s m1 = (image s m).take offset ++ (src ++ (image s m).drop (offset + src.length)) := by
    simp only [image, hm1]
    apply List.ext_getElem?
    intro i
    simp only [List.getElem?_take, List.getElem?_drop, List.getElem?_append, List.length_take, List.length_drop,
      List.length_append]
    simp only [Fits] at hf
    by_cases hi : i < s.dataSize
    · simp only [hi, ↓reduceIte]
      by_cases h1 : i < offset
      · have a1 : s.dataAddr + i < min (s.dataAddr + offset) m.cells.length := by omega
        have a2 : i < min offset (min s.dataSize (m.cells.length - s.dataAddr)) := by omega
        simp [a1, a2, hi]
      · by_cases h2 : i < offset + src.length
        · have a1 : ¬ s.dataAddr + i < min (s.dataAddr + offset) m.cells.length := by omega
          have a2 : ¬ i < min offset (min s.dataSize (m.cells.length - s.dataAddr)) := by omega
          have a3 : s.dataAddr + i - min (s.dataAddr + offset) m.cells.length < src.length := by omega
          have a4 : i - min offset (min s.dataSize (m.cells.length - s.dataAddr)) < src.length := by omega
          simp only [a1, a2, a3, a4, ↓reduceIte]
          congr 1; omega
        · have a1 : ¬ s.dataAddr + i < min (s.dataAddr + offset) m.cells.length := by omega
          have a2 : ¬ i < min offset (min s.dataSize (m.cells.length - s.dataAddr)) := by omega
          have a3 : ¬ s.dataAddr + i - min (s.dataAddr + offset) m.cells.length < src.length := by omega
          have a4 : ¬ i - min offset (min s.dataSize (m.cells.length - s.dataAddr)) < src.length := by omega
          simp only [a1, a2, a3, a4, ↓reduceIte]
          have a5 : offset + src.length + (i - min offset (min s.dataSize (m.cells.length - s.dataAddr)) - src.length) < s.dataSize := by omega
          simp only [a5, ↓reduceIte]
          congr 1; omega
    · simp only [hi, ↓reduceIte]
      have a2 : ¬ i < min offset (min s.dataSize (m.cells.length - s.dataAddr)) := by omega
      have a4 : ¬ i - min offset (min s.dataSize (m.cells.length - s.dataAddr)) < src.length := by omega
      have a5 : ¬ offset + src.length + (i - min offset (min s.dataSize (m.cells.length - s.dataAddr)) - src.length) < s.dataSize := by omega
      simp [a2, a4, a5]
  -- the checksum that gets written is the right one for that image, on both paths
  have hsum : ∃ m1', (if offset = 0 ∧ src.length = s.dataSize then
        persistent_store_checksum s m1 (trunc s (f src (trunc s s.init)))
      else match persistent_calculate_checksum f s m1 with
        | (.success, sum, m2) => persistent_store_checksum s m2 sum
        | (a, _, m2) => (a, m2)) = persistent_store_checksum s m1' (expected f s m1') ∧
      Clean m1' ∧ Fits s m1' ∧ m1'.cells = m1.cells := by
    by_cases hfull : offset = 0 ∧ src.length = s.dataSize
    · simp only [hfull, and_self, ↓reduceIte]
      refine ⟨m1, ?_, hc1, hf1, rfl⟩
      have : image s m1 = src := by
        rw [himg1, hfull.1]
        simp only [List.take_zero, List.nil_append, Nat.zero_add]
        rw [List.drop_eq_nil_of_le (by simp [image]; simp only [Fits] at hf; omega)]
        simp
      have hds : ¬ s.dataSize = 0 := by omega
      simp [expected, hds, this]
    · simp only [hfull, ↓reduceIte]
      obtain ⟨m1', e1, e2, e3⟩ := checksum_chunking f s hst m1 hc1 hf1
      rw [e1]
      refine ⟨m1', ?_, e3, by simp only [Fits, e2]; exact hf1, e2⟩
      simp only [expected, image, e2]
  obtain ⟨m1', e0, hc1', hf1', hcells⟩ := hsum
  obtain ⟨m2, e1, hc2, hf2, himg2, hval⟩ := store_checksum_valid f s hst m1' hc1' hf1'
  have himg1' : image s m1' = image s m1 := by simp only [image, hcells]
  refine ⟨m2, e0.trans e1, hc2, hf2, by rw [himg2, himg1', himg1], hval, ?_, ?_⟩
  · have hr : ¬ (s.dataSize > s.dataSize ∨ 0 > s.dataSize - s.dataSize) := by omega
    simp only [persistent_fetch, persistent_fetch_part, hr, ↓reduceIte, Nat.add_zero,
      read_clean m2 hc2 s.dataAddr s.dataSize hf2]
  · have hr : ¬ (s.dataSize > s.dataSize ∨ 0 > s.dataSize - s.dataSize) := by omega
    simp only [persistent_fetch, persistent_fetch_part, hr, ↓reduceIte, Nat.add_zero,
      read_clean m2 hc2 s.dataAddr s.dataSize hf2, image]

/-- all medium accesses of store, validate, fetch and reset – on any medium, whatever faults occur –
    stay inside the instance's checksum-plus-data region -/
theorem region (f : List Octet → Nat → Nat) (s : Store) (m : Medium) (src : List Octet) (offset n : Nat) (item : Octet) :
    let lo := s.sumAddr
    let hi := s.dataAddr + s.dataSize
    (∃ l, (persistent_store_part f s m src offset).2.log = m.log ++ l ∧ LogIn lo hi l) ∧
    (∃ l, (persistent_validate f s m).2.log = m.log ++ l ∧ LogIn lo hi l) ∧
    (∃ l, (persistent_fetch_part s m offset n).2.2.log = m.log ++ l ∧ LogIn lo hi l) ∧
    (∃ l, (persistent_reset s m item).2.log = m.log ++ l ∧ LogIn lo hi l) :=
  ⟨(store_part_op f s m src offset).1, (validate_op f s m).1, (fetch_part_op s m offset n).1, (reset_op s m item).1⟩

private theorem writenLoop_spec (s : Store) (item : Octet) :
    ∀ (fuel : Nat) (m : Medium) (rest addr : Nat), Clean m → addr + rest ≤ m.cells.length → rest ≤ fuel →
    ∃ m', writenLoop s item fuel m rest addr = (.success, m') ∧ Clean m' ∧
      m'.cells = m.cells.take addr ++ (List.replicate rest item ++ m.cells.drop (addr + rest)) := by
  intro fuel
  induction fuel with
  | zero =>
    intro m rest addr hc hr hf
    have : rest = 0 := by omega
    subst this
    exact ⟨m, by simp [writenLoop], hc, by simp⟩
  | succ fuel ih =>
    intro m rest addr hc hr hf
    cases rest with
    | zero => exact ⟨m, by simp [writenLoop], hc, by simp⟩
    | succ r =>
      have hb : 1 ≤ s.bsize := by
        simp only [Store.bsize]; split
        · split <;> omega
        · omega
      simp only [writenLoop]
      generalize htg : (if r + 1 > s.bsize then s.bsize else r + 1) = toput
      have ht1 : 1 ≤ toput ∧ toput ≤ r + 1 := by rw [← htg]; split <;> omega
      rw [write_clean m hc addr (List.replicate toput item) (by simp; omega)]
      simp only [List.length_replicate, ne_eq, not_true_eq_false, ↓reduceIte]
      obtain ⟨m1, hm1⟩ : ∃ m1 : Medium, m1 = { m with cells := m.cells.take addr ++ (List.replicate toput item ++ m.cells.drop (addr + toput)), log := m.log ++ [(true, addr, toput)] } := ⟨_, rfl⟩
      rw [← hm1]
      have hc1 : Clean m1 := by rw [hm1]; exact hc
      have hlen : m1.cells.length = m.cells.length := by
        rw [hm1]; simp; omega
      obtain ⟨m', e1, e2, e3⟩ := ih m1 (r + 1 - toput) (addr + toput) hc1 (by omega) (by omega)
      refine ⟨m', e1, e2, ?_⟩
      rw [e3, hm1]
      have := put_put m.cells (List.replicate toput item) (List.replicate (r + 1 - toput) item) addr (by simp; omega)
      simp only [List.length_replicate, List.length_append] at this
      have hsum : toput + (r + 1 - toput) = r + 1 := by omega
      rw [this, List.replicate_append_replicate, hsum]

/-- reset sets every octet of the region (checksum field and data) to the fill value and nothing else -/
theorem reset_spec (s : Store) (m : Medium) (hc : Clean m) (hf : Fits s m) (item : Octet) :
    ∃ m', persistent_reset s m item = (.success, m') ∧
      m'.cells = m.cells.take s.sumAddr ++ (List.replicate (s.width + s.dataSize) item ++ m.cells.drop (s.dataAddr + s.dataSize)) := by
  have hr : s.sumAddr + s.width ≤ m.cells.length := by simp only [Fits, Store.dataAddr] at hf; omega
  obtain ⟨m1, e1, c1, g1⟩ := writenLoop_spec s item s.width m s.width s.sumAddr hc hr (Nat.le_refl _)
  have hl1 : m1.cells.length = m.cells.length := by rw [g1]; simp; omega
  obtain ⟨m2, e2, c2, g2⟩ := writenLoop_spec s item s.dataSize m1 s.dataSize s.dataAddr c1 (by rw [hl1]; exact hf) (Nat.le_refl _)
  refine ⟨m2, by simp [persistent_reset, e1, e2], ?_⟩
  rw [g2, g1]
  have := put_put m.cells (List.replicate s.width item) (List.replicate s.dataSize item) s.sumAddr
    (by simp; simp only [Fits, Store.dataAddr] at hf; omega)
  simp only [List.length_replicate, List.length_append, List.replicate_append_replicate] at this
  simp only [Store.dataAddr]
  rw [this]
  congr 3
  omega

/-! #### the checksum functions in use are streamable -/

theorem sum16_streamable (s : Store) (hw : s.width = 2) : Streamable sum16 s := by
  intro a b i
  have hmod : ∀ (l : List Octet) (x : Nat), (l.foldl (fun a o => (a + o.toNat) % 65536) (x % 65536)) % 65536
      = (l.foldl (fun a o => (a + o.toNat) % 65536) x) % 65536 := by
    intro l; induction l with
    | nil => intro x; simp
    | cons o os ih => intro x; simp only [List.foldl_cons]; congr 2; omega
  simp only [trunc, hw, sum16, List.foldl_append]
  exact (hmod b _).symm

theorem sum32_streamable (s : Store) (hw : s.width = 4) : Streamable sum32 s := by
  intro a b i
  have hmod : ∀ (l : List Octet) (x : Nat), (l.foldl (fun a o => (a * 31 + o.toNat) % 4294967296) (x % 4294967296)) % 4294967296
      = (l.foldl (fun a o => (a * 31 + o.toNat) % 4294967296) x) % 4294967296 := by
    intro l; induction l with
    | nil => intro x; simp
    | cons o os ih =>
      intro x; simp only [List.foldl_cons]; congr 2
      rw [Nat.add_mod, Nat.mul_mod, Nat.mod_mod, ← Nat.mul_mod, ← Nat.add_mod]
  simp only [trunc, hw, sum32, List.foldl_append]
  exact (hmod b _).symm

/-- CRC-16/ARC (the library's own function, see C16) used as 16-bit checksum -/
theorem crc16_streamable (s : Store) (hw : s.width = 2) :
    Streamable (fun d i => (Ufw.Model.Crc.ufw_crc16_arc (BitVec.ofNat 16 i) d).toNat) s := by
  intro a b i
  simp only [trunc, hw, Ufw.Model.Crc.ufw_crc16_arc, List.foldl_append]
  congr 3
  apply BitVec.eq_of_toNat_eq
  simp only [BitVec.toNat_ofNat]
  have := (List.foldl Gen.CrcTable.crc16_octet (BitVec.ofNat 16 i) a).isLt
  omega

/-! #### non-vacuity -/

example : Streamable sum16 { sumAddr := 3, width := 2, init := 0, dataSize := 4, buf := some 3 } :=
  sum16_streamable _ rfl
example : Clean { cells := List.replicate 12 0#8 } ∧
    Fits { sumAddr := 3, width := 2, init := 0, dataSize := 4, buf := some 3 } { cells := List.replicate 12 0#8 } := by
  simp [Clean, Fits, Store.dataAddr]

end Ufw.Props.C10
