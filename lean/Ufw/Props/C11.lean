/-
C11 – interrupted or failing stores never validate a mixed image silently.
Property theorems only (helper lemmas: Ufw/Lemmas/Persist.lean; C10 for validate_iff).
-/
import Ufw.Model.Persist
import Ufw.Lemmas.Persist
import Ufw.Props.C10

namespace Ufw.Props.C11
open Ufw Ufw.Model.Persist Ufw.Lemmas.Persist

/-- The medium after a store that was cut at any point – after any prefix of its writes, the last one
    torn at any octet – is just some medium content.  On EVERY medium content (readable, inside the
    region) a later validation succeeds if and only if the checksum field on the medium equals the
    checksum function of the data image on the medium.  (At whole-write granularity the data image is
    the previous or the new one, so a fetch after a successful validation returns one of the two.) -/
theorem crash_consistent (f : List Octet → Nat → Nat) (s : Store) (hst : Streamable f s)
    (cells : List Octet) (hfit : s.dataAddr + s.dataSize ≤ cells.length) :
    let m : Medium := { cells := cells }
    ((persistent_validate f s m).1 = .success ↔
      Ufw.Spec.Endian.loadU s.hostBig (field s m) = Ufw.Props.C10.expected f s m) ∧
    ((persistent_validate f s m).1 = .success ∨ (persistent_validate f s m).1 = .invalidData) := by
  intro m
  have hc : Clean m := ⟨rfl, rfl⟩
  obtain ⟨m', e, _⟩ := Ufw.Props.C10.validate_iff f s hst m hc hfit
  rw [e]
  constructor
  · constructor
    · intro h; by_cases hne : Ufw.Spec.Endian.loadU s.hostBig (field s m) = Ufw.Props.C10.expected f s m
      · exact hne
      · simp [hne] at h
    · intro h; simp [h]
  · by_cases h : Ufw.Spec.Endian.loadU s.hostBig (field s m) = Ufw.Props.C10.expected f s m <;> simp [h]

/-- what a cut store leaves on the medium: with the write torn after `k` octets the medium holds the
    first k octets of the write and the library performs no further access -/
theorem torn_write (m : Medium) (addr : Nat) (d : List Octet) (k : Nat) (rest : List (Option Nat))
    (hm : m.faults = some k :: rest) (hk : k < d.length) (hr : addr + d.length ≤ m.cells.length) :
    (m.write addr d).1 = k ∧
    (m.write addr d).2.cells = m.cells.take addr ++ (d.take k ++ m.cells.drop (addr + k)) ∧
    (m.write addr d).2.faulted = true := by
  have hl : (d.take k).length = k := by simp; omega
  simp [Medium.write, hm, hr, hl]
  omega

/-- a medium read or write that fails or transfers short at any point of store, validate, fetch or
    reset – under every fault script – is reported as I/O error, never as success (nor as any other
    result) -/
theorem io_error_propagates (f : List Octet → Nat → Nat) (s : Store) (m : Medium) (hm : m.faulted = false)
    (src : List Octet) (offset n : Nat) (item : Octet) :
    ((persistent_store_part f s m src offset).2.faulted = true → (persistent_store_part f s m src offset).1 = .ioError) ∧
    ((persistent_validate f s m).2.faulted = true → (persistent_validate f s m).1 = .ioError) ∧
    ((persistent_fetch_part s m offset n).2.2.faulted = true → (persistent_fetch_part s m offset n).1 = .ioError) ∧
    ((persistent_reset s m item).2.faulted = true → (persistent_reset s m item).1 = .ioError) :=
  ⟨(store_part_op f s m src offset).2 hm, (validate_op f s m).2 hm, (fetch_part_op s m offset n).2 hm,
   (reset_op s m item).2 hm⟩

/-! #### non-vacuity -/

example : (persistent_store_part sum16 { sumAddr := 0, width := 2, init := 0, dataSize := 3, buf := none }
    { cells := List.replicate 6 0#8, faults := [some 1] } [1#8, 2#8, 3#8] 0).1 = .ioError := by decide
example : (persistent_validate sum16 { sumAddr := 0, width := 2, init := 0, dataSize := 3, buf := some 2 }
    { cells := [6#8, 0#8, 1#8, 2#8, 3#8] }).1 = .success := by decide

end Ufw.Props.C11
