/-
C17 – endpoints move exactly N octets in order whatever the driver does.
Property theorems only (helper lemmas: Ufw/Lemmas/Endpoints.lean).
-/
import Ufw.Model.Endpoints
import Ufw.Lemmas.Endpoints

namespace Ufw.Props.C17
open Ufw Ufw.Model.Endpoints Ufw.Lemmas.Endpoints

/-! #### reading N octets -/

/-- `source_get_chunk`: for every driver script, stream, count and amount of fuel.
    Success means exactly the next n octets of the stream, in order, are in the caller's buffer and
    the driver has delivered nothing else; failure returns end-of-data or a hard error of the driver
    unchanged (never EINTR/EAGAIN), and what the driver delivered is still a prefix of the stream. -/
theorem get_chunk_exact (fuel : Nat) (s : Src) (n : Nat) :
    let r := source_get_chunk fuel s n
    (∀ m, r.1 = .ok m → m = n ∧ r.2.1 = s.stream.take n ∧ r.2.1.length = n ∧ r.2.2.stream = s.stream.drop n) ∧
    (∀ e, r.1 = .err e → e = .einval ∨ e = .enodata ∨ Step.hard e ∈ s.script) ∧
    (∃ j, r.2.2.stream = s.stream.drop j) := by
  simp only [source_get_chunk]
  by_cases hn : n = 0 ∨ n > SSIZE_MAX
  · simp only [hn, ↓reduceIte]
    exact ⟨by simp, by simp, ⟨0, by simp⟩⟩
  · simp only [hn, ↓reduceIte]
    obtain ⟨d, lost, e1, e2, e3, e4, e5⟩ := getLoop_spec fuel s n []
    simp only [List.nil_append] at e1 e4
    refine ⟨?_, ?_, ⟨(d ++ lost).length, e2.2.1⟩⟩
    · intro m hm
      obtain ⟨f1, f2, f3⟩ := e4 m hm
      subst f3
      simp only [List.append_nil] at e2
      rw [e1]
      refine ⟨by omega, ?_, f2, ?_⟩
      · have := e2.1; rw [f2] at this; exact this
      · have := e2.2.1; rw [f2] at this; exact this
    · intro e he
      rcases (e5 e he).1 with h | h
      · exact Or.inr (Or.inl h)
      · exact Or.inr (Or.inr h)

/-- N = 0 or N > SSIZE_MAX is refused as invalid without calling the driver -/
theorem get_chunk_refuses (fuel : Nat) (s : Src) (n : Nat) (h : n = 0 ∨ n > SSIZE_MAX) :
    source_get_chunk fuel s n = (.err .einval, [], s) := by
  simp [source_get_chunk, h]

/-- the at-most variant never moves more than asked and returns the count actually moved -/
theorem get_atmost_le (fuel : Nat) (s : Src) (n : Nat) :
    let r := source_get_chunk_atmost fuel s n
    r.2.1.length ≤ n ∧ r.2.1 = s.stream.take r.2.1.length ∧ r.2.2.stream = s.stream.drop r.2.1.length ∧
    (∀ m, r.1 = .ok m → m = r.2.1.length) := by
  obtain ⟨hadv, hlen, hok, _⟩ := once_get_spec fuel s n
  exact ⟨hlen, hadv.1, hadv.2.1, hok⟩

/-! #### writing N octets -/

/-- `sink_put_chunk`: success means the sink has received exactly the given octets, in order;
    failure returns a hard error of the driver unchanged and the sink has received a prefix. -/
theorem put_chunk_exact (fuel : Nat) (s : Snk) (d : List Octet) :
    let r := sink_put_chunk fuel s d
    (∀ m, r.1 = .ok m → m = d.length ∧ r.2.got = s.got ++ d) ∧
    (∀ e, r.1 = .err e → e = .einval ∨ Step.hard e ∈ s.script) ∧
    (∃ k, r.2.got = s.got ++ d.take k) := by
  simp only [sink_put_chunk]
  by_cases hn : d.length = 0 ∨ d.length > SSIZE_MAX
  · simp only [hn, ↓reduceIte]
    exact ⟨by simp, by simp, ⟨0, by simp⟩⟩
  · simp only [hn, ↓reduceIte]
    obtain ⟨k, hk, hadv, hok, herr⟩ := putLoop_spec fuel s d d.length
    refine ⟨?_, fun e he => Or.inr (herr e he).1, ⟨k, hadv.1⟩⟩
    intro m hm
    obtain ⟨f1, f2⟩ := hok m hm
    refine ⟨f1, ?_⟩
    rw [hadv.1, f2, List.take_length]

theorem put_chunk_refuses (fuel : Nat) (s : Snk) (d : List Octet) (h : d.length = 0 ∨ d.length > SSIZE_MAX) :
    sink_put_chunk fuel s d = (.err .einval, s) := by
  simp only [sink_put_chunk, h, ↓reduceIte]

theorem put_atmost_le (fuel : Nat) (s : Snk) (d : List Octet) :
    ∃ k, k ≤ d.length ∧ (sink_put_chunk_atmost fuel s d).2.got = s.got ++ d.take k ∧
      (∀ m, (sink_put_chunk_atmost fuel s d).1 = .ok m → m = k) := by
  obtain ⟨k, hk, hadv, hok, _⟩ := once_put_spec fuel s d
  exact ⟨k, hk, hadv.1, hok⟩

/-! #### plumbing, per octet (drivers that never answer 0 – see DESIGN.md) -/

/-- what all plumbing variants guarantee when they stop: the sink has received `d`, the next octets of
    the stream in order (a prefix of the stream), and at most `lost` further octets were taken from the
    source without being delivered -/
abbrev Delivered := @Moved

private theorem nz_src {src src' : Src} {snk snk' : Snk} {d lost : List Octet} (h : Moved src snk src' snk' d lost)
    (hs : NoZero src.script) : NoZero src'.script := NoZero.suffix h.1.2.2.1 hs
private theorem nz_snk {src src' : Src} {snk snk' : Snk} {d lost : List Octet} (h : Moved src snk src' snk' d lost)
    (hk : NoZero snk.script) : NoZero snk'.script := NoZero.suffix h.2.2.1 hk

/-- `sts_n` (endpoints without buffer extension), for drivers that may answer anything - partial transfers,
    0 ("nothing for the moment"), interruptions, errors: success = exactly `rest` octets moved in order, nothing
    lost; failure = a prefix moved and at most one octet lost; it returns once the fuel covers the requested
    count plus the length of the source's script (every round that moves nothing uses up one step of it) -/
theorem sts_n_spec : ∀ (fuel : Nat) (src : Src) (snk : Snk) (rest total : Nat),
    (∀ m, (sts_n fuel src snk rest total).1 = .ok m → m = total ∧
      ∃ d, d.length = rest ∧ Moved src snk (sts_n fuel src snk rest total).2.1 (sts_n fuel src snk rest total).2.2 d []) ∧
    (∀ e, (sts_n fuel src snk rest total).1 = .err e →
      ∃ d lost, lost.length ≤ 1 ∧ Moved src snk (sts_n fuel src snk rest total).2.1 (sts_n fuel src snk rest total).2.2 d lost) ∧
    (rest + src.script.length ≤ fuel → (sts_n fuel src snk rest total).1 ≠ .diverge) := by
  intro fuel
  induction fuel with
  | zero =>
    intro src snk rest total
    cases rest with
    | zero => exact ⟨fun m hm => ⟨by simpa [sts_n] using hm.symm, [], rfl, Moved.refl src snk⟩, by simp [sts_n], by simp [sts_n]⟩
    | succ r => exact ⟨by simp [sts_n], by simp [sts_n], by omega⟩
  | succ fuel ih =>
    intro src snk rest total
    cases rest with
    | zero => exact ⟨fun m hm => ⟨by simpa [sts_n] using hm.symm, [], rfl, Moved.refl src snk⟩, by simp [sts_n], by simp [sts_n]⟩
    | succ r =>
      obtain ⟨c1, c2, c3⟩ := sts_cbc_gen src snk
      simp only [sts_n]
      rcases hc : sts_cbc src snk with ⟨rc, src1, snk1⟩
      rw [hc] at c1 c2 c3
      simp only at c1 c2 c3
      cases rc with
      | diverge => exact absurd rfl c3
      | err e =>
        obtain ⟨lost, hl, hm⟩ := c2 e rfl
        exact ⟨by simp, fun e' _ => ⟨[], lost, hl, hm⟩, by simp⟩
      | ok k =>
        rcases c1 k rfl with ⟨hk1, o, hm⟩ | ⟨hk0, hm, hlt⟩
        · subst hk1
          simp only [Nat.add_sub_cancel]
          obtain ⟨i1, i2, i3⟩ := ih src1 snk1 r total
          have hsuf := (hm.1.2.2.1 : src1.script <:+ src.script).length_le
          refine ⟨?_, ?_, fun h => i3 (by omega)⟩
          · intro m hmm
            obtain ⟨f1, d, f2, f3⟩ := i1 m hmm
            exact ⟨f1, o :: d, by simp [f2], by simpa using Moved.trans hm f3⟩
          · intro e he
            obtain ⟨d, lost, f1, f2⟩ := i2 e he
            exact ⟨o :: d, lost, f1, by simpa using Moved.trans hm f2⟩
        · subst hk0
          simp only [Nat.sub_zero]
          obtain ⟨i1, i2, i3⟩ := ih src1 snk1 (r + 1) total
          refine ⟨?_, ?_, fun h => i3 (by omega)⟩
          · intro m hmm
            obtain ⟨f1, d, f2, f3⟩ := i1 m hmm
            exact ⟨f1, d, f2, by simpa using Moved.trans hm f3⟩
          · intro e he
            obtain ⟨d, lost, f1, f2⟩ := i2 e he
            exact ⟨d, lost, f1, by simpa using Moved.trans hm f2⟩

/-- `sts_n_cbc`: the same loop (it counts what was moved): the same guarantee, for every driver behaviour -/
theorem sts_n_cbc_spec (fuel n : Nat) (src : Src) (snk : Snk) (total : Nat) :
    (∀ m, (sts_n_cbc fuel n src snk total).1 = .ok m → m = total ∧
      ∃ d, d.length = n ∧ Moved src snk (sts_n_cbc fuel n src snk total).2.1 (sts_n_cbc fuel n src snk total).2.2 d []) ∧
    (∀ e, (sts_n_cbc fuel n src snk total).1 = .err e →
      ∃ d lost, lost.length ≤ 1 ∧ Moved src snk (sts_n_cbc fuel n src snk total).2.1 (sts_n_cbc fuel n src snk total).2.2 d lost) ∧
    (n + src.script.length ≤ fuel → (sts_n_cbc fuel n src snk total).1 ≠ .diverge) :=
  sts_n_spec fuel src snk n total

/-- `sts_drain_cbc` and `sts_drain` never report success (they stop with an error, end of data being one);
    what reached the sink is a prefix of the stream and at most one octet is lost - for every driver behaviour -/
theorem sts_drain_spec : ∀ (fuel : Nat) (src : Src) (snk : Snk),
    (∀ m, (sts_drain_cbc fuel src snk).1 ≠ .ok m) ∧ (∀ m, (sts_drain fuel src snk).1 ≠ .ok m) ∧
    (∃ d lost, lost.length ≤ 1 ∧ Moved src snk (sts_drain_cbc fuel src snk).2.1 (sts_drain_cbc fuel src snk).2.2 d lost) ∧
    (∃ d lost, lost.length ≤ 1 ∧ Moved src snk (sts_drain fuel src snk).2.1 (sts_drain fuel src snk).2.2 d lost) := by
  intro fuel
  induction fuel with
  | zero => intro src snk; exact ⟨by simp [sts_drain_cbc], by simp [sts_drain], ⟨[], [], by simp, Moved.refl src snk⟩, ⟨[], [], by simp, Moved.refl src snk⟩⟩
  | succ fuel ih =>
    intro src snk
    obtain ⟨c1, c2, c3⟩ := sts_cbc_gen src snk
    simp only [sts_drain_cbc, sts_drain]
    rcases hc : sts_cbc src snk with ⟨rc, src1, snk1⟩
    rw [hc] at c1 c2 c3
    simp only at c1 c2 c3
    cases rc with
    | diverge => exact absurd rfl c3
    | err e =>
      obtain ⟨lost, hl, hm⟩ := c2 e rfl
      refine ⟨by simp, ?_, ⟨[], lost, hl, hm⟩, ⟨[], lost, hl, hm⟩⟩
      intro m; by_cases he : e = .enomem <;> simp [he]
    | ok k =>
      obtain ⟨i1, i2, ⟨d, lost, f1, f2⟩, ⟨d', lost', g1, g2⟩⟩ := ih src1 snk1
      rcases c1 k rfl with ⟨_, o, hm⟩ | ⟨_, hm, _⟩
      · exact ⟨i1, i2, ⟨o :: d, lost, f1, by simpa using Moved.trans hm f2⟩,
          ⟨o :: d', lost', g1, by simpa using Moved.trans hm g2⟩⟩
      · exact ⟨i1, i2, ⟨d, lost, f1, by simpa using Moved.trans hm f2⟩,
          ⟨d', lost', g1, by simpa using Moved.trans hm g2⟩⟩

/-- well-behaved drivers: draining moves everything up to the source's end -/
theorem sts_drain_complete : ∀ (stream : List Octet) (got : List Octet) (sk kk : Kind) (c1 c2 : Nat),
    (sts_drain_cbc (stream.length + 1) { kind := sk, stream := stream, script := [], calls := c1 }
        { kind := kk, got := got, script := [], calls := c2 }).2.2.got = got ++ stream ∧
    (sts_drain (stream.length + 1) { kind := sk, stream := stream, script := [], calls := c1 }
        { kind := kk, got := got, script := [], calls := c2 }).2.2.got = got ++ stream := by
  have one : ∀ (o : Octet) (os got : List Octet) (sk kk : Kind) (c1 c2 : Nat),
      sts_cbc { kind := sk, stream := o :: os, script := [], calls := c1 } { kind := kk, got := got, script := [], calls := c2 }
        = (.ok 1, { kind := sk, stream := os, script := [], calls := c1 + 1 },
            { kind := kk, got := got ++ [o], script := [], calls := c2 + 1 }) := by
    intro o os got sk kk c1 c2
    simp [sts_cbc, source_get_octet, sink_put_octet, Src.call, Snk.call, putRetry]
  have fin : ∀ (got : List Octet) (sk kk : Kind) (c1 c2 : Nat),
      (sts_cbc { kind := sk, stream := [], script := [], calls := c1 } { kind := kk, got := got, script := [], calls := c2 }).1
        = .err .enodata ∧
      (sts_cbc { kind := sk, stream := [], script := [], calls := c1 } { kind := kk, got := got, script := [], calls := c2 }).2.2.got
        = got := by
    intro got sk kk c1 c2
    simp [sts_cbc, source_get_octet, Src.call]
  intro stream
  induction stream with
  | nil =>
    intro got sk kk c1 c2
    obtain ⟨f1, f2⟩ := fin got sk kk c1 c2
    simp only [List.length_nil, Nat.zero_add, sts_drain_cbc, sts_drain, List.append_nil]
    rcases hc : sts_cbc { kind := sk, stream := [], script := [], calls := c1 } { kind := kk, got := got, script := [], calls := c2 }
      with ⟨rc, src1, snk1⟩
    rw [hc] at f1 f2
    simp only at f1 f2
    subst f1
    simp [f2]
  | cons o os ih =>
    intro got sk kk c1 c2
    have := ih (got ++ [o]) sk kk (c1 + 1) (c2 + 1)
    simp only [List.length_cons]
    rw [sts_drain_cbc, sts_drain, one]
    simpa [List.append_assoc] using this

/-! #### plumbing through an auxiliary buffer -/

/-- one round (`sts_some_aux` / `sts_atmost_aux`): at most `region` octets are moved, all of them reach
    the sink on success; on failure the sink has received a prefix of what the source delivered; the
    auxiliary buffer is written only inside [offset, offset + region) -/
theorem sts_some_aux_spec (fuel : Nat) (src : Src) (snk : Snk) (a : Aux) (region : Nat) :
    let r := sts_some_aux fuel src snk a region
    (∀ m, r.1 = .ok m → m ≤ region ∧ ∃ d, d.length = m ∧ Moved src snk r.2.1 r.2.2.1 d []) ∧
    (∃ d lost, Moved src snk r.2.1 r.2.2.1 d lost) ∧
    (∃ w, w.length ≤ region ∧ (r.2.2.2 = a ∨ r.2.2.2 = a.write w)) := by
  simp only [sts_some_aux]
  by_cases hz : region = 0
  · simp only [hz, ↓reduceIte]
    exact ⟨by simp, ⟨[], [], Moved.refl src snk⟩, ⟨[], by simp, by simp⟩⟩
  · simp only [hz, ↓reduceIte, source_get_chunk_atmost]
    obtain ⟨hadv, hlen, hok, _⟩ := once_get_spec fuel src region
    rcases hc : once_source_get_chunk fuel src region with ⟨rc, d0, src1⟩
    rw [hc] at hadv hlen hok
    simp only at hadv hlen hok ⊢
    cases rc with
    | diverge => exact ⟨by simp, ⟨[], d0, ⟨by simpa using hadv, SnkAdv.refl snk⟩⟩, ⟨[], by simp, Or.inl rfl⟩⟩
    | err e => exact ⟨by simp, ⟨[], d0, ⟨by simpa using hadv, SnkAdv.refl snk⟩⟩, ⟨[], by simp, Or.inl rfl⟩⟩
    | ok k =>
      have hk := hok k rfl
      cases k with
      | zero =>
        have : d0 = [] := by simpa using hk.symm
        subst this
        exact ⟨fun m hm => ⟨by simp only [R.ok.injEq] at hm; omega, [], by simpa using hm, ⟨by simpa using hadv, SnkAdv.refl snk⟩⟩,
          ⟨[], [], ⟨by simpa using hadv, SnkAdv.refl snk⟩⟩, ⟨[], by simp, Or.inl rfl⟩⟩
      | succ k' =>
        simp only
        obtain ⟨p1, p2, p3⟩ := put_chunk_exact fuel snk d0
        rcases hp : sink_put_chunk fuel snk d0 with ⟨rp, snk1⟩
        rw [hp] at p1 p2 p3
        simp only at p1 p2 p3 ⊢
        -- script suffix for the sink
        have hsk : snk1.script <:+ snk.script ∧ snk1.kind = snk.kind := by
          have : snk1 = (sink_put_chunk fuel snk d0).2 := by rw [hp]
          rw [this]
          simp only [sink_put_chunk]
          split
          · exact ⟨List.suffix_refl _, rfl⟩
          · obtain ⟨_, _, h, _⟩ := putLoop_spec fuel snk d0 d0.length
            exact ⟨h.2.1, h.2.2⟩
        obtain ⟨j, hj⟩ := p3
        refine ⟨?_, ⟨d0.take j, d0.drop j, ⟨by simpa using hadv, ⟨hj, hsk.1, hsk.2⟩⟩⟩, ⟨d0, hlen, Or.inr rfl⟩⟩
        intro m hm
        obtain ⟨f1, f2⟩ := p1 m hm
        exact ⟨by omega, d0, f1.symm, ⟨by simpa using hadv, ⟨f2, hsk.1, hsk.2⟩⟩⟩

/-- `sts_n_aux`: success = exactly the requested count moved, nothing lost; failure = a prefix moved -/
theorem sts_n_aux_spec : ∀ (fuel : Nat) (src : Src) (snk : Snk) (a : Aux) (rest total : Nat),
    (∀ m, (sts_n_aux fuel src snk a rest total).1 = .ok m → m = total ∧
      ∃ d, d.length = rest ∧
        Moved src snk (sts_n_aux fuel src snk a rest total).2.1 (sts_n_aux fuel src snk a rest total).2.2.1 d []) ∧
    (∀ e, (sts_n_aux fuel src snk a rest total).1 = .err e →
      ∃ d lost, Moved src snk (sts_n_aux fuel src snk a rest total).2.1 (sts_n_aux fuel src snk a rest total).2.2.1 d lost) := by
  intro fuel
  induction fuel with
  | zero =>
    intro src snk a rest total
    cases rest with
    | zero => exact ⟨fun m hm => ⟨by simpa [sts_n_aux] using hm.symm, [], rfl, Moved.refl src snk⟩, by simp [sts_n_aux]⟩
    | succ r => exact ⟨by simp [sts_n_aux], by simp [sts_n_aux]⟩
  | succ fuel ih =>
    intro src snk a rest total
    cases rest with
    | zero => exact ⟨fun m hm => ⟨by simpa [sts_n_aux] using hm.symm, [], rfl, Moved.refl src snk⟩, by simp [sts_n_aux]⟩
    | succ r =>
      obtain ⟨c1, c2, _⟩ := sts_some_aux_spec (fuel + 1) src snk a.rewind (min (a.rewind.used - a.rewind.offset) (r + 1))
      simp only [sts_n_aux, sts_atmost_aux]
      rcases hc : sts_some_aux (fuel + 1) src snk a.rewind (min (a.rewind.used - a.rewind.offset) (r + 1))
        with ⟨rc, src1, snk1, a1⟩
      rw [hc] at c1 c2
      simp only at c1 c2
      cases rc with
      | diverge => exact ⟨by simp, by simp⟩
      | err e =>
        obtain ⟨d, lost, hm⟩ := c2
        exact ⟨by simp, fun e' _ => ⟨d, lost, hm⟩⟩
      | ok k =>
        obtain ⟨hk, d0, hd0, hm⟩ := c1 k rfl
        obtain ⟨i1, i2⟩ := ih src1 snk1 a1 (r + 1 - k) total
        refine ⟨?_, ?_⟩
        · intro m hmm
          obtain ⟨f1, d, f2, f3⟩ := i1 m hmm
          refine ⟨f1, d0 ++ d, ?_, Moved.trans hm f3⟩
          simp only [List.length_append]; omega
        · intro e he
          obtain ⟨d, lost, f2⟩ := i2 e he
          exact ⟨d0 ++ d, lost, Moved.trans hm f2⟩

/-- `sts_drain_aux` never reports success; when it stops the sink has received a prefix of the stream -/
theorem sts_drain_aux_spec : ∀ (fuel : Nat) (src : Src) (snk : Snk) (a : Aux) (size : Nat),
    (∀ m, (sts_drain_aux fuel src snk a size).1 ≠ .ok m) ∧
    (∃ d lost, Moved src snk (sts_drain_aux fuel src snk a size).2.1 (sts_drain_aux fuel src snk a size).2.2.1 d lost) := by
  intro fuel
  induction fuel with
  | zero => intro src snk a size; exact ⟨by simp [sts_drain_aux], ⟨[], [], Moved.refl src snk⟩⟩
  | succ fuel ih =>
    intro src snk a size
    obtain ⟨c1, c2, _⟩ := sts_some_aux_spec (fuel + 1) src snk a.rewind (min (a.rewind.used - a.rewind.offset) size)
    simp only [sts_drain_aux, sts_atmost_aux]
    rcases hc : sts_some_aux (fuel + 1) src snk a.rewind (min (a.rewind.used - a.rewind.offset) size)
      with ⟨rc, src1, snk1, a1⟩
    rw [hc] at c1 c2
    simp only at c1 c2
    cases rc with
    | diverge => exact ⟨by simp, c2⟩
    | err e => exact ⟨by simp, c2⟩
    | ok k =>
      obtain ⟨_, d0, _, hm⟩ := c1 k rfl
      obtain ⟨i1, ⟨d, lost, f2⟩⟩ := ih src1 snk1 a1 size
      exact ⟨i1, ⟨d0 ++ d, lost, Moved.trans hm f2⟩⟩

/-- writing `w` at the read mark changes nothing outside [offset, offset + |w|) -/
theorem aux_write_frame (a : Aux) (w : List Octet) (h : a.offset + w.length ≤ a.mem.length) (i : Nat)
    (hi : i < a.offset ∨ a.offset + w.length ≤ i) : (a.write w).mem[i]? = a.mem[i]? := by
  simp only [Aux.write]
  rcases hi with hi | hi
  · rw [List.getElem?_append_left (by simp; omega), List.getElem?_take_of_lt hi]
  · rw [List.getElem?_append_right (by simp; omega), List.getElem?_append_right (by simp; omega)]
    simp only [List.length_take, List.getElem?_drop]
    congr 1
    have : min a.offset a.mem.length = a.offset := by omega
    omega

/-! #### non-vacuity -/

example : (source_get_chunk 20 { kind := .chunk, stream := [1#8, 2#8, 3#8, 4#8], script := [.xfer 1, .zero, .eintr, .xfer 2] } 4).1
    = .ok 4 := by decide
example : (source_get_chunk 20 { kind := .octet, stream := [1#8, 2#8, 3#8], script := [.xfer 1, .hard .eio] } 3).1
    = .err .eio := by decide

end Ufw.Props.C17
