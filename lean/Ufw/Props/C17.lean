/-
C17 – endpoints move exactly N octets in order whatever the driver does.
Property theorems only (helper lemmas: Ufw/Lemmas/Endpoints.lean).
-/
import Ufw.Model.Endpoints
import Ufw.Lemmas.Endpoints

namespace Ufw.Props.C17
open Ufw Ufw.Model.Endpoints Ufw.Lemmas.Endpoints

/-! #### reading N octets -/

/-- `source_get_chunk`: for every driver script, stream, count and amount of fuel.
    Success means exactly the next n octets of the stream, in order, are in the caller's buffer and
    the driver has delivered nothing else; failure returns end-of-data or a hard error of the driver
    unchanged (never EINTR/EAGAIN), and what the driver delivered is still a prefix of the stream. -/
theorem get_chunk_exact (fuel : Nat) (s : Src) (n : Nat) :
    let r := source_get_chunk fuel s n
    (∀ m, r.1 = .ok m → m = n ∧ r.2.1 = s.stream.take n ∧ r.2.1.length = n ∧ r.2.2.stream = s.stream.drop n) ∧
    (∀ e, r.1 = .err e → e = .einval ∨ e = .enodata ∨ Step.hard e ∈ s.script) ∧
    (∃ j, r.2.2.stream = s.stream.drop j) := by
  simp only [source_get_chunk]
  by_cases hn : n = 0 ∨ n > SSIZE_MAX
  · simp only [hn, ↓reduceIte]
    exact ⟨by simp, by simp, ⟨0, by simp⟩⟩
  · simp only [hn, ↓reduceIte]
    obtain ⟨d, lost, e1, e2, e3, e4, e5⟩ := getLoop_spec fuel s n []
    simp only [List.nil_append] at e1 e4
    refine ⟨?_, ?_, ⟨(d ++ lost).length, e2.2.1⟩⟩
    · intro m hm
      obtain ⟨f1, f2, f3⟩ := e4 m hm
      subst f3
      simp only [List.append_nil] at e2
      rw [e1]
      refine ⟨by omega, ?_, f2, ?_⟩
      · have := e2.1; rw [f2] at this; exact this
      · have := e2.2.1; rw [f2] at this; exact this
    · intro e he
      rcases (e5 e he).1 with h | h
      · exact Or.inr (Or.inl h)
      · exact Or.inr (Or.inr h)

/-- N = 0 or N > SSIZE_MAX is refused as invalid without calling the driver -/
theorem get_chunk_refuses (fuel : Nat) (s : Src) (n : Nat) (h : n = 0 ∨ n > SSIZE_MAX) :
    source_get_chunk fuel s n = (.err .einval, [], s) := by
  simp [source_get_chunk, h]

/-- the at-most variant never moves more than asked and returns the count actually moved -/
theorem get_atmost_le (fuel : Nat) (s : Src) (n : Nat) :
    let r := source_get_chunk_atmost fuel s n
    r.2.1.length ≤ n ∧ r.2.1 = s.stream.take r.2.1.length ∧ r.2.2.stream = s.stream.drop r.2.1.length ∧
    (∀ m, r.1 = .ok m → m = r.2.1.length) := by
  obtain ⟨hadv, hlen, hok, _⟩ := once_get_spec fuel s n
  exact ⟨hlen, hadv.1, hadv.2.1, hok⟩

/-! #### writing N octets -/

/-- `sink_put_chunk`: success means the sink has received exactly the given octets, in order;
    failure returns a hard error of the driver unchanged and the sink has received a prefix. -/
theorem put_chunk_exact (fuel : Nat) (s : Snk) (d : List Octet) :
    let r := sink_put_chunk fuel s d
    (∀ m, r.1 = .ok m → m = d.length ∧ r.2.got = s.got ++ d) ∧
    (∀ e, r.1 = .err e → e = .einval ∨ Step.hard e ∈ s.script) ∧
    (∃ k, r.2.got = s.got ++ d.take k) := by
  simp only [sink_put_chunk]
  by_cases hn : d.length = 0 ∨ d.length > SSIZE_MAX
  · simp only [hn, ↓reduceIte]
    exact ⟨by simp, by simp, ⟨0, by simp⟩⟩
  · simp only [hn, ↓reduceIte]
    obtain ⟨k, hk, hadv, hok, herr⟩ := putLoop_spec fuel s d d.length
    refine ⟨?_, fun e he => Or.inr (herr e he).1, ⟨k, hadv.1⟩⟩
    intro m hm
    obtain ⟨f1, f2⟩ := hok m hm
    refine ⟨f1, ?_⟩
    rw [hadv.1, f2, List.take_length]

theorem put_chunk_refuses (fuel : Nat) (s : Snk) (d : List Octet) (h : d.length = 0 ∨ d.length > SSIZE_MAX) :
    sink_put_chunk fuel s d = (.err .einval, s) := by
  simp only [sink_put_chunk, h, ↓reduceIte]

theorem put_atmost_le (fuel : Nat) (s : Snk) (d : List Octet) :
    ∃ k, k ≤ d.length ∧ (sink_put_chunk_atmost fuel s d).2.got = s.got ++ d.take k ∧
      (∀ m, (sink_put_chunk_atmost fuel s d).1 = .ok m → m = k) := by
  obtain ⟨k, hk, hadv, hok, _⟩ := once_put_spec fuel s d
  exact ⟨k, hk, hadv.1, hok⟩

/-! #### non-vacuity -/

example : (source_get_chunk 20 { kind := .chunk, stream := [1#8, 2#8, 3#8, 4#8], script := [.xfer 1, .zero, .eintr, .xfer 2] } 4).1
    = .ok 4 := by decide
example : (source_get_chunk 20 { kind := .octet, stream := [1#8, 2#8, 3#8], script := [.xfer 1, .hard .eio] } 3).1
    = .err .eio := by decide

end Ufw.Props.C17
