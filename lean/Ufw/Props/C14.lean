/-
C14 – varint coding is canonical, lossless and bounded.  Property theorems only.
-/
import Ufw.Model.Varint
import Ufw.Spec.Leb128
import Ufw.Lemmas.Varint

namespace Ufw.Props.C14
open Ufw Ufw.Model.Varint Ufw.Spec.Leb128 Ufw.Lemmas.Varint
open Ufw.Model.ByteBuffer (ByteBuffer Rc writeAt byte_buffer_avail)

/-! #### the encoder -/

/-- the encoding is the canonical (minimal) little-endian base-128 form of the value -/
theorem canonical (n : Nat) : Canonical (encode n) ∧ valueOf (encode n) = n :=
  ⟨encode_canonical n, encode_value n⟩

/-- its length equals the length query, at most 5 octets for 32-bit and 10 for 64-bit values -/
theorem length_eq (n : Nat) :
    (encode n).length = varint_u64_length n ∧
    (n < 2 ^ 32 → (encode n).length ≤ MAX32) ∧ (n < 2 ^ 64 → (encode n).length ≤ MAX64) := by
  refine ⟨encode_length n, ?_, ?_⟩
  · intro h; exact encode_length_le 5 n (by omega) (by decide)
  · intro h; exact encode_length_le 10 n (by omega) (by decide)

/-- encoding into a byte buffer: refused (nothing written) when fewer than the maximum number of
    octets is available; otherwise the octets of `encode n` are placed at the read mark, the fill
    mark is set just behind them, the return value is their number, and nothing outside the
    buffer's memory is touched -/
theorem encode_buf_spec (b : ByteBuffer) (maxo n : Nat)
    (hinv : b.offset ≤ b.used ∧ b.used ≤ b.size ∧ b.mem.length = b.size)
    (hlen : (encode n).length ≤ maxo) :
    (byte_buffer_avail b < maxo → varint_encode_buf b maxo n = (.err .einval, b)) ∧
    (byte_buffer_avail b ≥ maxo →
      (varint_encode_buf b maxo n).1 = .ok (encode n).length ∧
      ((varint_encode_buf b maxo n).2.mem.drop b.offset).take (encode n).length = encode n ∧
      (varint_encode_buf b maxo n).2.used = b.offset + (encode n).length ∧
      (varint_encode_buf b maxo n).2.mem.take b.offset = b.mem.take b.offset ∧
      (varint_encode_buf b maxo n).2.mem.length = b.mem.length) := by
  obtain ⟨h1, h2, h3⟩ := hinv
  constructor
  · intro h; simp [varint_encode_buf, h]
  · intro h
    have hna : ¬ byte_buffer_avail b < maxo := by omega
    have hw : b.offset + (encode n).length ≤ b.mem.length := by
      simp only [byte_buffer_avail] at h; omega
    simp only [varint_encode_buf, hna, ↓reduceIte, writeAt, hw, true_and]
    have hl : (List.take b.offset b.mem).length = b.offset := by simp; omega
    refine ⟨?_, ?_, ?_⟩
    · rw [List.drop_append_of_le_length (by omega), List.drop_eq_nil_of_le (by omega)]
      simp
    · rw [List.take_append_of_le_length (by omega), List.take_take]; simp
    · simp; omega

/-! #### round trips -/

/-- buffer decoder, unsigned 64-bit: decoding the encoding (anywhere in a buffer, followed by
    anything) returns the value and consumes exactly the encoding -/
theorem roundtrip_u64 (n : Nat) (h : n < 2 ^ 64) (pre rest : List Octet) :
    varint_decode_u64 (pre ++ (encode n ++ rest)) pre.length = .ok n (encode n).length := by
  have := decodeLoop_encode n pre rest pre.length MAX64 0 0 (by simp) ((length_eq n).2.2 h)
    (by simp) (by simpa using h)
  simpa [varint_decode_u64, varint_decode] using this

theorem roundtrip_u32 (n : Nat) (h : n < 2 ^ 32) (pre rest : List Octet) :
    varint_decode_u32 (pre ++ (encode n ++ rest)) pre.length = .ok n (encode n).length := by
  have := decodeLoop_encode n pre rest pre.length MAX32 0 0 (by simp) ((length_eq n).2.1 h)
    (by simp) (by simp; omega)
  simp only [Nat.zero_mul, Nat.pow_zero, Nat.mul_one, Nat.zero_add] at this
  simp only [varint_decode_u32, varint_decode, this, Dec.map, u32]
  rw [Nat.mod_eq_of_lt h]

/-- source decoder: same, for a source that delivers the encoding followed by anything -/
theorem roundtrip_source_u64 (eos : Err) (n : Nat) (h : n < 2 ^ 64) (rest : List Octet) :
    varint_u64_from_source eos (encode n ++ rest) = .ok n (encode n).length := by
  have h1 := roundtrip_u64 n h [] rest
  simp only [varint_decode_u64, varint_decode, List.nil_append, List.length_nil] at h1
  rw [← List.nil_append (encode n ++ rest), decode_eq_source _ [] 0 _ 0 0 (by simp)] at h1
  exact sourceLoop_ok_eos _ _ _ _ _ _ _ _ h1

theorem roundtrip_source_u32 (eos : Err) (n : Nat) (h : n < 2 ^ 32) (rest : List Octet) :
    varint_u32_from_source eos (encode n ++ rest) = .ok n (encode n).length := by
  have := decodeLoop_encode n [] rest 0 MAX32 0 0 (by simp) ((length_eq n).2.1 h)
    (by simp) (by simp; omega)
  simp only [Nat.zero_mul, Nat.pow_zero, Nat.mul_one, Nat.zero_add] at this
  rw [decode_eq_source _ [] 0 _ 0 0 (by simp)] at this
  have := sourceLoop_ok_eos _ eos _ _ _ _ _ _ this
  simp only [varint_u32_from_source, varint_from_source, this, Dec.map, u32]
  rw [Nat.mod_eq_of_lt h]

/-- signed values travel as their two's complement pattern: reinterpreting the decoded pattern
    gives the value back, for every 32- and 64-bit signed value -/
theorem roundtrip_signed :
    (∀ x : Int, -2 ^ 31 ≤ x → x < 2 ^ 31 → ofS32 x < 2 ^ 32 ∧ toS32 (ofS32 x) = x) ∧
    (∀ x : Int, -2 ^ 63 ≤ x → x < 2 ^ 63 → ofS64 x < 2 ^ 64 ∧ toS64 (ofS64 x) = x) := by
  constructor
  · intro x h1 h2
    refine ⟨(BitVec.ofInt 32 x).isLt, ?_⟩
    simp only [toS32, ofS32, BitVec.ofNat_toNat, BitVec.setWidth_eq]
    rw [BitVec.toInt_ofInt]
    exact Int.bmod_eq_of_le (by omega) (by omega)
  · intro x h1 h2
    refine ⟨(BitVec.ofInt 64 x).isLt, ?_⟩
    simp only [toS64, ofS64, BitVec.ofNat_toNat, BitVec.setWidth_eq]
    rw [BitVec.toInt_ofInt]
    exact Int.bmod_eq_of_le (by omega) (by omega)

/-! #### the two decoders on arbitrary octet strings -/

/-- For every octet string (placed in a buffer of exactly that size, read from `off = |pre|`)
    the buffer decoder and the source decoder agree: same verdict, and on success same value
    and same consumed count.  (The source's end-of-data error may be any errno.) -/
theorem decoders_agree (eos : Err) (pre input : List Octet) (maxo : Nat) :
    (∀ v c, varint_decode (pre ++ input) pre.length maxo = .ok v c ↔
            varint_from_source eos input maxo = .ok v c) ∧
    ((∃ e, varint_decode (pre ++ input) pre.length maxo = .err e) ↔
     (∃ e, varint_from_source eos input maxo = .err e)) := by
  have he := decode_eq_source input pre pre.length maxo 0 0 (by simp)
  simp only [varint_decode, varint_from_source, he]
  constructor
  · intro v c
    exact ⟨sourceLoop_ok_eos _ _ _ _ _ _ _ _, sourceLoop_ok_eos _ _ _ _ _ _ _ _⟩
  · constructor
    · rintro ⟨e, h⟩; exact sourceLoop_err_eos _ _ _ _ _ _ _ h
    · rintro ⟨e, h⟩; exact sourceLoop_err_eos _ _ _ _ _ _ _ h

/-- a sequence without terminator within the maximum length is rejected as illegal (both decoders) -/
theorem no_terminator (eos : Err) (pre input : List Octet) (maxo : Nat)
    (hall : ∀ o ∈ input, o.toNat ≥ 128) (hlen : maxo ≤ input.length) :
    varint_decode (pre ++ input) pre.length maxo = .err .eilseq ∧
    varint_from_source eos input maxo = .err .eilseq := by
  have he := decode_eq_source input pre pre.length maxo 0 0 (by simp)
  simp only [varint_decode, varint_from_source, he, sourceLoop_all_cont _ input hall, hlen, ↓reduceIte, and_self]

/-- the buffer decoder never reads outside the buffer's memory, whatever it contains and wherever
    the read mark is; a varint cut off by the end of the buffer is an error (which consumes nothing:
    only a successful result carries a consumed count) -/
theorem buf_bounds (pre input : List Octet) (maxo : Nat) :
    varint_decode (pre ++ input) pre.length maxo ≠ .oob ∧
    ((∀ o ∈ input, o.toNat ≥ 128) → input.length < maxo →
      varint_decode (pre ++ input) pre.length maxo = .err .enodata) := by
  have he := decode_eq_source input pre pre.length maxo 0 0 (by simp)
  simp only [varint_decode, he]
  refine ⟨sourceLoop_ne_oob _ _ _ _ _, ?_⟩
  intro hall hlen
  rw [sourceLoop_all_cont _ input hall]
  have : ¬ maxo ≤ input.length := by omega
  simp [this]

/-! #### non-vacuity / concrete instances -/

example : encode 300 = [0xac#8, 0x02#8] := by
  rw [encode_big 300 (by omega), encode_small (300 / 128) (by omega)]
example : varint_decode_u32 [0x80#8] 0 = .err .enodata := by decide
example : varint_decode_u32 [0xff#8, 0xff#8, 0xff#8, 0xff#8, 0xff#8, 0x01#8] 0 = .err .eilseq := by decide
example : ofS32 (-1) = 2 ^ 32 - 1 := by decide

end Ufw.Props.C14
