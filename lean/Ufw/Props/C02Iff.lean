/-
C02 – block writes, second part: the converse directions (the validation passes when every overlapped register is
fine, the storing loop cannot fail on a mapped range) and with them the "succeeds exactly when" clause of the
statement.  Separate from Props/C02 because it needs the structural lemmas of Lemmas/RegBlock, which are built on
Props/C02.
-/
import Ufw.Props.C02
import Ufw.Props.C03
import Ufw.Lemmas.RegBlock
namespace Ufw.Props.C02
open Ufw Ufw.Model.RegTable Ufw.Lemmas.RegTable

/-- the new words, overlaid on what register `e` holds, decode and satisfy its constraint -/
def OverlayOk (cb : Nat → Value → Bool) (t : Table) (addr : Nat) (buf : List Atom) (e : Entry) : Prop :=
  ∃ a raw, t.areas[e.area]? = some a ∧ a.read e.offset e.type.size = some raw ∧
    let rs := max addr e.address - e.address
    let bs := max addr e.address - addr
    let rlen := min (addr + buf.length) (e.address + e.type.size) - max addr e.address
    let raw' := raw.take rs ++ ((buf.drop bs).take rlen ++ raw.drop (rs + rlen))
    (des t.bigEndian e.type raw').2 = true ∧ rv_validate cb t e (des t.bigEndian e.type raw').1 = true

/-- the validation passes when every overlapped register is fine -/
theorem malformed_complete (cb : Nat → Value → Bool) (t : Table) (addr : Nat) (buf : List Atom) :
    ∀ (es : List Entry),
    (∀ e ∈ es, ¬ (e.address + e.type.size ≤ addr) → ¬ (addr + buf.length ≤ e.address) → OverlayOk cb t addr buf e) →
    ra_malformed_write.go cb t addr buf buf.length es = ⟨.success, 0⟩ := by
  intro es
  induction es with
  | nil => intro _; rfl
  | cons x rest ih =>
    intro h
    have hrest := ih (fun e he => h e (List.mem_cons_of_mem _ he))
    simp only [ra_malformed_write.go]
    by_cases c1 : x.address + x.type.size ≤ addr
    · simp only [c1, ↓reduceIte]; exact hrest
    · simp only [c1, ↓reduceIte]
      by_cases c2 : addr + buf.length ≤ x.address
      · simp only [c2, ↓reduceIte]
      · simp only [c2, ↓reduceIte]
        obtain ⟨a, raw, ha, hr, hok, hval⟩ := h x List.mem_cons_self c1 c2
        simp only [ha, hr]
        simp only [hok, hval, Bool.not_true, Bool.false_eq_true, ↓reduceIte]
        exact hrest

private theorem areaOf_isSome_set (t : Table) (i : Nat) (a a' : Area) (ha : t.areas[i]? = some a) (hb : a'.base = a.base)
    (hsz : a'.size = a.size) (x : Nat) :
    (areaOf { t with areas := t.areas.set i a' } x).isSome = (areaOf t x).isSome := by
  have hp : ra_addr_is_part_of a' x = ra_addr_is_part_of a x := by simp only [ra_addr_is_part_of, hb, hsz]
  rw [Bool.eq_iff_iff]
  simp only [areaOf, List.find?_isSome]
  constructor
  · intro ⟨b, hbm, hpb⟩
    rcases List.mem_or_eq_of_mem_set hbm with h | h
    · exact ⟨b, h, hpb⟩
    · subst h; exact ⟨a, List.mem_of_getElem? ha, by rw [← hp]; exact hpb⟩
  · intro ⟨b, hbm, hpb⟩
    obtain ⟨j, hj, hjb⟩ := List.getElem_of_mem hbm
    by_cases hji : j = i
    · subst hji
      have : b = a := by
        have := List.getElem?_eq_getElem hj; rw [hjb, ha] at this; exact (Option.some.inj this.symm)
      subst this
      exact ⟨a', List.mem_of_getElem? (set_getElem t.areas j b a' ha), by rw [hp]; exact hpb⟩
    · refine ⟨b, List.mem_of_getElem? (l := t.areas.set i a') (i := j) ?_, hpb⟩
      rw [set_get_ne _ _ _ _ (fun h => hji h.symm), List.getElem?_eq_getElem hj, hjb]

/-- on a fully mapped range the storing loop cannot fail -/
theorem blockWrite_total : ∀ (fuel : Nat) (t : Table) (addr : Nat) (buf : List Atom), Shape t → Linked t →
    buf.length ≤ fuel → (∀ k, k < buf.length → (areaOf t (addr + k)).isSome = true) →
    ∃ t', blockWriteLoop fuel t addr buf = some t' := by
  intro fuel
  induction fuel with
  | zero =>
    intro t addr buf _ _ hlen _
    have : buf = [] := List.length_eq_zero_iff.mp (by omega)
    subst this
    exact ⟨t, by simp [blockWriteLoop]⟩
  | succ fuel ih =>
    intro t addr buf hs hl hlen hmap
    cases buf with
    | nil => exact ⟨t, by simp [blockWriteLoop]⟩
    | cons b bs =>
      simp only [List.length_cons] at hlen
      simp only [blockWriteLoop, find_area]
      have h0 := hmap 0 (by simp)
      simp only [Nat.add_zero] at h0
      obtain ⟨a, ha⟩ := Option.isSome_iff_exists.mp h0
      obtain ⟨ham, hpart⟩ := areaOf_mem t addr a ha
      simp only [ra_addr_is_part_of, Bool.and_eq_true, decide_eq_true_eq] at hpart
      simp only [ha]
      have hw : min (a.base + a.size - addr) (bs.length + 1) ≠ 0 := by omega
      simp only [hw, ↓reduceIte]
      have hsz := hs.sized a ham
      have hfit : addr - a.base + ((b :: bs).take (min (a.base + a.size - addr) (bs.length + 1))).length ≤ a.mem.length := by
        simp only [List.length_take, List.length_cons]; omega
      simp only [Area.write, hfit, ↓reduceIte]
      have hidx : t.areas[ra_find_area_by_addr t addr]? = some a := by rw [find_area]; exact ha
      obtain ⟨a', ha'⟩ : ∃ a' : Area, a' = { a with mem := a.mem.take (addr - a.base) ++
          ((b :: bs).take (min (a.base + a.size - addr) (bs.length + 1)) ++
            a.mem.drop (addr - a.base + ((b :: bs).take (min (a.base + a.size - addr) (bs.length + 1))).length)) } := ⟨_, rfl⟩
      rw [← ha']
      have hm : a' = { a with mem := a'.mem } := by rw [ha']
      have hlen' : a'.mem.length = a.mem.length := by
        rw [ha']; simp only [List.length_append, List.length_take, List.length_drop, List.length_cons]; omega
      obtain ⟨s1, s2⟩ := structure_set t (ra_find_area_by_addr t addr) a a' hidx hm hlen' hs hl
      apply ih _ _ _ s1 s2
      · simp only [List.length_drop, List.length_cons]; omega
      · intro k hk
        simp only [List.length_drop, List.length_cons] at hk
        rw [areaOf_isSome_set t _ a a' hidx (by rw [hm]) (by rw [hm])]
        have := hmap (min (a.base + a.size - addr) (bs.length + 1) + k) (by simp only [List.length_cons]; omega)
        rw [← Nat.add_assoc] at this
        exact this



/-- **A block write of n words succeeds exactly when** every touched area is writable, every addressed word is
    mapped, and every register the block overlaps - fully or partly - still decodes and satisfies its constraint
    once the new words are overlaid on its current content. -/
theorem block_write_success_iff (cb : Nat → Value → Bool) (t : Table) (addr : Nat) (buf : List Atom)
    (hs : Shape t) (hl : Linked t) (hasc : Ascending t) (hareas : t.areas.Pairwise (fun a b => a.base ≤ b.base))
    (hi : t.initialised = true) (hne : buf ≠ []) :
    (register_block_write cb t addr buf).1.code = .success ↔
      (∀ a ∈ t.areas, ¬ (a.base + a.size ≤ addr) → ¬ (addr + buf.length ≤ a.base) → (a.hasWrite && a.writeable) = true) ∧
      (∀ k, k < buf.length → (areaOf t (addr + k)).isSome = true) ∧
      (∀ e ∈ t.entries, ¬ (e.address + e.type.size ≤ addr) → ¬ (addr + buf.length ≤ e.address) → OverlayOk cb t addr buf e) := by
  rw [decision cb t hs.wf hi addr buf hne]
  constructor
  · intro hok
    rcases hw : ra_writeable t addr buf.length with ⟨c, a⟩
    rw [hw] at hok
    cases c <;> try (simp at hok)
    cases hh : firstHole t addr buf.length with
    | some x => rw [hh] at hok; simp at hok
    | none =>
      rw [hh] at hok
      simp only at hok
      rcases hm : ra_malformed_write cb t addr buf with ⟨c2, a2⟩
      rw [hm] at hok
      cases c2 <;> try (simp at hok)
      refine ⟨?_, (Ufw.Props.C03.firstHole_none_iff t buf.length addr).mp hh, ?_⟩
      · have hgo : ra_writeable.go addr buf.length t.areas = ⟨.success, a⟩ := hw
        rcases writeable_spec addr buf.length t.areas with h | ⟨b, _, _, _, _, h⟩
        · exact writeable_ok addr buf.length t.areas hareas h
        · rw [h] at hgo; simp at hgo
      · have hgo : ra_malformed_write.go cb t addr buf buf.length t.entries = ⟨.success, a2⟩ := hm
        have h0 := Ufw.Lemmas.RegTable.malformed_succ cb t addr buf t.entries (by rw [hgo])
        intro e he h1 h2
        exact malformed_ok cb t addr buf t.entries hasc h0 e he h1 h2
  · intro ⟨hwr, hmap, hov⟩
    have hw : ra_writeable t addr buf.length = ⟨.success, 0⟩ := by
      rcases writeable_spec addr buf.length t.areas with h | ⟨b, hb, o1, o2, hflag, _⟩
      · exact h
      · have := hwr b hb o1 o2; rw [hflag] at this; simp at this
    have hh : firstHole t addr buf.length = none := (Ufw.Props.C03.firstHole_none_iff t buf.length addr).mpr hmap
    have hm : ra_malformed_write cb t addr buf = ⟨.success, 0⟩ := malformed_complete cb t addr buf t.entries hov
    obtain ⟨t', ht'⟩ := blockWrite_total buf.length t addr buf hs hl (Nat.le_refl _) hmap
    simp only [hw, hh, hm, ht']


end Ufw.Props.C02
