/-
C15 – endian codecs place and fetch every value byte-exactly.

Two layers.  (1) Per C function, regenerated from include/ufw/binary-format.h on
every run (Ufw/Gen/BinFmt{LE,BE}Proofs.lean, 2 × 310 obligations): the body of
`bf_ref_* / bf_set_* / bf_swap* / bf_inrange_*` equals the bit-vector form its name
promises (`…_eq_spec`), equals the arithmetic spec below (`…_arith`), stores write
exactly width/8 octets and return the address just past them (`…_len_ret`), a load
after a store gives the value back (`roundtrip_*`), swaps are involutions
(`…_involutive`).  (2) This file: the arithmetic spec itself has the properties the
statement lists, for every number of octets – so that "equals the spec" means what
the property says.
-/
import Ufw.Spec.Endian
import Ufw.Lemmas.EndianSpec
import Ufw.Gen.BinFmtLEProofs
import Ufw.Gen.BinFmtBEProofs

namespace Ufw.Props.C15
open Ufw Ufw.Spec.Endian

/-- a store writes exactly n = width/8 octets -/
theorem store_length (big : Bool) (n v : Nat) : (store big n v).length = n :=
  Ufw.Lemmas.EndianSpec.store_length big n v

/-- loading the stored octets returns the value (its low n octets), in either order -/
theorem load_store (big : Bool) (n v : Nat) : loadU big (store big n v) = v % 256 ^ n :=
  Ufw.Lemmas.EndianSpec.load_store big n v

/-- big-endian is most significant octet first: memory order reversed w.r.t. little-endian -/
theorem store_big_eq_reverse (n v : Nat) : store true n v = (store false n v).reverse :=
  Ufw.Lemmas.EndianSpec.store_big_eq_reverse n v

/-- the first octet of a little-endian store is the least significant one, of a big-endian
    store the most significant one -/
theorem store_first_octet (n v : Nat) :
    (store false (n + 1) v).head? = some (BitVec.ofNat 8 (v % 256)) ∧
    (store true (n + 1) v).getLast? = some (BitVec.ofNat 8 (v % 256)) :=
  Ufw.Lemmas.EndianSpec.store_first_octet n v

/-- the swap helper reverses exactly the low n octets … -/
theorem swap_reverses (n v : Nat) : store false n (swap n v) = (store false n v).reverse :=
  Ufw.Lemmas.EndianSpec.swap_reverses n v

/-- … and is an involution on n-octet values -/
theorem swap_involutive (n v : Nat) : swap n (swap n v) = v % 256 ^ n :=
  Ufw.Lemmas.EndianSpec.swap_involutive n v

/-- signed loads sign-extend: the value of n octets read as two's complement lies in the n-octet
    signed range and is congruent to the unsigned value -/
theorem loadS_range (big : Bool) (l : List Octet) (hl : 0 < l.length) :
    inRangeS (8 * l.length) (loadS big l) = true ∧
    ((loadS big l - loadU big l) % (2 : Int) ^ (8 * l.length) = 0) :=
  Ufw.Lemmas.EndianSpec.loadS_range big l hl

/-- the range predicates accept exactly the representable values -/
theorem inrange_iff_representable (bits : Nat) (v : Nat) (x : Int) :
    (inRangeU bits v = true ↔ v < 2 ^ bits) ∧
    (inRangeS bits x = true ↔ (-(2 : Int) ^ (bits - 1) ≤ x ∧ x < 2 ^ (bits - 1))) :=
  Ufw.Lemmas.EndianSpec.inrange_iff_representable bits v x

/-! #### instances over the generated definitions (both host byte orders) -/

example (s0 s1 s2 : BitVec 8) :
    (Ufw.Gen.BinFmtLE.bf_ref_s24b s0 s1 s2).toInt = loadS true [s0, s1, s2] :=
  Ufw.Gen.BinFmtLE.bf_ref_s24b_arith s0 s1 s2
example (v : BitVec 64) : Ufw.Gen.BinFmtBE.bf_set_u40l v = store false 5 v.toNat :=
  Ufw.Gen.BinFmtBE.bf_set_u40l_arith v
example : store true 3 0x123456 = [0x12#8, 0x34#8, 0x56#8] := by decide
example : loadS false [0xff#8, 0xff#8, 0x7f#8] = 0x7fffff := by decide
example : loadS true [0x80#8, 0x00#8, 0x00#8] = -8388608 := by decide

end Ufw.Props.C15
