/-
C19 – the ring buffer is a bounded FIFO (optionally overwriting) with faithful
iterators.  Property theorems only; helper lemmas are in Ufw/Lemmas/Ring.lean,
the invariant `Wf` and the abstraction `abs` in Ufw/Spec/Queue.lean.
-/
import Ufw.Model.Ring
import Ufw.Spec.Queue
import Ufw.Lemmas.Ring

namespace Ufw.Props.C19
open Ufw.Model.Ring
open Ufw.Spec.Queue (Q Wf absItems abs)
open Ufw.Lemmas.Ring

theorem length_abs (c : Ring) (h : Wf c) : (absItems c).length = size c := by
  obtain ⟨h0, hd, hh, ht⟩ := h
  simp only [absItems, size, empty, beq_iff_eq]
  split
  · simp
  · split
    · simp; omega
    · simp; omega


theorem step_refines (c : Ring) (op : Op) (h : Wf c) :
    Wf (step c op).1 ∧ (step c op).2 ≠ .oob ∧
    (step c op).2 = (Ufw.Spec.Queue.step (abs c) op).2 ∧
    abs (step c op).1 = (Ufw.Spec.Queue.step (abs c) op).1 := by
  have hlen := length_abs c h
  obtain ⟨h0, hd, hh, ht⟩ := h
  have hI : Wf c := ⟨h0, hd, hh, ht⟩
  cases op with
  | put x =>
    simp only [step, put, Ufw.Spec.Queue.step, abs, hlen]
    by_cases hf : c.head = c.tail
    · -- full
      have hne : c.tail ≠ c.cap := by omega
      have hsz : size c = c.cap := by
        simp only [size, empty, beq_iff_eq, hne, ↓reduceIte]; split <;> omega
      by_cases ho : c.ovr = true
      · obtain ⟨a1, a2, a3⟩ := advance_tail_abs c hI hne
        obtain ⟨f1, f2, f3, f4, f5⟩ := advance_tail_frame c hI hne
        obtain ⟨c', e1, e2, e3, e4, e5⟩ := push_spec (advance_tail c) x a1 (by rw [f1, f3]; exact f5)
        simp only [full, hf, beq_self_eq_true, ho, ↓reduceIte, hsz, Nat.lt_irrefl, e1]
        refine ⟨e2, by simp, trivial, ?_⟩
        simp [e3, a2, e4, e5, f3, f4, ho]
      · simp only [full, hf, beq_self_eq_true, ho, Bool.false_eq_true, ↓reduceIte, hsz, Nat.lt_irrefl]
        exact ⟨hI, by simp, trivial, trivial⟩
    · have hnf2 : ¬ (full c = true) := by simp [full, hf]
      have hsz : size c < c.cap := by
        simp only [size, empty, beq_iff_eq]; split
        · omega
        · split <;> omega
      obtain ⟨c', e1, e2, e3, e4, e5⟩ := push_spec c x hI (Or.inr hf)
      simp only [hnf2, ↓reduceIte, hsz, e1, Bool.false_eq_true]
      refine ⟨e2, by simp, trivial, ?_⟩
      simp [e3, e4, e5]
  | get =>
    simp only [step, Ufw.Model.Ring.get, Ufw.Spec.Queue.step, abs]
    by_cases he : c.tail = c.cap
    · have : absItems c = [] := by simp [absItems, he]
      simp [empty, he, this]
      exact hI
    · obtain ⟨a1, a2, a3⟩ := advance_tail_abs c hI he
      have htl : c.tail < c.data.length := by omega
      have hg : c.data[c.tail]? = some c.data[c.tail] := List.getElem?_eq_getElem htl
      simp only [empty, beq_iff_eq, he, ↓reduceIte, hg]
      rw [hg] at a3
      cases hit : absItems c with
      | nil => rw [hit] at a3; simp at a3
      | cons y rest =>
        rw [hit] at a3 a2
        simp only [List.head?_cons, Option.some.injEq] at a3
        simp only [List.tail_cons] at a2
        obtain ⟨f1, f2, f3, f4, f5⟩ := advance_tail_frame c hI he
        refine ⟨a1, by simp, by simp [a3], ?_⟩
        simp [a2, f3, f4]
  | clear =>
    refine ⟨⟨h0, hd, hh, by simp [step, clear]⟩, by simp [step], rfl, ?_⟩
    simp [step, clear, Ufw.Spec.Queue.step, abs, absItems]
  | override s =>
    exact ⟨⟨h0, hd, hh, ht⟩, by simp [step], rfl, rfl⟩

theorem iter_old_to_new (c : Ring) (h : Wf c) : iterate c .oldToNew = some (absItems c) := by
  have hs := size_le c h
  obtain ⟨h0, hd, hh, ht⟩ := h
  simp only [iterate, iter]
  by_cases he : c.tail = c.cap
  · simp [size, empty, he, absItems, collectFrom]
  · have htl : c.tail < c.cap := by omega
    rw [collect_old c _ _ _ hd htl hs]
    simp only [rot, absItems, he, ↓reduceIte, size, empty, beq_iff_eq, Option.some.injEq]
    by_cases hl : c.tail < c.head
    · simp only [hl, ↓reduceIte]
      rw [List.take_append_of_le_length (by simp; omega), List.drop_take]
    · simp only [hl, ↓reduceIte]
      rw [List.take_append]
      simp only [List.length_drop, List.take_take]
      rw [List.take_of_length_le (by simp; omega)]
      congr 2; omega

theorem iter_new_to_old (c : Ring) (h : Wf c) : iterate c .newToOld = some (absItems c).reverse := by
  have hs := size_le c h
  obtain ⟨h0, hd, hh, ht⟩ := h
  simp only [iterate, iter]
  by_cases he : c.tail = c.cap
  · simp [size, empty, he, absItems, collectFrom]
  · have htl : c.tail < c.cap := by omega
    have hj : (if c.head = 0 then c.cap - 1 else c.head - 1) < c.cap := by split <;> omega
    rw [collect_new c _ _ _ hd hj hs]
    simp only [rrot, absItems, he, ↓reduceIte, size, empty, beq_iff_eq, Option.some.injEq]
    by_cases hz : c.head = 0
    · have h1 : c.cap - 1 + 1 = c.data.length := by omega
      have hnl : ¬ c.tail < 0 := by omega
      simp only [hz, ↓reduceIte, h1, hnl, List.take_length, List.drop_length, List.reverse_nil,
        List.append_nil, List.take_zero, Nat.add_zero]
      rw [List.reverse_drop, hd]
    · have h1 : c.head - 1 + 1 = c.head := by omega
      simp only [hz, ↓reduceIte, h1]
      by_cases hl : c.tail < c.head
      · simp only [hl, ↓reduceIte]
        rw [List.take_append_of_le_length (by simp; omega), List.reverse_drop]
        congr 1; simp; omega
      · simp only [hl, ↓reduceIte, List.reverse_append]
        rw [List.take_append]
        rw [List.take_of_length_le (by simp; omega)]
        congr 1
        have : List.drop c.tail c.data = List.drop (c.tail - c.head) (List.drop c.head c.data) := by
          rw [List.drop_drop]; congr 1; omega
        have e1 : (List.take c.head c.data).reverse.length = c.head := by simp; omega
        have e2 : (List.drop c.head c.data).length = c.cap - c.head := by simp; omega
        rw [this, e1]
        generalize List.drop c.head c.data = B at e2 ⊢
        rw [List.reverse_drop, e2]
        congr 1; omega

/-- every history: the invariant holds, no slot outside the array is touched, and
    all values returned by `get` are those of the bounded queue -/
theorem run_refines (ops : List Op) (c : Ring) (h : Wf c) :
    Wf (run c ops).1 ∧
    (∀ o ∈ (run c ops).2, o ≠ .oob) ∧
    (run c ops).2 = (Ufw.Spec.Queue.run (abs c) ops).2 ∧
    abs (run c ops).1 = (Ufw.Spec.Queue.run (abs c) ops).1 := by
  induction ops generalizing c with
  | nil => simp [run, Ufw.Spec.Queue.run, h]
  | cons op ops ih =>
    obtain ⟨h1, h2, h3, h4⟩ := step_refines c op h
    obtain ⟨i1, i2, i3, i4⟩ := ih (step c op).1 h1
    simp only [run, Ufw.Spec.Queue.run]
    refine ⟨i1, ?_, ?_, ?_⟩
    · intro o ho
      simp only [List.mem_cons] at ho
      rcases ho with rfl | ho
      · exact h2
      · exact i2 o ho
    · rw [i3, h3, h4]
    · rw [i4, h4]

/-- a freshly initialised ring of any capacity ≥ 1 is a well-formed empty queue -/
theorem init_spec (n : Nat) (hn : 0 < n) : Wf (init n) ∧ abs (init n) = ⟨n, [], false⟩ := by
  simp [init, Wf, abs, absItems, hn]

/-- `size`, `empty`, `full` report the queue's state -/
theorem size_empty_full (c : Ring) (h : Wf c) :
    size c = (abs c).items.length ∧
    (empty c = true ↔ (abs c).items = []) ∧
    (full c = true ↔ (abs c).items.length = (abs c).cap) := by
  have hl := length_abs c h
  obtain ⟨h0, hd, hh, ht⟩ := h
  refine ⟨hl.symm, ?_, ?_⟩
  · simp only [abs, ← List.length_eq_zero_iff, hl, size, empty, beq_iff_eq]
    constructor
    · intro e; simp [e]
    · intro e
      by_cases he : c.tail = c.cap
      · exact he
      · simp only [he, ↓reduceIte] at e
        split at e <;> omega
  · simp only [abs, hl, size, empty, full, beq_iff_eq]
    constructor
    · intro e
      have : c.tail ≠ c.cap := by omega
      simp only [this, ↓reduceIte]; split <;> omega
    · intro e
      by_cases he : c.tail = c.cap
      · simp only [he, ↓reduceIte] at e; omega
      · simp only [he, ↓reduceIte] at e
        split at e <;> omega

/-- at every point of every history both iterators are faithful and take exactly `size` steps -/
theorem iterators_faithful (ops : List Op) (n : Nat) (hn : 0 < n) :
    let c := (run (init n) ops).1
    let q := (Ufw.Spec.Queue.run ⟨n, [], false⟩ ops).1
    iterate c .oldToNew = some q.items ∧
    iterate c .newToOld = some q.items.reverse ∧
    (iter c .oldToNew).steps = q.items.length ∧ (iter c .newToOld).steps = q.items.length := by
  obtain ⟨hw, ha⟩ := init_spec n hn
  obtain ⟨r1, _, _, r4⟩ := run_refines ops (init n) hw
  rw [ha] at r4
  intro c q
  have hq : q.items = absItems c := by
    show (Ufw.Spec.Queue.run ⟨n, [], false⟩ ops).1.items = _
    rw [← r4]; rfl
  refine ⟨by rw [hq]; exact iter_old_to_new c r1, by rw [hq]; exact iter_new_to_old c r1, ?_, ?_⟩
  · simp only [iter, hq]; exact (length_abs c r1).symm
  · simp only [iter, hq]; exact (length_abs c r1).symm

/-! #### non-vacuity -/

example : Wf { data := [5, 6, 7], head := 1, tail := 2, cap := 3, ovr := true } := by
  simp [Wf]

example : absItems { data := [5, 6, 7], head := 1, tail := 2, cap := 3, ovr := true } = [7, 5] := by
  decide

example :
    (run (init 2) [.put 1, .put 2, .put 3, .override true, .put 4, .get, .get, .get]).2
      = [.unit, .unit, .unit, .unit, .unit, .val 2, .val 4, .val 0] := by decide

end Ufw.Props.C19
