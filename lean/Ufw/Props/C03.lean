/-
C03 – block reads and range iteration follow the flat address-space model.
Property theorems only; helper lemmas live in Ufw/Lemmas/RegFlat.lean.

`areaOf t x` is the area address x is mapped to, `cell t x` the atom stored there (zero when the
area cannot be read), `WfAreas t` says that every area has storage for its size and that areas do
not overlap (what `register_init` establishes).
-/
import Ufw.Lemmas.RegFlat

namespace Ufw.Props.C03
open Ufw Ufw.Model.RegTable Ufw.Lemmas.RegTable

/-- `firstHole` finds the first unmapped address of the request, if there is one -/
theorem firstHole_none_iff (t : Table) : ∀ (n addr : Nat),
    firstHole t addr n = none ↔ ∀ k, k < n → (areaOf t (addr + k)).isSome = true := by
  intro n
  induction n with
  | zero => intro addr; simp [firstHole]
  | succ n ih =>
    intro addr
    simp only [firstHole]
    cases h : areaOf t addr with
    | none =>
      simp only [Option.isNone_none, ↓reduceIte, reduceCtorEq, false_iff]
      intro hall
      have := hall 0 (by omega)
      simp [h] at this
    | some a =>
      simp only [Option.isNone_some, Bool.false_eq_true, ↓reduceIte, ih (addr + 1)]
      constructor
      · intro hall k hk
        cases k with
        | zero => simp [h]
        | succ k => have := hall k (by omega); rw [show addr + (k + 1) = addr + 1 + k by omega]; exact this
      · intro hall k hk
        have := hall (k + 1) (by omega)
        rw [show addr + (k + 1) = addr + 1 + k by omega] at this; exact this

theorem firstHole_some (t : Table) : ∀ (n addr x : Nat), firstHole t addr n = some x →
    ∃ k, k < n ∧ x = addr + k ∧ areaOf t x = none ∧ ∀ j, j < k → (areaOf t (addr + j)).isSome = true := by
  intro n
  induction n with
  | zero => intro addr x h; simp [firstHole] at h
  | succ n ih =>
    intro addr x h
    simp only [firstHole] at h
    cases hao : areaOf t addr with
    | none =>
      simp only [hao, Option.isNone_none, ↓reduceIte, Option.some.injEq] at h
      exact ⟨0, by omega, by omega, by rw [← h]; exact hao, by intro j hj; omega⟩
    | some a =>
      simp only [hao, Option.isNone_some, Bool.false_eq_true, ↓reduceIte] at h
      obtain ⟨k, hk, hx, hun, hbefore⟩ := ih (addr + 1) x h
      refine ⟨k + 1, by omega, by omega, hun, ?_⟩
      intro j hj
      cases j with
      | zero => simp [hao]
      | succ j => have := hbefore j (by omega); rw [show addr + (j + 1) = addr + 1 + j by omega]; exact this

/-- BLOCK READ on an initialised table: succeeds exactly when all n addresses are mapped and then
    returns, for each address in order, the word stored there (zero for areas that are not
    readable) - exactly n words; otherwise it reports the first unmapped address and delivers
    nothing.  A zero-length read always succeeds. -/
theorem block_read_spec (t : Table) (wf : WfAreas t) (hi : t.initialised = true) (addr n : Nat) :
    register_block_read t addr n =
      (match firstHole t addr n with
       | none => (⟨.success, 0⟩, cellsFrom t addr n)
       | some x => (⟨.noentry, x⟩, [])) := by
  simp only [register_block_read, hi, Bool.not_true, Bool.false_eq_true, ↓reduceIte]
  by_cases hn : n = 0
  · subst hn; simp [firstHole, cellsFrom]
  · simp only [hn, ↓reduceIte, register_block_touches_hole, touchesHole_eq t wf n addr n (Nat.le_refl n)]
    cases hh : firstHole t addr n with
    | none => simp only [blockReadLoop_eq t wf n addr n (Nat.le_refl n) hh]
    | some x => rfl

/-- the k-th word delivered is the content of address addr + k -/
theorem cellsFrom_get (t : Table) : ∀ (n addr k : Nat), k < n →
    (cellsFrom t addr n)[k]? = some ((cell t (addr + k)).getD 0) := by
  intro n
  induction n with
  | zero => intro addr k h; omega
  | succ n ih =>
    intro addr k h
    cases k with
    | zero => simp [cellsFrom]
    | succ k =>
      simp only [cellsFrom, List.getElem?_cons_succ]
      rw [ih (addr + 1) k (by omega)]
      congr 3; omega

/-- nothing but the caller's n words is produced -/
theorem block_read_length (t : Table) (addr n : Nat) : (cellsFrom t addr n).length = n :=
  cellsFrom_length t n addr

theorem block_read_uninitialised (t : Table) (h : t.initialised = false) (addr n : Nat) :
    register_block_read t addr n = (⟨.uninitialised, addr⟩, []) := by
  simp [register_block_read, h]

/-! ### range iteration -/

/-- the entries visited from handle `h` on while they begin inside the range, with a callback
    that keeps answering 0 -/
private theorem go_zero (endA : Nat) : ∀ (es : List Entry) (h : Nat) (acc : List Nat),
    register_foreach_in.go endA es h [] acc =
      (⟨.success, 0⟩, acc ++ List.range' h (es.takeWhile fun e => decide (e.address ≤ endA)).length) := by
  intro es
  induction es with
  | nil => intro h acc; simp [register_foreach_in.go]
  | cons e rest ih =>
    intro h acc
    simp only [register_foreach_in.go, List.headD_nil, ↓reduceIte, List.tail_nil]
    by_cases hle : e.address ≤ endA
    · simp only [hle, ↓reduceIte, ih, List.takeWhile_cons, decide_true, List.length_cons]
      simp [List.range'_succ, List.append_assoc]
    · simp [hle, List.takeWhile_cons]

/-- RANGE ITERATION with a callback that always returns 0: the callback is called for consecutive
    handles in ascending order, starting at the first register that overlaps the range and going
    on while registers begin inside it; on a table whose registers are ascending these are exactly
    the registers overlapping the range -/
theorem foreach_visits (t : Table) (hi : t.initialised = true) (addr off : Nat) (hoff : off ≠ 0)
    (start : Nat)
    (hs : t.entries.findIdx? (fun e => !(decide (e.address + e.type.size ≤ addr)) && !(decide (addr + off ≤ e.address))) = some start) :
    register_foreach_in t addr off [] =
      (⟨.success, 0⟩, List.range' start
        ((t.entries.drop start).takeWhile fun e => decide (e.address ≤ addr + off - 1)).length) := by
  have hne : ¬ t.entries.length = 0 := by
    intro h0
    have : t.entries = [] := List.length_eq_zero_iff.mp h0
    rw [this] at hs; simp at hs
  simp only [register_foreach_in, hi, Bool.not_true, Bool.false_eq_true, ↓reduceIte, hoff, hne, or_self, hs, go_zero]
  simp

/-- the callback's first non-zero answer ends the iteration: negative = failure at that register's
    address, positive = success; nothing further is visited -/
theorem foreach_stops (endA : Nat) (e : Entry) (rest : List Entry) (h : Nat) (r : Int) (script : List Int)
    (acc : List Nat) (hle : e.address ≤ endA) (hr : r ≠ 0) :
    register_foreach_in.go endA (e :: rest) h (r :: script) acc =
      (if r < 0 then (⟨.failure, e.address⟩, acc ++ [h]) else (⟨.success, 0⟩, acc ++ [h])) := by
  simp [register_foreach_in.go, hle, hr]

theorem foreach_uninitialised (t : Table) (h : t.initialised = false) (addr off : Nat) (s : List Int) :
    register_foreach_in t addr off s = (⟨.uninitialised, 0⟩, []) := by
  simp [register_foreach_in, h]

end Ufw.Props.C03
