import Ufw.Model.Regp
import Ufw.Spec.Regp
namespace Ufw.Props.C06
open Ufw Ufw.Model.Regp
/-- placeholder while the correspondence is brought up: the session counter wraps at 2^16 -/
theorem seq_step (c : Cfg) (snk : Ufw.Model.Slip.Snk) (seq : Nat) (s16 : Bool) (a n : Nat) :
    (regp_req_read c snk seq s16 a n).2 = (seq + 1) % 65536 := rfl
end Ufw.Props.C06
