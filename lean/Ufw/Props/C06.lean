/-
C06 – a valid request is executed exactly once and answered faithfully.  Property theorems only.

`answer` is the frame doc/regp.txt prescribes for a request and a backend verdict; the theorems
say that `regp_process` makes exactly one backend call with the request's address, block size
and received payload, and puts exactly `Spec.Regp.wire` of `answer` on the wire.
-/
import Ufw.Props.C08

namespace Ufw.Props.C06
open Ufw Ufw.Model.Regp Ufw.Lemmas.Regp
open Ufw.Model.Slip (Snk SrcEv)
open Ufw.Spec.Regp (Frame MType wire request errorResponse ackResponse carriesValue)
open Ufw.Props.C08 (reqOf Fits Emits)

/-- a frame that `regp_recv` returned without error: raw octets, parsed fields, payload offset -/
def received (raw : List Octet) (h : Hdr) (off : Nat) : MaybeFrame :=
  { err := none, framesize := 0, frame := some { raw := raw, hdr := some (h, off) } }

/-- the response the document prescribes for request `h`, verdict `status`, reported `address`,
    delivered atoms `data`: acknowledgement with exactly the delivered atoms, or the error response
    in octet semantics carrying the buffer size (ERXOVERFLOW, ETXOVERFLOW) resp. the reported
    address (EUNMAPPED, EACCESS, ERANGE, EINVALID) as four octets big-endian -/
def answer (c : Cfg) (h : Hdr) (status address : Nat) (data : List Octet) : Frame :=
  if status = 0 then ackResponse (reqOf h) c.mem16 data
  else errorResponse (reqOf h) status (if status = 4 ∨ status = 5 then (c.B - c.F) % 2 ^ 32 else address)

def unitOf (c : Cfg) : Nat := if c.mem16 then 2 else 1

/-- the backend call a write request causes -/
def writeCall (c : Cfg) (raw : List Octet) (h : Hdr) (off : Nat) : Call :=
  { write := true, sem16 := c.mem16, addr := h.addr, bsize := h.bsize, room := c.B - (c.F + 2 * off),
    payload := raw.drop (2 * off) }

def readCall (c : Cfg) (h : Hdr) (off : Nat) : Call :=
  { write := false, sem16 := c.mem16, addr := h.addr, bsize := h.bsize, room := c.B - (c.F + 2 * off), payload := [] }

/-- WRITE: exactly one backend call - address, block size and exactly the received payload - and
    exactly the prescribed response (acknowledgement without payload, or the error response) -/
theorem process_write (c : Cfg) (snk : Snk) (raw : List Octet) (h : Hdr) (off : Nat) (be : Backend)
    (ht : h.type = 2) (hws : c.mem16 = decide (h.opts &&& 1 ≠ 0)) (hst : be.status ≤ 11)
    (hroom : Fits snk (wire c.serial (answer c h be.status be.address []))) :
    (regp_process c snk (received raw h off) be).2 = [writeCall c raw h off] ∧
    Emits (regp_process c snk (received raw h off) be).1 snk (wire c.serial (answer c h be.status be.address [])) := by
  have hreq : is_request h = true := by simp [is_request, ht]
  have hw : (c.mem16 != decide (h.opts &&& 1 ≠ 0)) = false := by simp [hws]
  have ht0 : ¬ h.type = 0 := by omega
  simp only [regp_process, received, hreq, Bool.not_true, Bool.false_eq_true, ↓reduceIte, hw, ht0, writeCall, true_and]
  simp only [answer] at hroom ⊢
  by_cases h0 : be.status = 0
  · simp only [h0, ↓reduceIte, Option.isSome_none, Bool.false_eq_true] at hroom ⊢
    exact Ufw.Props.C08.ack_empty_wire c snk h (Or.inr ht) hroom
  · simp only [h0, ↓reduceIte] at hroom ⊢
    by_cases hv : carriesValue be.status = true
    · have h45 : be.status = 4 ∨ be.status = 5 ∨ (7 ≤ be.status ∧ be.status ≤ 10) := by
        simpa [carriesValue] using hv
      have hno : ¬ (be.status = 1 ∨ be.status = 2 ∨ be.status = 3 ∨ be.status = 6 ∨ be.status = 11) := by omega
      simp only [hno, ↓reduceIte]
      by_cases hb : be.status = 4 ∨ be.status = 5
      · simp only [hb, ↓reduceIte] at hroom ⊢
        exact Ufw.Props.C08.resp32_wire c snk h _ _ (Or.inr ht) (by omega) hv hroom
      · have h7 : 7 ≤ be.status ∧ be.status ≤ 10 := by omega
        simp only [hb, h7, and_self, ↓reduceIte] at hroom ⊢
        exact Ufw.Props.C08.resp32_wire c snk h _ _ (Or.inr ht) (by omega) hv hroom
    · have hv' : carriesValue be.status = false := by simpa using hv
      have h1 : be.status = 1 ∨ be.status = 2 ∨ be.status = 3 ∨ be.status = 6 ∨ be.status = 11 := by
        simp [carriesValue] at hv'; omega
      simp only [h1, ↓reduceIte]
      exact Ufw.Props.C08.resp0_wire c snk h _ _ (Or.inr ht) (by omega) hv' hroom

/-- the response for a verdict other than ACK, shared by reads and writes -/
private theorem error_reply (c : Cfg) (snk : Snk) (h : Hdr) (status address : Nat) (ht : h.type = 0 ∨ h.type = 2)
    (h0 : status ≠ 0) (hst : status ≤ 11)
    (hroom : Fits snk (wire c.serial (errorResponse (reqOf h) status
      (if status = 4 ∨ status = 5 then (c.B - c.F) % 2 ^ 32 else address)))) :
    Emits (if status = 1 ∨ status = 2 ∨ status = 3 ∨ status = 6 ∨ status = 11 then send_resp_0 c snk h status .s8
           else if status = 4 ∨ status = 5 then send_resp_32 c snk h status ((c.B - c.F) % 2 ^ 32) .s8
           else if 7 ≤ status ∧ status ≤ 10 then send_resp_32 c snk h status address .s8
           else ⟨some .einval, snk⟩) snk
      (wire c.serial (errorResponse (reqOf h) status (if status = 4 ∨ status = 5 then (c.B - c.F) % 2 ^ 32 else address))) := by
  by_cases hv : carriesValue status = true
  · have h45 : status = 4 ∨ status = 5 ∨ (7 ≤ status ∧ status ≤ 10) := by simpa [carriesValue] using hv
    have hno : ¬ (status = 1 ∨ status = 2 ∨ status = 3 ∨ status = 6 ∨ status = 11) := by omega
    simp only [hno, ↓reduceIte]
    by_cases hb : status = 4 ∨ status = 5
    · simp only [hb, ↓reduceIte] at hroom ⊢
      exact Ufw.Props.C08.resp32_wire c snk h _ _ ht (by omega) hv hroom
    · have h7 : 7 ≤ status ∧ status ≤ 10 := by omega
      simp only [hb, h7, and_self, ↓reduceIte] at hroom ⊢
      exact Ufw.Props.C08.resp32_wire c snk h _ _ ht (by omega) hv hroom
  · have hv' : carriesValue status = false := by simpa using hv
    have h1 : status = 1 ∨ status = 2 ∨ status = 3 ∨ status = 6 ∨ status = 11 := by
      simp [carriesValue] at hv'; omega
    simp only [h1, ↓reduceIte]
    exact Ufw.Props.C08.resp0_wire c snk h _ _ ht (by omega) hv' hroom

/-- READ that fits: exactly one backend call with the request's address and block size, handed a
    buffer that lies inside the block with room for the block; the answer is the acknowledgement
    carrying exactly the delivered atoms, or the prescribed error response -/
theorem process_read (c : Cfg) (snk : Snk) (raw : List Octet) (h : Hdr) (off : Nat) (be : Backend)
    (ht : h.type = 0) (hws : c.mem16 = decide (h.opts &&& 1 ≠ 0)) (hst : be.status ≤ 11)
    (hfit : h.bsize * unitOf c ≤ c.B - (c.F + 2 * off))
    (hdata : (be.data (h.bsize * unitOf c)).length = h.bsize * unitOf c)
    (hroom : Fits snk (wire c.serial (answer c h be.status be.address (be.data (h.bsize * unitOf c))))) :
    (regp_process c snk (received raw h off) be).2 = [readCall c h off] ∧
    (readCall c h off).bsize * unitOf c ≤ (readCall c h off).room ∧
    Emits (regp_process c snk (received raw h off) be).1 snk
      (wire c.serial (answer c h be.status be.address (be.data (h.bsize * unitOf c)))) := by
  have hreq : is_request h = true := by simp [is_request, ht]
  have hw : (c.mem16 != decide (h.opts &&& 1 ≠ 0)) = false := by simp [hws]
  have hnf : ¬ (c.B - (c.F + 2 * off)) / unitOf c < h.bsize := by
    simp only [unitOf] at hfit ⊢
    cases hm : c.mem16 <;> simp [hm] at hfit ⊢ <;> omega
  simp only [unitOf] at hnf hfit hdata hroom
  simp only [regp_process, received, hreq, Bool.not_true, Bool.false_eq_true, ↓reduceIte, hw, ht, hnf, readCall, unitOf,
    true_and]
  refine ⟨hfit, ?_⟩
  simp only [answer] at hroom ⊢
  by_cases h0 : be.status = 0
  · simp only [h0, ↓reduceIte, Option.isSome_some] at hroom ⊢
    exact Ufw.Props.C08.ack_wire c snk h _ _ (Or.inl ht) hdata hroom
  · simp only [h0, ↓reduceIte] at hroom ⊢
    exact error_reply c snk h be.status be.address (Or.inl ht) h0 hst hroom

/-- READ whose answer cannot fit behind the request header in the block: no backend call, the
    transmit-overflow response carrying the buffer size -/
theorem process_read_overflow (c : Cfg) (snk : Snk) (raw : List Octet) (h : Hdr) (off : Nat) (be : Backend)
    (ht : h.type = 0) (hws : c.mem16 = decide (h.opts &&& 1 ≠ 0))
    (hbig : c.B - (c.F + 2 * off) < h.bsize * unitOf c)
    (hroom : Fits snk (wire c.serial (errorResponse (reqOf h) 5 ((c.B - c.F) % 2 ^ 32)))) :
    (regp_process c snk (received raw h off) be).2 = [] ∧
    Emits (regp_process c snk (received raw h off) be).1 snk
      (wire c.serial (errorResponse (reqOf h) 5 ((c.B - c.F) % 2 ^ 32))) := by
  have hreq : is_request h = true := by simp [is_request, ht]
  have hw : (c.mem16 != decide (h.opts &&& 1 ≠ 0)) = false := by simp [hws]
  have hnf : (c.B - (c.F + 2 * off)) / unitOf c < h.bsize := by
    simp only [unitOf] at hbig ⊢
    cases hm : c.mem16 <;> simp [hm] at hbig ⊢ <;> omega
  simp only [unitOf] at hnf
  simp only [regp_process, received, hreq, Bool.not_true, Bool.false_eq_true, ↓reduceIte, hw, ht, hnf, true_and]
  exact Ufw.Props.C08.resp32_wire c snk h 5 _ (Or.inl ht) (by omega) (by simp [carriesValue]) hroom

/-- a request whose word size does not match the attached memory: EWORDSIZE, memory untouched -/
theorem process_wordsize (c : Cfg) (snk : Snk) (raw : List Octet) (h : Hdr) (off : Nat) (be : Backend)
    (ht : h.type = 0 ∨ h.type = 2) (hws : c.mem16 ≠ decide (h.opts &&& 1 ≠ 0))
    (hroom : Fits snk (wire c.serial (errorResponse (reqOf h) 1 0))) :
    (regp_process c snk (received raw h off) be).2 = [] ∧
    Emits (regp_process c snk (received raw h off) be).1 snk (wire c.serial (errorResponse (reqOf h) 1 0)) := by
  have hreq : is_request h = true := by rcases ht with ht | ht <;> simp [is_request, ht]
  have hw : (c.mem16 != decide (h.opts &&& 1 ≠ 0)) = true := by simpa using hws
  simp only [regp_process, received, hreq, Bool.not_true, Bool.false_eq_true, ↓reduceIte, hw, true_and]
  exact Ufw.Props.C08.resp0_wire c snk h 1 0 ht (by omega) (by simp [carriesValue]) hroom

/-- responses, meta messages, a NULL frame, and a frame whose header never parsed cause neither a
    memory access nor a reply (failed receptions: C07.rejected_not_executed) -/
theorem process_ignores (c : Cfg) (snk : Snk) (mf : MaybeFrame) (be : Backend)
    (h : mf.frame = none ∨ (∃ b, mf.frame = some b ∧ b.hdr = none) ∨
         (∃ b hd off, mf.frame = some b ∧ b.hdr = some (hd, off) ∧ is_request hd = false)) :
    regp_process c snk mf be = (⟨none, snk⟩, []) := by
  rcases h with h | ⟨b, h1, h2⟩ | ⟨b, hd, off, h1, h2, h3⟩
  · simp [regp_process, h]
  · simp only [regp_process, h1, h2]
    cases mf.err with
    | none => rfl
    | some e => cases e <;> rfl
  · simp only [regp_process, h1, h2, h3]
    cases mf.err with
    | none => simp
    | some e => cases e <;> simp

/-! ### whole sessions -/

/-- the backend accesses a received frame is owed: one for a request that was received without error, whose
    word size matches the attached memory and - for a read - whose answer fits; none otherwise -/
def owedCalls (c : Cfg) (mf : MaybeFrame) : List Call :=
  match mf.frame, mf.err with
  | some blk, none =>
    match blk.hdr with
    | some (h, off) =>
      if is_request h = true ∧ c.mem16 = decide (h.opts &&& 1 ≠ 0) then
        if h.type = 0 then
          (if (c.B - (c.F + 2 * off)) / unitOf c < h.bsize then [] else [readCall c h off])
        else [writeCall c blk.raw h off]
      else []
    | none => []
  | _, _ => []

/-- one call of `regp_process` performs exactly the owed accesses, whatever the sink does -/
theorem process_calls (c : Cfg) (snk : Snk) (mf : MaybeFrame) (be : Backend) :
    (regp_process c snk mf be).2 = owedCalls c mf := by
  simp only [regp_process, owedCalls]
  cases hf : mf.frame with
  | none => rfl
  | some blk =>
    cases he : mf.err with
    | some e =>
      simp only
      cases hh : blk.hdr with
      | none => cases e <;> rfl
      | some p => obtain ⟨h, off⟩ := p; cases e <;> simp <;> split <;> rfl
    | none =>
      simp only
      cases hh : blk.hdr with
      | none => rfl
      | some p =>
        obtain ⟨h, off⟩ := p
        simp only
        by_cases hr : is_request h = true
        · by_cases hw : c.mem16 = decide (h.opts &&& 1 ≠ 0)
          · have hw' : (c.mem16 != decide (h.opts &&& 1 ≠ 0)) = false := by simp [hw]
            simp only [hr, Bool.not_true, Bool.false_eq_true, ↓reduceIte, hw', true_and]
            rw [if_pos hw]
            by_cases ht : h.type = 0
            · simp only [ht, ↓reduceIte, unitOf, readCall]
              split <;> (split <;> rfl)
            · simp only [ht, ↓reduceIte, writeCall]
          · have hw' : (c.mem16 != decide (h.opts &&& 1 ≠ 0)) = true := by simpa using hw
            simp only [hr, Bool.not_true, Bool.false_eq_true, ↓reduceIte, hw', true_and]
            rw [if_neg hw]
        · simp [hr]

/-- the log of a whole session: frames handed to `regp_process` one after the other, the sink carried along -/
def session (c : Cfg) : Snk → List (MaybeFrame × Backend) → Snk × List Call
  | snk, [] => (snk, [])
  | snk, (mf, be) :: rest =>
    let r := regp_process c snk mf be
    let (snk', log) := session c r.1.snk rest
    (snk', r.2 ++ log)

/-- over any sequence of received frames - requests, responses, meta messages, failed receptions, in any
    order - the backend sees exactly the owed accesses, in order, each once -/
theorem session_run (c : Cfg) : ∀ (frames : List (MaybeFrame × Backend)) (snk : Snk),
    (session c snk frames).2 = frames.flatMap fun p => owedCalls c p.1 := by
  intro frames
  induction frames with
  | nil => intro snk; rfl
  | cons p rest ih =>
    intro snk
    obtain ⟨mf, be⟩ := p
    simp only [session, List.flatMap_cons]
    rw [process_calls, ih]

end Ufw.Props.C06
