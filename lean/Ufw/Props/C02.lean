/-
C02 – block writes are validated as a whole and are all-or-nothing.  Property theorems only.

Proved: the decision structure (a block write succeeds exactly when the three validations pass,
in the order read-only / unmapped / malformed), what each validation means in terms of the areas
and registers the request overlaps, all-or-nothing on refusal, the touched marks and that the
register descriptions are otherwise untouched.  NOT proved (correspondence only, named in
DESIGN.md): nothing - `block_write_frame` says that on success exactly the n addressed words change.
-/
import Ufw.Lemmas.RegFlat
import Ufw.Lemmas.RegWrite

namespace Ufw.Props.C02
open Ufw Ufw.Model.RegTable Ufw.Lemmas.RegTable

/-- all-or-nothing: a refused block write leaves every word (the whole table) unchanged -/
theorem refused_unchanged (cb : Nat → Value → Bool) (t : Table) (addr : Nat) (buf : List Atom)
    (h : (register_block_write cb t addr buf).1.code ≠ .success) : (register_block_write cb t addr buf).2 = t := by
  simp only [register_block_write] at h ⊢
  split
  · rfl
  split
  · rfl
  split
  · split
    · split
      · split
        · rename_i h1 h2 h3 t' h4
          simp_all
        · rfl
      · rfl
    · rfl
  · rfl

/-- the block is validated as a whole before anything is written: the result is the first of
    (1) a touched area that is not writable, (2) an unmapped address, (3) an overlapped register
    that would not decode or not satisfy its constraint; only when all three pass are words written -/
theorem decision (cb : Nat → Value → Bool) (t : Table) (wf : WfAreas t) (hi : t.initialised = true) (addr : Nat)
    (buf : List Atom) (hn : buf ≠ []) :
    register_block_write cb t addr buf =
      (match ra_writeable t addr buf.length with
       | ⟨.success, _⟩ =>
         (match firstHole t addr buf.length with
          | some x => (⟨.noentry, x⟩, t)
          | none =>
            (match ra_malformed_write cb t addr buf with
             | ⟨.success, _⟩ =>
               (match blockWriteLoop buf.length t addr buf with
                | some t' => (⟨.success, 0⟩, reg_taint_in_range t' addr buf.length)
                | none => (oob, t))
             | r => (r, t)))
       | r => (r, t)) := by
  have hl : ¬ buf.length = 0 := by
    intro h0; exact hn (List.length_eq_zero_iff.mp h0)
  simp only [register_block_write, hi, Bool.not_true, Bool.false_eq_true, ↓reduceIte, hl,
    register_block_touches_hole, touchesHole_eq t wf buf.length addr buf.length (Nat.le_refl _)]
  rcases hw : ra_writeable t addr buf.length with ⟨c, a⟩
  cases c <;> cases hh : firstHole t addr buf.length <;> rfl

/-- writability: every area the request overlaps must have a write callback and the writeable flag;
    otherwise 'read-only' at the first address of the request inside the first such area -/
theorem writeable_spec (addr n : Nat) : ∀ (areas : List Area),
    (ra_writeable.go addr n areas = ⟨.success, 0⟩ ∨
     ∃ a ∈ areas, ¬ (a.base + a.size ≤ addr) ∧ ¬ (addr + n ≤ a.base) ∧ (a.hasWrite && a.writeable) = false ∧
       ra_writeable.go addr n areas = ⟨.readonly, max a.base addr⟩) := by
  intro areas
  induction areas with
  | nil => left; rfl
  | cons a rest ih =>
    simp only [ra_writeable.go]
    by_cases h1 : a.base + a.size ≤ addr
    · simp only [h1, ↓reduceIte]
      rcases ih with h | ⟨b, hb, r1, r2, r3, r4⟩
      · left; exact h
      · right; exact ⟨b, List.mem_cons_of_mem _ hb, r1, r2, r3, r4⟩
    · simp only [h1, ↓reduceIte]
      by_cases h2 : addr + n ≤ a.base
      · simp [h2]
      · simp only [h2, ↓reduceIte]
        by_cases h3 : (a.hasWrite && a.writeable) = true
        · simp only [h3, Bool.not_true, Bool.false_eq_true, ↓reduceIte]
          rcases ih with h | ⟨b, hb, r1, r2, r3, r4⟩
          · left; exact h
          · right; exact ⟨b, List.mem_cons_of_mem _ hb, r1, r2, r3, r4⟩
        · right
          refine ⟨a, List.mem_cons_self .., h1, h2, by simpa using h3, ?_⟩
          simp [h3]

/-- when the writability check passes, every area that overlaps the request is writable (areas
    ascending, as `register_init` demands) -/
theorem writeable_ok (addr n : Nat) : ∀ (areas : List Area),
    areas.Pairwise (fun a b => a.base ≤ b.base) →
    ra_writeable.go addr n areas = ⟨.success, 0⟩ →
    ∀ a ∈ areas, ¬ (a.base + a.size ≤ addr) → ¬ (addr + n ≤ a.base) → (a.hasWrite && a.writeable) = true := by
  intro areas
  induction areas with
  | nil => intro _ _ a ha; simp at ha
  | cons x rest ih =>
    intro hs hgo a ha h1 h2
    simp only [ra_writeable.go] at hgo
    have hs' := (List.pairwise_cons.mp hs)
    by_cases c1 : x.base + x.size ≤ addr
    · simp only [c1, ↓reduceIte] at hgo
      rcases List.mem_cons.mp ha with rfl | hr
      · exact absurd c1 h1
      · exact ih hs'.2 hgo a hr h1 h2
    · simp only [c1, ↓reduceIte] at hgo
      by_cases c2 : addr + n ≤ x.base
      · -- every later area begins behind the request as well
        rcases List.mem_cons.mp ha with rfl | hr
        · exact absurd c2 h2
        · have := hs'.1 a hr
          exact absurd (by omega : addr + n ≤ a.base) h2
      · simp only [c2, ↓reduceIte] at hgo
        by_cases c3 : (x.hasWrite && x.writeable) = true
        · simp only [c3, Bool.not_true, Bool.false_eq_true, ↓reduceIte] at hgo
          rcases List.mem_cons.mp ha with rfl | hr
          · exact c3
          · exact ih hs'.2 hgo a hr h1 h2
        · simp [c3] at hgo

/-- on success the registers the block overlaps - fully or partly - are marked touched, the others
    keep their mark, and nothing else of a register description changes -/
theorem taint_spec (t : Table) (addr n : Nat) (i : Nat) (e : Entry) (h : t.entries[i]? = some e) :
    (reg_taint_in_range t addr n).entries[i]? =
      some (if e.address + e.type.size ≤ addr ∨ addr + n ≤ e.address then e else { e with touched := true }) := by
  simp [reg_taint_in_range, List.getElem?_map, h]

/-- the validation of overlapped registers: when it passes, every register that the block
    overlaps decodes and satisfies its constraint once the new words are overlaid on its content -/
theorem malformed_ok (cb : Nat → Value → Bool) (t : Table) (addr : Nat) (buf : List Atom) :
    ∀ (es : List Entry), es.Pairwise (fun a b => a.address ≤ b.address) →
    ra_malformed_write.go cb t addr buf buf.length es = ⟨.success, 0⟩ →
    ∀ e ∈ es, ¬ (e.address + e.type.size ≤ addr) → ¬ (addr + buf.length ≤ e.address) →
      ∃ a raw, t.areas[e.area]? = some a ∧ a.read e.offset e.type.size = some raw ∧
        let rs := max addr e.address - e.address
        let bs := max addr e.address - addr
        let rlen := min (addr + buf.length) (e.address + e.type.size) - max addr e.address
        let raw' := raw.take rs ++ ((buf.drop bs).take rlen ++ raw.drop (rs + rlen))
        (des t.bigEndian e.type raw').2 = true ∧ rv_validate cb t e (des t.bigEndian e.type raw').1 = true := by
  intro es
  induction es with
  | nil => intro _ _ e he; simp at he
  | cons x rest ih =>
    intro hs hgo e he h1 h2
    have hs' := List.pairwise_cons.mp hs
    simp only [ra_malformed_write.go] at hgo
    by_cases c1 : x.address + x.type.size ≤ addr
    · simp only [c1, ↓reduceIte] at hgo
      rcases List.mem_cons.mp he with rfl | hr
      · exact absurd c1 h1
      · exact ih hs'.2 hgo e hr h1 h2
    · simp only [c1, ↓reduceIte] at hgo
      by_cases c2 : addr + buf.length ≤ x.address
      · rcases List.mem_cons.mp he with rfl | hr
        · exact absurd c2 h2
        · have := hs'.1 e hr
          exact absurd (by omega : addr + buf.length ≤ e.address) h2
      · simp only [c2, ↓reduceIte] at hgo
        cases ha : t.areas[x.area]? with
        | none => simp [ha, oob] at hgo
        | some a =>
          simp only [ha] at hgo
          cases hr : a.read x.offset x.type.size with
          | none => simp [hr, oob] at hgo
          | some raw =>
            simp only [hr] at hgo
            split at hgo
            · simp at hgo
            rename_i hok
            split at hgo
            · simp at hgo
            rename_i hval
            rcases List.mem_cons.mp he with rfl | hrest
            · exact ⟨a, raw, ha, hr, by simpa using hok, by simpa using hval⟩
            · exact ih hs'.2 hgo e hrest h1 h2

/-- what a successful block write consists of -/
theorem block_write_success_inv (cb : Nat → Value → Bool) (t : Table) (addr : Nat) (buf : List Atom) (hs : Shape t)
    (hne : buf ≠ []) (hok : (register_block_write cb t addr buf).1.code = .success) :
    t.initialised = true ∧ ra_malformed_write.go cb t addr buf buf.length t.entries = ⟨.success, 0⟩ ∧
    ∃ t'', blockWriteLoop buf.length t addr buf = some t'' ∧
      (register_block_write cb t addr buf).2 = reg_taint_in_range t'' addr buf.length := by
  have hi : t.initialised = true := by
    cases h : t.initialised with
    | true => rfl
    | false => simp [register_block_write, h] at hok
  rw [decision cb t hs.wf hi addr buf hne] at hok ⊢
  refine ⟨hi, ?_⟩
  rcases hw : ra_writeable t addr buf.length with ⟨c, a⟩
  rw [hw] at hok
  cases c <;> try (simp at hok)
  cases hh : firstHole t addr buf.length with
  | some x => rw [hh] at hok; simp at hok
  | none =>
    rw [hh] at hok
    simp only at hok ⊢
    rcases hm : ra_malformed_write cb t addr buf with ⟨c2, a2⟩
    rw [hm] at hok
    cases c2 <;> try (simp at hok)
    have hm' := malformed_succ cb t addr buf t.entries (by rw [← malformed_eq, hm])
    cases hb : blockWriteLoop buf.length t addr buf with
    | none => rw [hb] at hok; simp [oob] at hok
    | some t'' => exact ⟨hm', t'', rfl, rfl⟩

/-- on success exactly the n addressed words change: every area keeps everything but its content, and the cell
    of area i at offset o holds the new word exactly when its address lies inside the request -/
theorem block_write_frame (cb : Nat → Value → Bool) (t : Table) (addr : Nat) (buf : List Atom) (hs : Shape t)
    (hne : buf ≠ []) (hok : (register_block_write cb t addr buf).1.code = .success) :
    ∀ (i : Nat) (a : Area), t.areas[i]? = some a →
      ∃ a', (register_block_write cb t addr buf).2.areas[i]? = some a' ∧ a' = { a with mem := a'.mem } ∧
        a'.mem.length = a.mem.length ∧
        ∀ o, o < a.size → a'.mem.getD o 0 =
          if addr ≤ a.base + o ∧ a.base + o < addr + buf.length then buf.getD (a.base + o - addr) 0 else a.mem.getD o 0 := by
  obtain ⟨_, _, t'', hb, ht'⟩ := block_write_success_inv cb t addr buf hs hne hok
  rw [ht']
  exact (blockWrite_spec buf.length t addr buf t'' hs hb).2.2.2

end Ufw.Props.C02
