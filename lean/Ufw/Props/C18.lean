/-
C18 – byte buffers keep `offset ≤ used ≤ size` and behave as a FIFO of octets.
Property theorems only.
-/
import Ufw.Model.ByteBuffer
import Ufw.Spec.ByteBuffer

namespace Ufw.Props.C18
open Ufw Ufw.Model.ByteBuffer
open Ufw.Spec.ByteBuffer (Fifo)

/-- representation invariant: the three-index inequality of the statement, plus
    "the memory object has `size` octets" (the caller's contract at set-up). -/
def Inv (b : ByteBuffer) : Prop :=
  b.null = false ∧ b.offset ≤ b.used ∧ b.used ≤ b.size ∧ b.mem.length = b.size

/-- abstraction: capacity, filled octets, read mark -/
def abs (b : ByteBuffer) : Fifo :=
  { cap := b.size, filled := b.mem.take b.used, off := b.offset }

/-! #### set-up -/

theorem setup_refuses (b : ByteBuffer) (data : Option (List Octet)) (size used offset : Nat) :
    (data = none ∨ size = 0 ∨ used > size ∨ offset > used) ↔
      byte_buffer_set b data size used offset = (.err .einval, b) := by
  cases data with
  | none => simp [byte_buffer_set]
  | some m =>
    simp only [byte_buffer_set]
    by_cases h : size = 0 ∨ used > size ∨ offset > used
    · simp [h]
    · simp [h]

theorem setup_inv (b : ByteBuffer) (m : List Octet) (size used offset : Nat)
    (hm : m.length = size)
    (h : (byte_buffer_set b (some m) size used offset).1 = .ok 0) :
    Inv (byte_buffer_set b (some m) size used offset).2 ∧
    abs (byte_buffer_set b (some m) size used offset).2 =
      { cap := size, filled := m.take used, off := offset } := by
  simp only [byte_buffer_set] at *
  by_cases hc : size = 0 ∨ used > size ∨ offset > used
  · simp [hc] at h
  · simp only [hc, ↓reduceIte, Inv, abs]
    simp only [not_or, Nat.not_lt] at hc
    simp [hm]; omega


/-! #### one operation -/

private theorem take_writeAt_self (mem d : List Octet) (u : Nat) (h : u + d.length ≤ mem.length) :
    (mem.take u ++ (d ++ mem.drop (u + d.length))).take (u + d.length) = mem.take u ++ d := by
  have : (mem.take u ++ d).length = u + d.length := by simp; omega
  rw [← List.append_assoc, List.take_append_of_le_length (by omega)]
  rw [← this, List.take_length]

private theorem take_drop_take (mem : List Octet) (o u n : Nat) (h : o + n ≤ u) :
    List.take n (List.drop o (List.take u mem)) = List.take n (List.drop o mem) := by
  rw [List.drop_take, List.take_take]
  congr 1; omega

/-- Every operation, started in a state satisfying the invariant: keeps the
    invariant, never leaves the memory object (`≠ oob`), reports exactly what
    the FIFO description reports, and ends in the state the FIFO description
    prescribes. -/
theorem step_refines (b : ByteBuffer) (op : Op) (h : Inv b) :
    Inv (step b op).1 ∧
    (step b op).2.rc ≠ .oob ∧
    (step b op).2 = (Spec.ByteBuffer.step (abs b) op).2 ∧
    abs (step b op).1 = (Spec.ByteBuffer.step (abs b) op).1 := by
  obtain ⟨hn, hou, hus, hml⟩ := h
  have hlen : (List.take b.used b.mem).length = b.used := by simp; omega
  cases op with
  | add d =>
    simp only [step, byte_buffer_add, Spec.ByteBuffer.step, abs, hlen]
    by_cases hc : b.size < b.used + d.length
    · have hc' : ¬ (b.used + d.length ≤ b.size) := by omega
      simp [hc, hc', Inv, hn, hou, hus, hml]
    · have hw : b.used + d.length ≤ b.mem.length := by omega
      have hc' : b.used + d.length ≤ b.size := by omega
      simp only [hc, hc', ↓reduceIte, writeAt, hw]
      refine ⟨⟨hn, by simp; omega, by simp; omega, by simp; omega⟩, by simp, trivial, ?_⟩
      simp [take_writeAt_self b.mem d b.used hw]
  | consume n =>
    simp only [step, byte_buffer_consume, Spec.ByteBuffer.step, abs, Fifo.unread,
      List.length_drop, hlen]
    by_cases hc : n > b.used - b.offset
    · have hc' : ¬ n ≤ b.used - b.offset := by omega
      simp [hc, hc', Inv, hn, hou, hus, hml]
    · have hr : b.offset + n ≤ b.mem.length := by omega
      have hc' : n ≤ b.used - b.offset := by omega
      simp only [hc, hc', ↓reduceIte, readAt, hr]
      refine ⟨⟨hn, by simp; omega, hus, hml⟩, by simp, ?_, trivial⟩
      simp [take_drop_take b.mem b.offset b.used n (by omega)]
  | atMost n =>
    simp only [step, byte_buffer_consume_at_most, Spec.ByteBuffer.step, abs, Fifo.unread,
      List.length_drop, hlen]
    by_cases hz : b.used - b.offset = 0
    · simp [hz, Inv, hn, hou, hus, hml]
    · simp only [hz, ↓reduceIte]
      by_cases hk : n > b.used - b.offset
      · have hr : b.offset + (b.used - b.offset) ≤ b.mem.length := by omega
        have hm : min n (b.used - b.offset) = b.used - b.offset := by omega
        simp only [hk, ↓reduceIte, readAt, hr, hm]
        refine ⟨⟨hn, by simp; omega, hus, hml⟩, by simp, ?_, trivial⟩
        simp [take_drop_take b.mem b.offset b.used (b.used - b.offset) (by omega)]
      · have hr : b.offset + n ≤ b.mem.length := by omega
        have hm : min n (b.used - b.offset) = n := by omega
        simp only [hk, ↓reduceIte, readAt, hr, hm]
        refine ⟨⟨hn, by simp; omega, hus, hml⟩, by simp, ?_, trivial⟩
        simp [take_drop_take b.mem b.offset b.used n (by omega)]
  | rewind =>
    simp only [step, byte_buffer_rewind, Spec.ByteBuffer.step, abs, Fifo.unread, hn]
    by_cases hz : b.offset = 0
    · simp [hz, Inv, hn, hus, hml]
    · have hr : b.offset + (b.used - b.offset) ≤ b.mem.length := by omega
      simp only [Bool.false_eq_true, ↓reduceIte, hz, readAt, hr, writeAt]
      have hl : ((List.drop b.offset b.mem).take (b.used - b.offset)).length = b.used - b.offset := by
        simp; omega
      have hw : 0 + ((List.drop b.offset b.mem).take (b.used - b.offset)).length ≤ b.mem.length := by
        rw [hl]; omega
      simp only [hw, ↓reduceIte]
      refine ⟨⟨by simp [hn], by simp, by simp; omega, by simp [hl]; omega⟩, by simp, by simp, ?_⟩
      simp only [List.take_zero, List.nil_append, Nat.zero_add, hl, Fifo.mk.injEq, true_and, and_true]
      rw [List.take_append_of_le_length (by rw [hl]; omega)]
      rw [List.take_take, Nat.min_self, List.drop_take]
  | clear =>
    simp only [step, byte_buffer_clear, Spec.ByteBuffer.step, abs, writeAt]
    have hw : 0 + (List.replicate b.size 0#8).length ≤ b.mem.length := by simp; omega
    simp only [hw, ↓reduceIte]
    refine ⟨⟨by simp [hn], by simp, by simp, by simp; omega⟩, by simp, by simp, by simp⟩
  | reset =>
    simp [step, byte_buffer_reset, Spec.ByteBuffer.step, abs, Inv, hn, hml]
  | repeat_ =>
    simp [step, byte_buffer_repeat, Spec.ByteBuffer.step, abs, Inv, hn, hml, hus]

/-! #### every history -/

/-- `offset ≤ used ≤ size` through every sequence of operations, no access
    outside the `size` octets, and the observable behaviour (all return codes,
    all delivered octets) is that of the FIFO description. -/
theorem run_refines (ops : List Op) (b : ByteBuffer) (h : Inv b) :
    Inv (run b ops).1 ∧
    (∀ o ∈ (run b ops).2, o.rc ≠ .oob) ∧
    (run b ops).2 = (Spec.ByteBuffer.run (abs b) ops).2 ∧
    abs (run b ops).1 = (Spec.ByteBuffer.run (abs b) ops).1 := by
  induction ops generalizing b with
  | nil => simp [run, Spec.ByteBuffer.run, h]
  | cons op ops ih =>
    obtain ⟨h1, h2, h3, h4⟩ := step_refines b op h
    obtain ⟨i1, i2, i3, i4⟩ := ih (step b op).1 h1
    simp only [run, Spec.ByteBuffer.run]
    refine ⟨i1, ?_, ?_, ?_⟩
    · intro o ho
      simp only [List.mem_cons] at ho
      rcases ho with rfl | ho
      · exact h2
      · exact i2 o ho
    · rw [i3, h3, h4]
    · rw [i4, h4]

theorem inv_run (ops : List Op) (b : ByteBuffer) (h : Inv b) :
    (run b ops).1.offset ≤ (run b ops).1.used ∧ (run b ops).1.used ≤ (run b ops).1.size ∧
    (run b ops).1.mem.length = (run b ops).1.size :=
  let ⟨⟨_, a, b', c⟩, _⟩ := run_refines ops b h
  ⟨a, b', c⟩

/-! #### the individual clauses of the statement, read off the FIFO description -/

/-- adding appends exactly the given octets or fails without change -/
theorem add_spec (b : ByteBuffer) (d : List Octet) (h : Inv b) :
    (d.length ≤ b.size - b.used →
      (byte_buffer_add b d).1 = .ok 0 ∧
      (abs (byte_buffer_add b d).2).filled = (abs b).filled ++ d ∧
      (byte_buffer_add b d).2.offset = b.offset) ∧
    (d.length > b.size - b.used → byte_buffer_add b d = (.err .enomem, b)) := by
  have hs := step_refines b (.add d) h
  obtain ⟨hn, hou, hus, hml⟩ := h
  simp only [step, Spec.ByteBuffer.step, abs] at hs
  constructor
  · intro hd
    have hc : (List.take b.used b.mem).length + d.length ≤ b.size := by simp; omega
    simp only [hc, ↓reduceIte] at hs
    obtain ⟨_, _, h3, h4⟩ := hs
    simp only [abs, Fifo.mk.injEq] at h4
    refine ⟨by simpa using congrArg Out.rc h3, h4.2.1, h4.2.2⟩
  · intro hd
    simp only [byte_buffer_add]
    have : b.size < b.used + d.length := by omega
    simp [this]

/-- consuming returns exactly the oldest unread octets, in order, or fails
    without change -/
theorem consume_spec (b : ByteBuffer) (n : Nat) (h : Inv b) :
    (n ≤ b.used - b.offset →
      (byte_buffer_consume b n).1 = .ok 0 ∧
      (byte_buffer_consume b n).2.2 = (abs b).unread.take n ∧
      (abs (byte_buffer_consume b n).2.1).unread = (abs b).unread.drop n ∧
      (byte_buffer_consume b n).2.1.mem = b.mem ∧ (byte_buffer_consume b n).2.1.used = b.used) ∧
    (n > b.used - b.offset → byte_buffer_consume b n = (.err .enodata, b, [])) := by
  obtain ⟨hn, hou, hus, hml⟩ := h
  constructor
  · intro hd
    have hc : ¬ n > b.used - b.offset := by omega
    have hr : b.offset + n ≤ b.mem.length := by omega
    simp only [byte_buffer_consume, hc, ↓reduceIte, readAt, hr, abs, Fifo.unread, true_and, and_true]
    refine ⟨?_, by simp [Nat.add_comm]⟩
    rw [List.drop_take, List.take_take]
    congr 1; omega
  · intro hd
    simp [byte_buffer_consume, hd]

/-- the at-most variant returns as many as are there, failing only when none are -/
theorem consume_at_most_spec (b : ByteBuffer) (n : Nat) (h : Inv b) :
    (b.used - b.offset = 0 → byte_buffer_consume_at_most b n = (.err .enodata, b, [])) ∧
    (b.used - b.offset > 0 →
      let k := min n (b.used - b.offset)
      (byte_buffer_consume_at_most b n).1 = .ok k ∧
      (byte_buffer_consume_at_most b n).2.2 = (abs b).unread.take k ∧
      (abs (byte_buffer_consume_at_most b n).2.1).unread = (abs b).unread.drop k) := by
  obtain ⟨hn, hou, hus, hml⟩ := h
  constructor
  · intro hz
    simp [byte_buffer_consume_at_most, hz]
  · intro hp
    have hz : ¬ (b.used - b.offset = 0) := by omega
    simp only [byte_buffer_consume_at_most, hz, ↓reduceIte, abs, Fifo.unread]
    by_cases hk : n > b.used - b.offset
    · have hr : b.offset + (b.used - b.offset) ≤ b.mem.length := by omega
      have hm : min n (b.used - b.offset) = b.used - b.offset := by omega
      simp only [hk, ↓reduceIte, readAt, hr, hm, true_and]
      refine ⟨?_, by simp [Nat.add_comm]⟩
      rw [List.drop_take, List.take_take]; congr 1; omega
    · have hr : b.offset + n ≤ b.mem.length := by omega
      have hm : min n (b.used - b.offset) = n := by omega
      simp only [hk, ↓reduceIte, readAt, hr, hm, true_and]
      refine ⟨?_, by simp [Nat.add_comm]⟩
      rw [List.drop_take, List.take_take]; congr 1; omega

/-- rewinding keeps exactly the unread octets, now starting at offset zero, with
    the space behind them free again -/
theorem rewind_spec (b : ByteBuffer) (h : Inv b) :
    (byte_buffer_rewind b).1 = .ok 0 ∧
    (byte_buffer_rewind b).2.offset = 0 ∧
    (byte_buffer_rewind b).2.used = b.used - b.offset ∧
    (abs (byte_buffer_rewind b).2).unread = (abs b).unread ∧
    byte_buffer_avail (byte_buffer_rewind b).2 = byte_buffer_avail b + b.offset := by
  have hs := step_refines b .rewind h
  obtain ⟨hn, hou, hus, hml⟩ := h
  simp only [step, Spec.ByteBuffer.step] at hs
  obtain ⟨hi, _, h3, h4⟩ := hs
  have hrc : (byte_buffer_rewind b).1 = .ok 0 := by simpa using congrArg Out.rc h3
  have hoff : (byte_buffer_rewind b).2.offset = 0 := by
    simpa [abs] using congrArg Fifo.off h4
  have hsz : (byte_buffer_rewind b).2.size = b.size := by
    simpa [abs] using congrArg Fifo.cap h4
  have hun : (abs (byte_buffer_rewind b).2).unread = (abs b).unread := by
    rw [h4]; simp [Fifo.unread]
  have hused : (byte_buffer_rewind b).2.used = b.used - b.offset := by
    have := congrArg (fun f => f.filled.length) h4
    simp only [abs, Fifo.unread, List.length_take, List.length_drop] at this
    obtain ⟨_, _, i3, i4⟩ := hi
    omega
  refine ⟨hrc, hoff, hused, hun, ?_⟩
  simp only [byte_buffer_avail, hsz, hused]; omega

/-- reset, clear and repeat: empty; empty and zeroed; all filled octets unread again -/
theorem reset_clear_repeat_spec (b : ByteBuffer) (h : Inv b) :
    (abs (byte_buffer_reset b)).filled = [] ∧ (byte_buffer_reset b).offset = 0 ∧
    (byte_buffer_clear b).1 = .ok 0 ∧
    (abs (byte_buffer_clear b).2).filled = [] ∧ (byte_buffer_clear b).2.offset = 0 ∧
    (byte_buffer_clear b).2.mem = List.replicate b.size 0#8 ∧
    (abs (byte_buffer_repeat b)).unread = (abs b).filled ∧
    (abs (byte_buffer_repeat b)).filled = (abs b).filled := by
  obtain ⟨hn, hou, hus, hml⟩ := h
  have hw : 0 + (List.replicate b.size 0#8).length ≤ b.mem.length := by simp; omega
  simp [byte_buffer_reset, byte_buffer_clear, byte_buffer_repeat, abs, Fifo.unread, writeAt, hw, ← hml]

/-! #### non-vacuity: a concrete non-trivial state satisfies the hypotheses -/

example : Inv { mem := [1#8, 2#8, 3#8, 4#8], size := 4, used := 3, offset := 1 } := by
  simp [Inv]

example :
    (run { mem := [0#8, 0#8, 0#8], size := 3, used := 0, offset := 0 }
        [.add [7#8, 8#8], .consume 1, .rewind, .add [9#8, 10#8], .atMost 5]).2.map (·.out)
      = [[], [7#8], [], [], [8#8, 9#8, 10#8]] := by decide

end Ufw.Props.C18
