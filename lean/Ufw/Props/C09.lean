/-
C09 – receiving and processing arbitrary input is memory-safe and resource-exact.
Property theorems only.

What a theorem about the model can carry: the index arithmetic (how many octets are stored in
the block, where the backend's buffer lies, how long the payload is that a write hands over),
the allocator ledger, and which reply each resource fault gets.  That the compiled C code never
leaves the block is observed (ASan on exact-size blocks), not proved; see DESIGN.md.
-/
import Ufw.Props.C06

namespace Ufw.Props.C09
open Ufw Ufw.Model.Regp Ufw.Lemmas.Regp
open Ufw.Model.Slip (Snk SrcEv)
open Ufw.Spec.Regp (Frame MType wire errorResponse metaFrame)
open Ufw.Props.C08 (reqOf Fits Emits)

/-- for EVERY source content (octets and errors in any order), transport, block size (also one that is not
    larger than the RPFrame structure: nothing is kept then) and allocation script: what `regp_recv` keeps of a frame never exceeds the B - F octets behind the
    RPFrame structure of the block -/
theorem stored_le_capacity (p : Inst) (b : Block)
    (h : (regp_recv p).2.1.frame = some b) : b.raw.length ≤ p.cfg.B - p.cfg.F := by
  rcases hch : channelRecv p.cfg p.src with ⟨chan, got, rest⟩
  simp only [regp_recv, hch, csRun_eq p.cfg p.al got, csAfter] at h
  by_cases hg : got = []
  · cases chan <;> simp [hg] at h
  · by_cases hal : p.al.script.head?.getD false = true
    · cases chan <;> simp [hg, hal] at h
    · cases chan with
      | some e => simp [hg, hal] at h
      | none =>
        by_cases hbig : got.length > p.cfg.B - p.cfg.F
        · simp only [hg, hal, hbig, Bool.false_eq_true, ↓reduceIte, Option.getD_some, Option.some.injEq] at h
          rw [← h]; simp only [List.length_take]; omega
        · simp only [hg, hal, hbig, Bool.false_eq_true, ↓reduceIte] at h
          rcases hpf : parse_frame (got.take (p.cfg.B - p.cfg.F)) with ⟨r, ho⟩
          rw [hpf] at h
          cases r with
          | ok v => simp only [Option.some.injEq] at h; rw [← h]; simp only [List.length_take]; omega
          | error e =>
            by_cases h1 : e = .ebadmsg
            · simp only [h1, ↓reduceIte, Option.some.injEq] at h; rw [← h]; simp only [List.length_take]; omega
            · by_cases h2 : e = .eilseq
              · subst h2
                simp at h
                rw [← h]; simp only [List.length_take]; omega
              · simp only [h1, h2, ↓reduceIte, Option.some.injEq] at h
                rw [← h]; simp only [List.length_take]; omega

/-- the ledger: after `regp_recv`, whatever the input, the number of blocks handed out and not yet
    released has grown by exactly one if a frame is returned and not at all otherwise - in
    particular a channel error (which returns no frame) has released the block it had obtained -/
theorem ledger (p : Inst) :
    (regp_recv p).2.2.al.live = p.al.live + (if (regp_recv p).2.1.frame.isSome then 1 else 0) := by
  rcases hch : channelRecv p.cfg p.src with ⟨chan, got, rest⟩
  simp only [regp_recv, hch, csRun_eq p.cfg p.al got, csAfter]
  by_cases hg : got = []
  · cases chan <;> simp [hg]
  · by_cases hal : p.al.script.head?.getD false = true
    · cases chan <;> simp [hg, hal]
    · cases chan with
      | some e => simp [hg, hal]
      | none =>
        by_cases hbig : got.length > p.cfg.B - p.cfg.F
        · simp [hg, hal, hbig]
        · simp only [hg, hal, hbig, Bool.false_eq_true, ↓reduceIte]
          rcases hpf : parse_frame (got.take (p.cfg.B - p.cfg.F)) with ⟨r, ho⟩
          cases r with
          | ok v => simp
          | error e =>
            by_cases h1 : e = .ebadmsg
            · simp [h1]
            · by_cases h2 : e = .eilseq <;> simp [h1, h2]

/-- a channel error returns no frame (so, by `ledger`, holds no block) -/
theorem channel_error_no_frame (p : Inst) (e : Err) (got : List Octet) (rest : List SrcEv)
    (hch : channelRecv p.cfg p.src = (some e, got, rest)) :
    (regp_recv p).1 = some e ∧ (regp_recv p).2.1.frame = none ∧ (regp_recv p).2.2.al.live = p.al.live := by
  obtain ⟨h1, h2, h3, _, _⟩ := recv_chan_error p e got rest hch
  exact ⟨h1, by rw [h2], h3⟩

/-- the documented free call releases the returned block exactly once: the ledger is back where
    it was before the receive, and a second call changes nothing -/
theorem free_releases_once (p : Inst) :
    let r := regp_recv p
    let f1 := regp_free r.2.2 r.2.1
    f1.1.al.live = p.al.live ∧ f1.2.frame = none ∧ regp_free f1.1 f1.2 = f1 := by
  have hl := ledger p
  simp only [regp_free]
  cases hf : (regp_recv p).2.1.frame with
  | none => simp [hf] at hl ⊢; exact hl
  | some b => simp [hf] at hl ⊢; omega

/-- WRITE: the payload handed to the backend is exactly the announced block - `bsize` atoms of
    the frame's word size, not an octet less -/
theorem write_payload_exact (raw : List Octet) (h : Hdr) (off : Nat)
    (hok : (parse_frame raw).1 = .ok (h, off)) (ht : h.type = 2) :
    (raw.drop (2 * off)).length = h.bsize * (if h.opts % 2 = 1 then 2 else 1) := by
  simp only [parse_frame] at hok
  cases hph : parse_header raw with
  | error e => simp [hph, parse_frame_rest] at hok
  | ok v =>
    obtain ⟨h', off'⟩ := v
    simp only [hph, parse_frame_rest] at hok
    cases hpc : payload_checks h' (raw.drop (2 * off')) with
    | some e => simp [hpc] at hok
    | none =>
      simp only [hpc, Except.ok.injEq, Prod.mk.injEq] at hok
      obtain ⟨e1, e2⟩ := hok
      subst e1 e2
      have htc : h'.type = MType.writeRequest.code := by simp [MType.code, ht]
      rw [payload_checks_eq h' _ .writeRequest htc] at hpc
      by_cases hs : Ufw.Spec.Regp.sizeValid (frameWith .writeRequest h' (raw.drop (2 * off'))) = true
      · simp only [Ufw.Spec.Regp.sizeValid, frameWith] at hs
        by_cases hw : h'.opts % 2 = 1 <;> simp [hw] at hs ⊢ <;> omega
      · simp [hs] at hpc

/-- a frame too large for the receive block (whose room, B - F, holds at least a header) from a
    request is answered with the receive-overflow response carrying the buffer size; the block is
    returned unparsed with error id ENOMEM -/
theorem overflow_reply (p : Inst) (raw : List Octet) (rest : List SrcEv) (h : Hdr) (off : Nat)
    (hch : channelRecv p.cfg p.src = (none, raw, rest)) (h16 : RP_HEADER_SIZE ≤ p.cfg.B - p.cfg.F)
    (hal : p.al.script.head?.getD false = false) (hbig : raw.length > p.cfg.B - p.cfg.F)
    (hph : parse_header (raw.take RP_HEADER_SIZE) = .ok (h, off)) (ht : h.type = 0 ∨ h.type = 2)
    (hroom : Fits p.snk (wire p.cfg.serial (errorResponse (reqOf h) 4 ((p.cfg.B - p.cfg.F) % 2 ^ 32)))) :
    (regp_recv p).2.1.err = some .enomem ∧
    (regp_recv p).1 = none ∧
    (regp_recv p).2.2.snk.got = p.snk.got ++ wire p.cfg.serial (errorResponse (reqOf h) 4 ((p.cfg.B - p.cfg.F) % 2 ^ 32)) := by
  have hcap : 0 < p.cfg.B - p.cfg.F := by simp only [RP_HEADER_SIZE] at h16; omega
  obtain ⟨hmf, _, _, hreply⟩ := recv_overflow p raw rest hch hal hbig
  have htk : (raw.take (p.cfg.B - p.cfg.F)).take RP_HEADER_SIZE = raw.take RP_HEADER_SIZE := by
    rw [List.take_take]; congr 1; omega
  rw [htk] at hreply
  have hreq : is_request h = true := by rcases ht with ht | ht <;> simp [is_request, ht]
  have hem := Ufw.Props.C08.resp32_wire p.cfg p.snk h 4 ((p.cfg.B - p.cfg.F) % 2 ^ 32) ht (by omega)
    (by simp [Ufw.Spec.Regp.carriesValue]) hroom
  simp only [send_early_response, hph, hreq, Bool.not_true, Bool.false_eq_true, ↓reduceIte] at hreply
  refine ⟨by rw [hmf], ?_, ?_⟩
  · have := congrArg Prod.fst hreply; simp only at this; rw [this]; exact hem.1
  · have := congrArg Prod.snd hreply; simp only at this; rw [this]; exact hem.2

/-- an allocation failure is answered - for a request - with the busy response; nothing is held -/
theorem busy_reply (p : Inst) (raw : List Octet) (rest : List SrcEv) (h : Hdr) (off : Nat)
    (hch : channelRecv p.cfg p.src = (none, raw, rest))
    (hne : raw ≠ []) (hal : p.al.script.head?.getD false = true)
    (hph : parse_header (raw.take RP_HEADER_SIZE) = .ok (h, off)) (ht : h.type = 0 ∨ h.type = 2)
    (hroom : Fits p.snk (wire p.cfg.serial (errorResponse (reqOf h) 6 0))) :
    (regp_recv p).2.1 = { err := some .ebusy, framesize := raw.length, frame := none } ∧
    (regp_recv p).2.2.al.live = p.al.live ∧
    (regp_recv p).1 = none ∧
    (regp_recv p).2.2.snk.got = p.snk.got ++ wire p.cfg.serial (errorResponse (reqOf h) 6 0) := by
  obtain ⟨hmf, _, hal', hreply⟩ := recv_busy p raw rest hch hne hal
  have hreq : is_request h = true := by rcases ht with ht | ht <;> simp [is_request, ht]
  have hem := Ufw.Props.C08.resp0_wire p.cfg p.snk h 6 0 ht (by omega) (by simp [Ufw.Spec.Regp.carriesValue]) hroom
  simp only [send_early_response, hph, hreq, Bool.not_true, Bool.false_eq_true, ↓reduceIte] at hreply
  have hne4 : ¬ (6 : Nat) = 4 := by omega
  simp only [hne4, ↓reduceIte] at hreply
  refine ⟨hmf, by rw [hal'], ?_, ?_⟩
  · have := congrArg Prod.fst hreply; simp only at this; rw [this]; exact hem.1
  · have := congrArg Prod.snd hreply; simp only at this; rw [this]; exact hem.2

/-- a frame shorter than a header - including the empty frame, for which no block is obtained - is
    reported as bad header encoding: error id EBADMSG and the META message EHEADERENC -/
theorem short_frame_reply (p : Inst) (raw : List Octet) (rest : List SrcEv)
    (hch : channelRecv p.cfg p.src = (none, raw, rest))
    (hal : p.al.script.head?.getD false = false) (hshort : raw.length < RP_HEADER_MIN_SIZE)
    (hfit : raw.length ≤ p.cfg.B - p.cfg.F)
    (hroom : Fits p.snk (wire p.cfg.serial (metaFrame 1))) :
    (regp_recv p).2.1.err = some .ebadmsg ∧
    (regp_recv p).2.2.snk.got = p.snk.got ++ wire p.cfg.serial (metaFrame 1) ∧
    (raw = [] → (regp_recv p).2.1.frame = none ∧ (regp_recv p).2.2.al.live = p.al.live) := by
  have hem := Ufw.Props.C08.meta_wire p.cfg p.snk 1 (by omega) hroom
  by_cases hne : raw = []
  · subst hne
    obtain ⟨hmf, _, hal', hreply⟩ := recv_empty p rest hch
    refine ⟨by rw [hmf], ?_, fun _ => ⟨by rw [hmf], by rw [hal']⟩⟩
    have := congrArg Prod.snd hreply; simp only at this; rw [this]; exact hem.2
  · obtain ⟨hmf, _, _, _, _, hreply⟩ := recv_stored p raw rest hch hne hal hfit
    have hpf : parse_frame raw = (.error .ebadmsg, none) := by
      simp [parse_frame, parse_header, hshort, parse_frame_rest]
    rw [hpf] at hmf hreply
    refine ⟨by rw [hmf]; rfl, ?_, fun h => absurd h hne⟩
    have := congrArg Prod.snd hreply; simp only [↓reduceIte] at this; rw [this]; exact hem.2

end Ufw.Props.C09
