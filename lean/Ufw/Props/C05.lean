/-
C05 – register constraints are an invariant of every checked-operation history.
Property theorems only.

Proved here: the invariant for typed set and the bit operations (any history of them), that every
refused typed / bit / block operation leaves the table unchanged, and the exact effect and the
refusals of bit set / clear.  The invariant across block writes and the post-state of sanitise are
NOT proved (named `…_partial` below); they are covered by the correspondence run only.
-/
import Ufw.Props.C01

namespace Ufw.Props.C05
open Ufw Ufw.Model.RegTable Ufw.Lemmas.RegTable

/-- register `idx` holds a value that decodes and satisfies its own constraint -/
def Sat (cb : Nat → Value → Bool) (t : Table) (idx : Nat) : Prop :=
  ∃ e v, t.entries[idx]? = some e ∧ register_get t idx = (⟨.success, 0⟩, some v) ∧ rv_validate cb t e v = true

/-- two registers do not share storage -/
def Apart (e e' : Entry) : Prop :=
  e.area ≠ e'.area ∨ e.offset + e.type.size ≤ e'.offset ∨ e'.offset + e'.type.size ≤ e.offset

/-- the layout `register_init` establishes: distinct registers have distinct storage -/
def Layout (t : Table) : Prop :=
  ∀ (i j : Nat) (e e' : Entry), i ≠ j → t.entries[i]? = some e → t.entries[j]? = some e' → Apart e e'

/-- every refused checked operation leaves all storage (the whole table) unchanged: typed set -/
theorem set_refused_unchanged (cb : Nat → Value → Bool) (t : Table) (idx : Nat) (v : Value)
    (h : (register_set cb t idx v).1.code ≠ .success) : (register_set cb t idx v).2 = t :=
  Ufw.Props.C01.set_refused_unchanged cb t idx v true h

/-- a set to one register does not change what a get of another register returns -/
theorem set_other_get (cb : Nat → Value → Bool) (t t' : Table) (idx j : Nat) (v : Value) (wv : Bool) (adr : Nat)
    (h : register_setx cb t idx v wv = (⟨.success, adr⟩, t')) (hl : Layout t) (hij : idx ≠ j) :
    register_get t' j = register_get t j := by
  obtain ⟨hi, e, a, raw, a', he, _, ha, _, hs, hwr, ht'⟩ := Ufw.Props.C01.set_success_inv cb t t' idx v wv adr h
  subst ht'
  simp only [register_get, hi, Bool.not_true, Bool.false_eq_true, ↓reduceIte]
  cases hej : t.entries[j]? with
  | none => rfl
  | some e' =>
    simp only
    have hap := hl idx j e e' hij he hej
    by_cases hsame : e'.area = e.area
    · rw [hsame, set_getElem t.areas e.area a a' ha, ha]
      simp only
      have hlr := ser_length _ _ _ _ hs
      have : a'.read e'.offset e'.type.size = a.read e'.offset e'.type.size := by
        apply read_write_disjoint a a' e.offset raw hwr
        rw [hlr]
        rcases hap with h1 | h2 | h3
        · exact absurd hsame.symm h1
        · right; exact h2
        · left; exact h3
      rw [this]
    · have : (t.areas.set e.area a')[e'.area]? = t.areas[e'.area]? := by
        simp only [List.getElem?_set]
        split
        · rename_i hh; exact absurd hh.symm hsame
        · rfl
      rw [this]

/-- the invariant "every register satisfies its constraint" survives every typed set, accepted
    or refused -/
theorem set_preserves_sat (cb : Nat → Value → Bool) (t : Table) (idx : Nat) (v : Value) (hl : Layout t)
    (hb : v.bits < 2 ^ v.type.bits)
    (hinv : ∀ j, j < t.entries.length → Sat cb t j) :
    ∀ j, j < (register_set cb t idx v).2.entries.length → Sat cb (register_set cb t idx v).2 j := by
  rcases hres : register_set cb t idx v with ⟨⟨code, adr⟩, t'⟩
  by_cases hc : code = .success
  · subst hc
    obtain ⟨hi, e, a, raw, a', he, hval, ha, _, hs, hwr, ht'⟩ :=
      Ufw.Props.C01.set_success_inv cb t t' idx v true adr hres
    have hent : t'.entries = t.entries := by rw [ht']
    have hdi : t'.duringInit = t.duringInit := by rw [ht']
    intro j hj
    simp only [hent] at hj
    by_cases hij : idx = j
    · subst hij
      refine ⟨e, v, by rw [hent]; exact he, Ufw.Props.C01.checked_set_get cb t t' idx v adr hres hb, ?_⟩
      have := hval rfl
      simpa [rv_validate, hdi] using this
    · obtain ⟨e', v', he', hg', hv'⟩ := hinv j hj
      refine ⟨e', v', by rw [hent]; exact he', ?_, ?_⟩
      · rw [set_other_get cb t t' idx j v true adr hres hl hij]; exact hg'
      · simpa [rv_validate, hdi] using hv'
  · have : (register_set cb t idx v).2 = t := set_refused_unchanged cb t idx v (by rw [hres]; exact hc)
    rw [hres] at this
    simp only at this
    subst this
    exact hinv

/-- ... and the layout itself is not changed by a set, so the invariant carries through any
    sequence of typed sets -/
theorem set_keeps_layout (cb : Nat → Value → Bool) (t : Table) (idx : Nat) (v : Value) (hl : Layout t) :
    Layout (register_set cb t idx v).2 ∧ (register_set cb t idx v).2.entries = t.entries := by
  rcases hres : register_set cb t idx v with ⟨⟨code, adr⟩, t'⟩
  by_cases hc : code = .success
  · subst hc
    obtain ⟨_, _, _, _, _, _, _, _, _, _, _, ht'⟩ := Ufw.Props.C01.set_success_inv cb t t' idx v true adr hres
    subst ht'
    exact ⟨fun i j e e' hij h1 h2 => hl i j e e' hij h1 h2, rfl⟩
  · have : (register_set cb t idx v).2 = t := set_refused_unchanged cb t idx v (by rw [hres]; exact hc)
    rw [hres] at this
    simp only at this
    subst this
    exact ⟨hl, rfl⟩

/-- any history of typed sets from a state in which the invariant holds ends in such a state -/
theorem sets_preserve_sat (cb : Nat → Value → Bool) (ops : List (Nat × Value)) :
    ∀ (t : Table), Layout t → (∀ o ∈ ops, o.2.bits < 2 ^ o.2.type.bits) →
      (∀ j, j < t.entries.length → Sat cb t j) →
      let t' := ops.foldl (fun t o => (register_set cb t o.1 o.2).2) t
      ∀ j, j < t'.entries.length → Sat cb t' j := by
  induction ops with
  | nil => intro t _ _ h; exact h
  | cons o os ih =>
    intro t hl hb hinv
    simp only [List.foldl_cons]
    have hk := set_keeps_layout cb t o.1 o.2 hl
    exact ih _ hk.1 (fun x hx => hb x (List.mem_cons_of_mem _ hx))
      (set_preserves_sat cb t o.1 o.2 hl (hb o (List.mem_cons_self ..)) hinv)

/-! ### bit set / bit clear -/

/-- on an unsigned register and an operand of the register's type the bit operations are the typed
    set of (old OR mask) resp. (old AND NOT mask): exactly the requested bits change, and the result
    goes through the register's constraint like any other set -/
theorem bit_op_spec (cb : Nat → Value → Bool) (t : Table) (idx : Nat) (v reg : Value) (set : Bool) (adr : Nat)
    (hg : register_get t idx = (⟨.success, adr⟩, some reg)) (hty : reg.type = v.type)
    (hu : reg.type = .u16 ∨ reg.type = .u32 ∨ reg.type = .u64) :
    register_bit_op cb t idx v set =
      register_set cb t idx ⟨reg.type, if set then reg.bits ||| v.bits
                                         else reg.bits &&& (2 ^ reg.type.bits - 1 - v.bits % 2 ^ reg.type.bits)⟩ := by
  simp only [register_bit_op, hg]
  have : (reg.type != v.type) = false := by simp [hty]
  simp only [this, Bool.false_eq_true, ↓reduceIte]
  rcases hu with h | h | h <;> simp [h]

/-- signed and float registers and operands of another type are refused ('invalid'), table unchanged -/
theorem bit_op_refuses (cb : Nat → Value → Bool) (t : Table) (idx : Nat) (v reg : Value) (set : Bool) (adr : Nat)
    (hg : register_get t idx = (⟨.success, adr⟩, some reg))
    (hbad : reg.type ≠ v.type ∨ ¬ (reg.type = .u16 ∨ reg.type = .u32 ∨ reg.type = .u64)) :
    register_bit_op cb t idx v set = (⟨.invalid, idx⟩, t) := by
  simp only [register_bit_op, hg]
  by_cases hty : reg.type = v.type
  · have : (reg.type != v.type) = false := by simp [hty]
    simp only [this, Bool.false_eq_true, ↓reduceIte]
    rcases hbad with hb | hb
    · exact absurd hty hb
    · cases hrt : reg.type <;> simp_all
  · have : (reg.type != v.type) = true := by simp [hty]
    simp [this]

/-- every refused bit operation leaves the table unchanged -/
theorem bit_op_refused_unchanged (cb : Nat → Value → Bool) (t : Table) (idx : Nat) (v : Value) (set : Bool)
    (h : (register_bit_op cb t idx v set).1.code ≠ .success) : (register_bit_op cb t idx v set).2 = t := by
  simp only [register_bit_op] at h ⊢
  split
  · rename_i adr reg hg
    split
    · rfl
    · split
      · exact set_refused_unchanged cb t idx _ (by simp_all)
      · exact set_refused_unchanged cb t idx _ (by simp_all)
      · exact set_refused_unchanged cb t idx _ (by simp_all)
      · rfl
  · rfl

/-- what a successful get returns is a well-formed value of the register's type -/
theorem get_value_wf (t : Table) (idx : Nat) (reg : Value) (adr : Nat)
    (hg : register_get t idx = (⟨.success, adr⟩, some reg)) : reg.bits < 2 ^ reg.type.bits := by
  simp only [register_get] at hg
  split at hg
  · simp at hg
  split at hg
  · simp at hg
  rename_i e he
  split at hg
  · simp [oob] at hg
  rename_i a ha
  split at hg
  · simp [oob] at hg
  rename_i raw hr
  have hlen : e.type.size ≤ raw.length := by
    simp only [Area.read] at hr
    split at hr
    · simp only [Option.some.injEq] at hr
      rw [← hr, List.length_take, List.length_drop]; omega
    · simp at hr
  have hb := des_bits_lt t.bigEndian e.type raw hlen
  rcases hd : des t.bigEndian e.type raw with ⟨v, ok⟩
  rw [hd] at hg hb
  simp only at hg hb
  split at hg
  · simp only [Prod.mk.injEq, Option.some.injEq] at hg
    rw [← hg.2, hb.2]; exact hb.1
  · simp at hg

/-- the checked operations other than block write and sanitise -/
inductive Op
  | set (idx : Nat) (v : Value)
  | bitSet (idx : Nat) (mask : Value)
  | bitClear (idx : Nat) (mask : Value)

def Op.wf : Op → Prop
  | .set _ v | .bitSet _ v | .bitClear _ v => v.bits < 2 ^ v.type.bits

def step (cb : Nat → Value → Bool) (t : Table) : Op → Table
  | .set idx v => (register_set cb t idx v).2
  | .bitSet idx m => (register_bit_op cb t idx m true).2
  | .bitClear idx m => (register_bit_op cb t idx m false).2

/-- a bit operation either changes nothing or is one typed set of a well-formed value -/
theorem bit_op_is_set (cb : Nat → Value → Bool) (t : Table) (idx : Nat) (m : Value) (set : Bool)
    (hm : m.bits < 2 ^ m.type.bits) :
    (register_bit_op cb t idx m set).2 = t ∨
    ∃ v, v.bits < 2 ^ v.type.bits ∧ (register_bit_op cb t idx m set).2 = (register_set cb t idx v).2 := by
  simp only [register_bit_op]
  split
  · rename_i adr reg hg
    have hreg := get_value_wf t idx reg adr hg
    split
    · left; rfl
    · rename_i hty
      have hty' : reg.type = m.type := by simpa using hty
      have hnew : (if set then reg.bits ||| m.bits
          else reg.bits &&& (2 ^ reg.type.bits - 1 - m.bits % 2 ^ reg.type.bits)) < 2 ^ reg.type.bits := by
        split
        · exact Nat.or_lt_two_pow hreg (by rw [hty']; exact hm)
        · exact Nat.lt_of_le_of_lt Nat.and_le_left hreg
      split
      · right; exact ⟨_, hnew, rfl⟩
      · right; exact ⟨_, hnew, rfl⟩
      · right; exact ⟨_, hnew, rfl⟩
      · left; rfl
  · left; rfl

/-- the invariant over every history of typed sets, bit sets and bit clears -/
theorem history_preserves_sat (cb : Nat → Value → Bool) (ops : List Op) :
    ∀ (t : Table), Layout t → (∀ o ∈ ops, o.wf) → (∀ j, j < t.entries.length → Sat cb t j) →
      let t' := ops.foldl (step cb) t
      Layout t' ∧ ∀ j, j < t'.entries.length → Sat cb t' j := by
  induction ops with
  | nil => intro t hl _ h; exact ⟨hl, h⟩
  | cons o os ih =>
    intro t hl hw hinv
    simp only [List.foldl_cons]
    have how := hw o (List.mem_cons_self ..)
    have hrest : ∀ x ∈ os, x.wf := fun x hx => hw x (List.mem_cons_of_mem _ hx)
    have key : ∀ (idx : Nat) (v : Value), v.bits < 2 ^ v.type.bits →
        Layout (register_set cb t idx v).2 ∧
        ∀ j, j < (register_set cb t idx v).2.entries.length → Sat cb (register_set cb t idx v).2 j :=
      fun idx v hv => ⟨(set_keeps_layout cb t idx v hl).1, set_preserves_sat cb t idx v hl hv hinv⟩
    cases o with
    | set idx v =>
      obtain ⟨k1, k2⟩ := key idx v how
      exact ih _ k1 hrest k2
    | bitSet idx m =>
      rcases bit_op_is_set cb t idx m true how with h | ⟨v, hv, h⟩
      · simp only [step, h]; exact ih t hl hrest hinv
      · obtain ⟨k1, k2⟩ := key idx v hv
        simp only [step, h]; exact ih _ k1 hrest k2
    | bitClear idx m =>
      rcases bit_op_is_set cb t idx m false how with h | ⟨v, hv, h⟩
      · simp only [step, h]; exact ih t hl hrest hinv
      · obtain ⟨k1, k2⟩ := key idx v hv
        simp only [step, h]; exact ih _ k1 hrest k2

/-- every refused block write leaves the table unchanged -/
theorem block_write_refused_unchanged (cb : Nat → Value → Bool) (t : Table) (addr : Nat) (buf : List Atom)
    (h : (register_block_write cb t addr buf).1.code ≠ .success) : (register_block_write cb t addr buf).2 = t := by
  simp only [register_block_write] at h ⊢
  split
  · rfl
  split
  · rfl
  split
  · split
    · split
      · split
        · rename_i h1 h2 h3 t' h4
          simp_all
        · rfl
      · rfl
    · rfl
  · rfl

end Ufw.Props.C05
