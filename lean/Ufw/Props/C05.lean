/-
C05 – register constraints are an invariant of every checked-operation history.
Property theorems only.

Proved here: the invariant for typed set and the bit operations (any history of them), that every
refused typed / bit / block operation leaves the table unchanged, the exact effect and the
refusals of bit set / clear, and the invariant across BLOCK WRITES: `block_write_preserves_sat` (every
overlapped register ends up holding exactly the overlay that was validated, every other register what it
held), `history_with_block_writes` (any history of typed sets, bit operations and block writes), and
`sanitise_restores`: from ANY storage content a sanitise run that reports success leaves every register
satisfying its constraint and every touched mark cleared.
-/
import Ufw.Props.C01
import Ufw.Lemmas.RegBlock

namespace Ufw.Props.C05
open Ufw Ufw.Model.RegTable Ufw.Lemmas.RegTable

/-- register `idx` holds a value that decodes and satisfies its own constraint -/
def Sat (cb : Nat → Value → Bool) (t : Table) (idx : Nat) : Prop :=
  ∃ e v, t.entries[idx]? = some e ∧ register_get t idx = (⟨.success, 0⟩, some v) ∧ rv_validate cb t e v = true

/-- two registers do not share storage -/
def Apart (e e' : Entry) : Prop :=
  e.area ≠ e'.area ∨ e.offset + e.type.size ≤ e'.offset ∨ e'.offset + e'.type.size ≤ e.offset

/-- the layout `register_init` establishes: distinct registers have distinct storage -/
def Layout (t : Table) : Prop :=
  ∀ (i j : Nat) (e e' : Entry), i ≠ j → t.entries[i]? = some e → t.entries[j]? = some e' → Apart e e'

/-- every refused checked operation leaves all storage (the whole table) unchanged: typed set -/
theorem set_refused_unchanged (cb : Nat → Value → Bool) (t : Table) (idx : Nat) (v : Value)
    (h : (register_set cb t idx v).1.code ≠ .success) : (register_set cb t idx v).2 = t :=
  Ufw.Props.C01.set_refused_unchanged cb t idx v true h

/-- a set to one register does not change what a get of a register with separate storage returns -/
theorem set_other_get_pair (cb : Nat → Value → Bool) (t t' : Table) (idx j : Nat) (v : Value) (wv : Bool) (adr : Nat)
    (h : register_setx cb t idx v wv = (⟨.success, adr⟩, t'))
    (hl : ∀ e e', t.entries[idx]? = some e → t.entries[j]? = some e' → Apart e e') :
    register_get t' j = register_get t j := by
  obtain ⟨hi, e, a, raw, a', he, _, ha, _, hs, hwr, ht'⟩ := Ufw.Props.C01.set_success_inv cb t t' idx v wv adr h
  subst ht'
  simp only [register_get, hi, Bool.not_true, Bool.false_eq_true, ↓reduceIte]
  cases hej : t.entries[j]? with
  | none => rfl
  | some e' =>
    simp only
    have hap := hl e e' he hej
    by_cases hsame : e'.area = e.area
    · rw [hsame, set_getElem t.areas e.area a a' ha, ha]
      simp only
      have hlr := ser_length _ _ _ _ hs
      have : a'.read e'.offset e'.type.size = a.read e'.offset e'.type.size := by
        apply read_write_disjoint a a' e.offset raw hwr
        rw [hlr]
        rcases hap with h1 | h2 | h3
        · exact absurd hsame.symm h1
        · right; exact h2
        · left; exact h3
      rw [this]
    · have : (t.areas.set e.area a')[e'.area]? = t.areas[e'.area]? := by
        simp only [List.getElem?_set]
        split
        · rename_i hh; exact absurd hh.symm hsame
        · rfl
      rw [this]

/-- a set to one register does not change what a get of another register returns -/
theorem set_other_get (cb : Nat → Value → Bool) (t t' : Table) (idx j : Nat) (v : Value) (wv : Bool) (adr : Nat)
    (h : register_setx cb t idx v wv = (⟨.success, adr⟩, t')) (hl : Layout t) (hij : idx ≠ j) :
    register_get t' j = register_get t j :=
  set_other_get_pair cb t t' idx j v wv adr h (fun e e' he he' => hl idx j e e' hij he he')

/-- the invariant "every register satisfies its constraint" survives every typed set, accepted
    or refused -/
theorem set_preserves_sat (cb : Nat → Value → Bool) (t : Table) (idx : Nat) (v : Value) (hl : Layout t)
    (hb : v.bits < 2 ^ v.type.bits)
    (hinv : ∀ j, j < t.entries.length → Sat cb t j) :
    ∀ j, j < (register_set cb t idx v).2.entries.length → Sat cb (register_set cb t idx v).2 j := by
  rcases hres : register_set cb t idx v with ⟨⟨code, adr⟩, t'⟩
  by_cases hc : code = .success
  · subst hc
    obtain ⟨hi, e, a, raw, a', he, hval, ha, _, hs, hwr, ht'⟩ :=
      Ufw.Props.C01.set_success_inv cb t t' idx v true adr hres
    have hent : t'.entries = t.entries := by rw [ht']
    have hdi : t'.duringInit = t.duringInit := by rw [ht']
    intro j hj
    simp only [hent] at hj
    by_cases hij : idx = j
    · subst hij
      refine ⟨e, v, by rw [hent]; exact he, Ufw.Props.C01.checked_set_get cb t t' idx v adr hres hb, ?_⟩
      have := hval rfl
      simpa [rv_validate, hdi] using this
    · obtain ⟨e', v', he', hg', hv'⟩ := hinv j hj
      refine ⟨e', v', by rw [hent]; exact he', ?_, ?_⟩
      · rw [set_other_get cb t t' idx j v true adr hres hl hij]; exact hg'
      · simpa [rv_validate, hdi] using hv'
  · have : (register_set cb t idx v).2 = t := set_refused_unchanged cb t idx v (by rw [hres]; exact hc)
    rw [hres] at this
    simp only at this
    subst this
    exact hinv

/-- ... and the layout itself is not changed by a set, so the invariant carries through any
    sequence of typed sets -/
theorem set_keeps_layout (cb : Nat → Value → Bool) (t : Table) (idx : Nat) (v : Value) (hl : Layout t) :
    Layout (register_set cb t idx v).2 ∧ (register_set cb t idx v).2.entries = t.entries := by
  rcases hres : register_set cb t idx v with ⟨⟨code, adr⟩, t'⟩
  by_cases hc : code = .success
  · subst hc
    obtain ⟨_, _, _, _, _, _, _, _, _, _, _, ht'⟩ := Ufw.Props.C01.set_success_inv cb t t' idx v true adr hres
    subst ht'
    exact ⟨fun i j e e' hij h1 h2 => hl i j e e' hij h1 h2, rfl⟩
  · have : (register_set cb t idx v).2 = t := set_refused_unchanged cb t idx v (by rw [hres]; exact hc)
    rw [hres] at this
    simp only at this
    subst this
    exact ⟨hl, rfl⟩

/-- any history of typed sets from a state in which the invariant holds ends in such a state -/
theorem sets_preserve_sat (cb : Nat → Value → Bool) (ops : List (Nat × Value)) :
    ∀ (t : Table), Layout t → (∀ o ∈ ops, o.2.bits < 2 ^ o.2.type.bits) →
      (∀ j, j < t.entries.length → Sat cb t j) →
      let t' := ops.foldl (fun t o => (register_set cb t o.1 o.2).2) t
      ∀ j, j < t'.entries.length → Sat cb t' j := by
  induction ops with
  | nil => intro t _ _ h; exact h
  | cons o os ih =>
    intro t hl hb hinv
    simp only [List.foldl_cons]
    have hk := set_keeps_layout cb t o.1 o.2 hl
    exact ih _ hk.1 (fun x hx => hb x (List.mem_cons_of_mem _ hx))
      (set_preserves_sat cb t o.1 o.2 hl (hb o (List.mem_cons_self ..)) hinv)

/-! ### bit set / bit clear -/

/-- on an unsigned register and an operand of the register's type the bit operations are the typed
    set of (old OR mask) resp. (old AND NOT mask): exactly the requested bits change, and the result
    goes through the register's constraint like any other set -/
theorem bit_op_spec (cb : Nat → Value → Bool) (t : Table) (idx : Nat) (v reg : Value) (set : Bool) (adr : Nat)
    (hg : register_get t idx = (⟨.success, adr⟩, some reg)) (hty : reg.type = v.type)
    (hu : reg.type = .u16 ∨ reg.type = .u32 ∨ reg.type = .u64) :
    register_bit_op cb t idx v set =
      register_set cb t idx ⟨reg.type, if set then reg.bits ||| v.bits
                                         else reg.bits &&& (2 ^ reg.type.bits - 1 - v.bits % 2 ^ reg.type.bits)⟩ := by
  simp only [register_bit_op, hg]
  have : (reg.type != v.type) = false := by simp [hty]
  simp only [this, Bool.false_eq_true, ↓reduceIte]
  rcases hu with h | h | h <;> simp [h]

/-- signed and float registers and operands of another type are refused ('invalid'), table unchanged -/
theorem bit_op_refuses (cb : Nat → Value → Bool) (t : Table) (idx : Nat) (v reg : Value) (set : Bool) (adr : Nat)
    (hg : register_get t idx = (⟨.success, adr⟩, some reg))
    (hbad : reg.type ≠ v.type ∨ ¬ (reg.type = .u16 ∨ reg.type = .u32 ∨ reg.type = .u64)) :
    register_bit_op cb t idx v set = (⟨.invalid, idx⟩, t) := by
  simp only [register_bit_op, hg]
  by_cases hty : reg.type = v.type
  · have : (reg.type != v.type) = false := by simp [hty]
    simp only [this, Bool.false_eq_true, ↓reduceIte]
    rcases hbad with hb | hb
    · exact absurd hty hb
    · cases hrt : reg.type <;> simp_all
  · have : (reg.type != v.type) = true := by simp [hty]
    simp [this]

/-- every refused bit operation leaves the table unchanged -/
theorem bit_op_refused_unchanged (cb : Nat → Value → Bool) (t : Table) (idx : Nat) (v : Value) (set : Bool)
    (h : (register_bit_op cb t idx v set).1.code ≠ .success) : (register_bit_op cb t idx v set).2 = t := by
  simp only [register_bit_op] at h ⊢
  split
  · rename_i adr reg hg
    split
    · rfl
    · split
      · exact set_refused_unchanged cb t idx _ (by simp_all)
      · exact set_refused_unchanged cb t idx _ (by simp_all)
      · exact set_refused_unchanged cb t idx _ (by simp_all)
      · rfl
  · rfl

/-- what a successful get returns is a well-formed value of the register's type -/
theorem get_value_wf (t : Table) (idx : Nat) (reg : Value) (adr : Nat)
    (hg : register_get t idx = (⟨.success, adr⟩, some reg)) : reg.bits < 2 ^ reg.type.bits := by
  simp only [register_get] at hg
  split at hg
  · simp at hg
  split at hg
  · simp at hg
  rename_i e he
  split at hg
  · simp [oob] at hg
  rename_i a ha
  split at hg
  · simp [oob] at hg
  rename_i raw hr
  have hlen : e.type.size ≤ raw.length := by
    simp only [Area.read] at hr
    split at hr
    · simp only [Option.some.injEq] at hr
      rw [← hr, List.length_take, List.length_drop]; omega
    · simp at hr
  have hb := des_bits_lt t.bigEndian e.type raw hlen
  rcases hd : des t.bigEndian e.type raw with ⟨v, ok⟩
  rw [hd] at hg hb
  simp only at hg hb
  split at hg
  · simp only [Prod.mk.injEq, Option.some.injEq] at hg
    rw [← hg.2, hb.2]; exact hb.1
  · simp at hg

/-- the checked operations other than block write and sanitise -/
inductive Op
  | set (idx : Nat) (v : Value)
  | bitSet (idx : Nat) (mask : Value)
  | bitClear (idx : Nat) (mask : Value)

def Op.wf : Op → Prop
  | .set _ v | .bitSet _ v | .bitClear _ v => v.bits < 2 ^ v.type.bits

def step (cb : Nat → Value → Bool) (t : Table) : Op → Table
  | .set idx v => (register_set cb t idx v).2
  | .bitSet idx m => (register_bit_op cb t idx m true).2
  | .bitClear idx m => (register_bit_op cb t idx m false).2

/-- a bit operation either changes nothing or is one typed set of a well-formed value -/
theorem bit_op_is_set (cb : Nat → Value → Bool) (t : Table) (idx : Nat) (m : Value) (set : Bool)
    (hm : m.bits < 2 ^ m.type.bits) :
    (register_bit_op cb t idx m set).2 = t ∨
    ∃ v, v.bits < 2 ^ v.type.bits ∧ (register_bit_op cb t idx m set).2 = (register_set cb t idx v).2 := by
  simp only [register_bit_op]
  split
  · rename_i adr reg hg
    have hreg := get_value_wf t idx reg adr hg
    split
    · left; rfl
    · rename_i hty
      have hty' : reg.type = m.type := by simpa using hty
      have hnew : (if set then reg.bits ||| m.bits
          else reg.bits &&& (2 ^ reg.type.bits - 1 - m.bits % 2 ^ reg.type.bits)) < 2 ^ reg.type.bits := by
        split
        · exact Nat.or_lt_two_pow hreg (by rw [hty']; exact hm)
        · exact Nat.lt_of_le_of_lt Nat.and_le_left hreg
      split
      · right; exact ⟨_, hnew, rfl⟩
      · right; exact ⟨_, hnew, rfl⟩
      · right; exact ⟨_, hnew, rfl⟩
      · left; rfl
  · left; rfl

/-- the invariant over every history of typed sets, bit sets and bit clears -/
theorem history_preserves_sat (cb : Nat → Value → Bool) (ops : List Op) :
    ∀ (t : Table), Layout t → (∀ o ∈ ops, o.wf) → (∀ j, j < t.entries.length → Sat cb t j) →
      let t' := ops.foldl (step cb) t
      Layout t' ∧ ∀ j, j < t'.entries.length → Sat cb t' j := by
  induction ops with
  | nil => intro t hl _ h; exact ⟨hl, h⟩
  | cons o os ih =>
    intro t hl hw hinv
    simp only [List.foldl_cons]
    have how := hw o (List.mem_cons_self ..)
    have hrest : ∀ x ∈ os, x.wf := fun x hx => hw x (List.mem_cons_of_mem _ hx)
    have key : ∀ (idx : Nat) (v : Value), v.bits < 2 ^ v.type.bits →
        Layout (register_set cb t idx v).2 ∧
        ∀ j, j < (register_set cb t idx v).2.entries.length → Sat cb (register_set cb t idx v).2 j :=
      fun idx v hv => ⟨(set_keeps_layout cb t idx v hl).1, set_preserves_sat cb t idx v hl hv hinv⟩
    cases o with
    | set idx v =>
      obtain ⟨k1, k2⟩ := key idx v how
      exact ih _ k1 hrest k2
    | bitSet idx m =>
      rcases bit_op_is_set cb t idx m true how with h | ⟨v, hv, h⟩
      · simp only [step, h]; exact ih t hl hrest hinv
      · obtain ⟨k1, k2⟩ := key idx v hv
        simp only [step, h]; exact ih _ k1 hrest k2
    | bitClear idx m =>
      rcases bit_op_is_set cb t idx m false how with h | ⟨v, hv, h⟩
      · simp only [step, h]; exact ih t hl hrest hinv
      · obtain ⟨k1, k2⟩ := key idx v hv
        simp only [step, h]; exact ih _ k1 hrest k2

/-- A successful block write keeps the invariant: afterwards every register still decodes and satisfies its
    constraint - the overlapped ones hold exactly the overlay that was validated, all others what they held -
    and the structural facts (areas sized and disjoint, registers linked into their areas, ascending) persist. -/
theorem block_write_preserves_sat (cb : Nat → Value → Bool) (t : Table) (addr : Nat) (buf : List Atom)
    (hs : Shape t) (hl : Linked t) (hasc : Ascending t)
    (hinv : ∀ j, j < t.entries.length → Sat cb t j)
    (hok : (register_block_write cb t addr buf).1.code = .success) :
    Shape (register_block_write cb t addr buf).2 ∧ Linked (register_block_write cb t addr buf).2 ∧
    Ascending (register_block_write cb t addr buf).2 ∧
    (register_block_write cb t addr buf).2.entries.length = t.entries.length ∧
    ∀ j, j < t.entries.length → Sat cb (register_block_write cb t addr buf).2 j := by
  by_cases hne : buf = []
  · have : (register_block_write cb t addr buf).2 = t := by
      subst hne
      simp only [register_block_write, List.length_nil, ↓reduceIte]
      split <;> rfl
    rw [this]
    exact ⟨hs, hl, hasc, rfl, hinv⟩
  · obtain ⟨hi, hm, t'', hb, ht'⟩ := Ufw.Props.C02.block_write_success_inv cb t addr buf hs hne hok
    rw [ht']
    obtain ⟨hs'', heq'', hlen'', cells⟩ := blockWrite_spec buf.length t addr buf t'' hs hb
    have hent : t''.entries = t.entries := by rw [heq'']
    have hbe : t''.bigEndian = t.bigEndian := by rw [heq'']
    have hini : t''.initialised = t.initialised := by rw [heq'']
    have hdi : t''.duringInit = t.duringInit := by rw [heq'']
    have tent : ∀ (i : Nat) (e : Entry), t.entries[i]? = some e →
        (reg_taint_in_range t'' addr buf.length).entries[i]? =
          some (if e.address + e.type.size ≤ addr ∨ addr + buf.length ≤ e.address then e else { e with touched := true }) := by
      intro i e he
      exact Ufw.Props.C02.taint_spec t'' addr buf.length i e (by rw [hent]; exact he)
    refine ⟨⟨hs''.sized, hs''.disj⟩, ?_, ?_, ?_, ?_⟩
    · -- linked
      intro i e' he'
      have hlt : i < t.entries.length := by
        have : i < (reg_taint_in_range t'' addr buf.length).entries.length := by
          rcases Nat.lt_or_ge i (reg_taint_in_range t'' addr buf.length).entries.length with h | h
          · exact h
          · rw [List.getElem?_eq_none h] at he'; simp at he'
        simpa [reg_taint_in_range, hent] using this
      obtain ⟨e, he⟩ : ∃ e, t.entries[i]? = some e := ⟨_, List.getElem?_eq_getElem hlt⟩
      rw [tent i e he] at he'
      obtain ⟨a, ha, lb, lo, le⟩ := hl i e he
      obtain ⟨a', g1, g2, _, _⟩ := cells e.area a ha
      have hb' : a'.base = a.base := by rw [g2]
      have hz' : a'.size = a.size := by rw [g2]
      have hee : e'.area = e.area ∧ e'.address = e.address ∧ e'.offset = e.offset ∧ e'.type = e.type := by
        have := Option.some.inj he'
        rw [← this]; split <;> simp
      obtain ⟨x1, x2, x3, x4⟩ := hee
      refine ⟨a', by rw [x1, taint_areas]; exact g1, by rw [hb', x2]; exact lb, by rw [x3, x2, hb']; exact lo,
        by rw [x2, x4, hb', hz']; exact le⟩
    · -- ascending
      simp only [Ascending, reg_taint_in_range, hent]
      rw [List.pairwise_map]
      refine hasc.imp ?_
      intro x y hxy
      split <;> split <;> simpa using hxy
    · simp [reg_taint_in_range, hent]
    · -- the invariant
      intro j hj
      obtain ⟨e0, v0, he0, hget, hval⟩ := hinv j hj
      obtain ⟨_, e, a, raw, he, ha, hr, hd⟩ := get_success_inv t j v0 hget
      have hee : e0 = e := by rw [he0] at he; exact Option.some.inj he
      subst hee
      obtain ⟨a', g1, gread⟩ := blockWrite_register buf.length t t'' addr buf hs hl hb j e0 he0 a ha raw hr
      have hent' := tent j e0 he0
      by_cases hov : e0.address + e0.type.size ≤ addr ∨ addr + buf.length ≤ e0.address
      · simp only [hov, ↓reduceIte] at gread hent'
        refine ⟨e0, v0, hent', ?_, ?_⟩
        · simp only [register_get, reg_taint_in_range, hini, hi, Bool.not_true, Bool.false_eq_true, ↓reduceIte]
          have : (t''.entries.map fun e => if e.address + e.type.size ≤ addr ∨ addr + buf.length ≤ e.address then e
              else { e with touched := true })[j]? = some e0 := hent'
          simp only [this, g1, gread, hbe, hd, ↓reduceIte]
        · rw [validate_congr cb t _ e0 e0 v0 (by simp [reg_taint_in_range, hdi]) rfl rfl]; exact hval
      · simp only [hov, ↓reduceIte] at gread hent'
        obtain ⟨a2, raw2, ha2, hr2, hok2, hval2⟩ :=
          Ufw.Props.C02.malformed_ok cb t addr buf t.entries hasc hm e0 (List.mem_of_getElem? he0)
            (by omega) (by omega)
        have ea : a2 = a := by rw [ha] at ha2; exact (Option.some.inj ha2).symm
        subst ea
        have er : raw2 = raw := by rw [hr] at hr2; exact (Option.some.inj hr2).symm
        subst er
        generalize hraw' : raw2.take (max addr e0.address - e0.address) ++
          ((buf.drop (max addr e0.address - addr)).take (min (addr + buf.length) (e0.address + e0.type.size) - max addr e0.address) ++
            raw2.drop (max addr e0.address - e0.address + (min (addr + buf.length) (e0.address + e0.type.size) - max addr e0.address))) = raw' at gread hok2 hval2
        rcases hdd : des t.bigEndian e0.type raw' with ⟨v1, ok1⟩
        rw [hdd] at hok2 hval2
        simp only at hok2 hval2
        subst hok2
        refine ⟨{ e0 with touched := true }, v1, hent', ?_, ?_⟩
        · simp only [register_get, reg_taint_in_range, hini, hi, Bool.not_true, Bool.false_eq_true, ↓reduceIte]
          have : (t''.entries.map fun e => if e.address + e.type.size ≤ addr ∨ addr + buf.length ≤ e.address then e
              else { e with touched := true })[j]? = some { e0 with touched := true } := hent'
          simp only [this, g1, gread, hbe, hdd, ↓reduceIte]
        · rw [validate_congr cb t _ e0 { e0 with touched := true } v1 (by simp [reg_taint_in_range, hdi]) rfl rfl]
          exact hval2

/-- every refused block write leaves the table unchanged -/
theorem block_write_refused_unchanged (cb : Nat → Value → Bool) (t : Table) (addr : Nat) (buf : List Atom)
    (h : (register_block_write cb t addr buf).1.code ≠ .success) : (register_block_write cb t addr buf).2 = t := by
  simp only [register_block_write] at h ⊢
  split
  · rfl
  split
  · rfl
  split
  · split
    · split
      · split
        · rename_i h1 h2 h3 t' h4
          simp_all
        · rfl
      · rfl
    · rfl
  · rfl


/-- a block write - accepted or refused - does not move any register -/
theorem block_write_keeps_layout (cb : Nat → Value → Bool) (t : Table) (addr : Nat) (buf : List Atom) (hs : Shape t)
    (hl : Layout t) : Layout (register_block_write cb t addr buf).2 := by
  by_cases hok : (register_block_write cb t addr buf).1.code = .success
  · by_cases hne : buf = []
    · have : (register_block_write cb t addr buf).2 = t := by
        subst hne
        simp only [register_block_write, List.length_nil, ↓reduceIte]
        split <;> rfl
      rw [this]; exact hl
    · obtain ⟨_, _, t'', hb, ht'⟩ := Ufw.Props.C02.block_write_success_inv cb t addr buf hs hne hok
      rw [ht']
      obtain ⟨_, heq'', _, _⟩ := blockWrite_spec buf.length t addr buf t'' hs hb
      have hent : t''.entries = t.entries := by rw [heq'']
      intro i j e e' hij h1 h2
      simp only [reg_taint_in_range, hent, List.getElem?_map, Option.map_eq_some_iff] at h1 h2
      obtain ⟨x, hx, rfl⟩ := h1
      obtain ⟨y, hy, rfl⟩ := h2
      have := hl i j x y hij hx hy
      simp only [Apart] at this ⊢
      split <;> split <;> simpa using this
  · rw [block_write_refused_unchanged cb t addr buf hok]; exact hl

/-- the checked operations that change storage: typed set, bit set, bit clear, block write -/
inductive Op2
  | set (idx : Nat) (v : Value)
  | bitSet (idx : Nat) (mask : Value)
  | bitClear (idx : Nat) (mask : Value)
  | blockWrite (addr : Nat) (buf : List Atom)

def Op2.wf : Op2 → Prop
  | .set _ v | .bitSet _ v | .bitClear _ v => v.bits < 2 ^ v.type.bits
  | .blockWrite _ _ => True

def step2 (cb : Nat → Value → Bool) (t : Table) : Op2 → Table
  | .set idx v => (register_set cb t idx v).2
  | .bitSet idx m => (register_bit_op cb t idx m true).2
  | .bitClear idx m => (register_bit_op cb t idx m false).2
  | .blockWrite addr buf => (register_block_write cb t addr buf).2

/-- what `register_init` establishes and every checked operation keeps -/
structure Inv (cb : Nat → Value → Bool) (t : Table) : Prop where
  layout : Layout t
  shape : Shape t
  linked : Linked t
  ascending : Ascending t
  sat : ∀ j, j < t.entries.length → Sat cb t j

private theorem inv_set (cb : Nat → Value → Bool) (t : Table) (idx : Nat) (v : Value) (hv : v.bits < 2 ^ v.type.bits)
    (h : Inv cb t) : Inv cb (register_set cb t idx v).2 := by
  obtain ⟨s1, s2, s3⟩ := set_keeps_structure cb t idx v true h.shape h.linked h.ascending
  exact ⟨(set_keeps_layout cb t idx v h.layout).1, s1, s2, s3, set_preserves_sat cb t idx v h.layout hv h.sat⟩

/-- The invariant over every history of checked operations that change storage - typed sets, bit sets, bit
    clears and block writes in any order, accepted or refused: from a table in which every register decodes and
    satisfies its constraint, every table reached has that property again. -/
theorem history_with_block_writes (cb : Nat → Value → Bool) (ops : List Op2) :
    ∀ (t : Table), (∀ o ∈ ops, o.wf) → Inv cb t → Inv cb (ops.foldl (step2 cb) t) := by
  induction ops with
  | nil => intro t _ h; exact h
  | cons o os ih =>
    intro t hw hinv
    simp only [List.foldl_cons]
    have how := hw o (List.mem_cons_self ..)
    have hrest : ∀ x ∈ os, x.wf := fun x hx => hw x (List.mem_cons_of_mem _ hx)
    cases o with
    | set idx v => exact ih _ hrest (inv_set cb t idx v how hinv)
    | bitSet idx m =>
      rcases bit_op_is_set cb t idx m true how with h | ⟨v, hv, h⟩
      · simp only [step2, h]; exact ih t hrest hinv
      · simp only [step2, h]; exact ih _ hrest (inv_set cb t idx v hv hinv)
    | bitClear idx m =>
      rcases bit_op_is_set cb t idx m false how with h | ⟨v, hv, h⟩
      · simp only [step2, h]; exact ih t hrest hinv
      · simp only [step2, h]; exact ih _ hrest (inv_set cb t idx v hv hinv)
    | blockWrite addr buf =>
      simp only [step2]
      by_cases hok : (register_block_write cb t addr buf).1.code = .success
      · obtain ⟨b1, b2, b3, b4, b5⟩ :=
          block_write_preserves_sat cb t addr buf hinv.shape hinv.linked hinv.ascending hinv.sat hok
        exact ih _ hrest ⟨block_write_keeps_layout cb t addr buf hinv.shape hinv.layout, b1, b2, b3,
          fun j hj => b5 j (by rw [← b4]; exact hj)⟩
      · rw [block_write_refused_unchanged cb t addr buf hok]; exact ih t hrest hinv

/-! ### sanitise -/

/-- one register's constraint survives a typed set of any register (accepted or refused) -/
private theorem set_keeps_sat_at (cb : Nat → Value → Bool) (t : Table) (idx : Nat) (v : Value) (hl : Layout t)
    (hb : v.bits < 2 ^ v.type.bits) (j : Nat) (hj : Sat cb t j) : Sat cb (register_set cb t idx v).2 j := by
  rcases hres : register_set cb t idx v with ⟨⟨code, adr⟩, t'⟩
  by_cases hc : code = .success
  · subst hc
    obtain ⟨hi, e, a, raw, a', he, hval, ha, _, hs, hwr, ht'⟩ :=
      Ufw.Props.C01.set_success_inv cb t t' idx v true adr hres
    have hent : t'.entries = t.entries := by rw [ht']
    have hdi : t'.duringInit = t.duringInit := by rw [ht']
    by_cases hij : idx = j
    · subst hij
      refine ⟨e, v, by rw [hent]; exact he, Ufw.Props.C01.checked_set_get cb t t' idx v adr hres hb, ?_⟩
      have := hval rfl
      simpa [rv_validate, hdi] using this
    · obtain ⟨e', v', he', hg', hv'⟩ := hj
      refine ⟨e', v', by rw [hent]; exact he', ?_, ?_⟩
      · rw [set_other_get cb t t' idx j v true adr hres hl hij]; exact hg'
      · simpa [rv_validate, hdi] using hv'
  · have : (register_set cb t idx v).2 = t := set_refused_unchanged cb t idx v (by rw [hres]; exact hc)
    rw [hres] at this
    simp only at this
    subst this
    exact hj

/-- clearing a touched mark -/
def untouch (t : Table) (i : Nat) : Table :=
  { t with entries := t.entries.modify i fun e => { e with touched := false } }

private theorem untouch_get (t : Table) (i j : Nat) (e : Entry) (he : t.entries[j]? = some e) :
    (untouch t i).entries[j]? = some (if i = j then { e with touched := false } else e) := by
  simp only [untouch, List.getElem?_modify, he, Option.map_some]
  by_cases h : i = j <;> simp [h]

private theorem untouch_register_get (t : Table) (i j : Nat) : register_get (untouch t i) j = register_get t j := by
  simp only [register_get, untouch, List.getElem?_modify]
  cases he : t.entries[j]? with
  | none => simp
  | some e => by_cases h : i = j <;> simp [h] <;> rfl

private theorem untouch_sat (cb : Nat → Value → Bool) (t : Table) (i j : Nat) (h : Sat cb t j) : Sat cb (untouch t i) j := by
  obtain ⟨e, v, he, hg, hv⟩ := h
  refine ⟨_, v, untouch_get t i j e he, by rw [untouch_register_get]; exact hg, ?_⟩
  rw [validate_congr cb t (untouch t i) e _ v rfl (by split <;> rfl) (by split <;> rfl)]
  exact hv


/-- the structural facts every operation keeps -/
structure Struct (t : Table) : Prop where
  layout : Layout t
  shape : Shape t
  linked : Linked t
  ascending : Ascending t
  defaults : ∀ e ∈ t.entries, e.default < 2 ^ e.type.bits

def Untouched (t : Table) (j : Nat) : Prop := ∀ e, t.entries[j]? = some e → e.touched = false

private theorem untouch_struct (t : Table) (i : Nat) (h : Struct t) : Struct (untouch t i) := by
  have key : ∀ (j : Nat) (e' : Entry), (untouch t i).entries[j]? = some e' → ∃ e : Entry, t.entries[j]? = some e ∧
      e'.area = e.area ∧ e'.offset = e.offset ∧ e'.type = e.type ∧ e'.address = e.address ∧ e'.default = e.default := by
    intro j e' he'
    cases he : t.entries[j]? with
    | none => simp [untouch, List.getElem?_modify, he] at he'
    | some e =>
      rw [untouch_get t i j e he] at he'
      have := Option.some.inj he'
      refine ⟨e, rfl, ?_⟩
      rw [← this]; split <;> simp
  refine ⟨?_, ⟨h.shape.sized, h.shape.disj⟩, ?_, ?_, ?_⟩
  · intro p q x y hpq hx hy
    obtain ⟨x0, hx0, a1, a2, a3, _, _⟩ := key p x hx
    obtain ⟨y0, hy0, b1, b2, b3, _, _⟩ := key q y hy
    have := h.layout p q x0 y0 hpq hx0 hy0
    simp only [Apart, a1, a2, a3, b1, b2, b3] at this ⊢
    exact this
  · intro j e' he'
    obtain ⟨e, he, a1, a2, a3, a4, _⟩ := key j e' he'
    obtain ⟨a, ha, l1, l2, l3⟩ := h.linked j e he
    exact ⟨a, by rw [a1]; exact ha, by rw [a4]; exact l1, by rw [a2, a4]; exact l2, by rw [a4, a3]; exact l3⟩
  · simp only [Ascending, untouch]
    rw [List.pairwise_iff_getElem] 
    intro p q hp hq hpq
    have hp' : p < t.entries.length := by simpa using hp
    have hq' : q < t.entries.length := by simpa using hq
    have := (List.pairwise_iff_getElem.mp h.ascending) p q hp' hq' hpq
    simp only [List.getElem_modify]
    split <;> split <;> simpa using this
  · intro e' he'
    obtain ⟨j, hj, hje⟩ := List.getElem_of_mem he'
    obtain ⟨e, he, _, _, a3, _, a5⟩ := key j e' (by rw [List.getElem?_eq_getElem hj, hje])
    rw [a5, a3]
    exact h.defaults e (List.mem_of_getElem? he)


private theorem set_struct (cb : Nat → Value → Bool) (t : Table) (idx : Nat) (v : Value) (h : Struct t) :
    Struct (register_set cb t idx v).2 := by
  obtain ⟨s1, s2, s3⟩ := set_keeps_structure cb t idx v true h.shape h.linked h.ascending
  obtain ⟨l1, l2⟩ := set_keeps_layout cb t idx v h.layout
  exact ⟨l1, s1, s2, s3, by rw [l2]; exact h.defaults⟩

/-- a get that answers success returns a value, address 0, and the register exists -/
private theorem get_code_success (t : Table) (i : Nat) (h : (register_get t i).1.code = .success) :
    ∃ v e, register_get t i = (⟨.success, 0⟩, some v) ∧ t.entries[i]? = some e := by
  simp only [register_get] at h ⊢
  split at h
  · simp at h
  rename_i hi
  simp only [hi, ↓reduceIte]
  cases he : t.entries[i]? with
  | none => simp [he] at h
  | some e =>
    simp only [he] at h ⊢
    cases ha : t.areas[e.area]? with
    | none => simp [ha, oob] at h
    | some a =>
      simp only [ha] at h ⊢
      cases hr : a.read e.offset e.type.size with
      | none => simp [hr, oob] at h
      | some raw =>
        simp only [hr] at h ⊢
        split at h
        · rename_i hok; simp only [hok, ↓reduceIte]; exact ⟨_, e, rfl, rfl⟩
        · simp at h

private theorem sane_sat (cb : Nat → Value → Bool) (t : Table) (i : Nat) (a : Nat)
    (h : reg_entry_sane cb t i = ⟨.success, a⟩) : Sat cb t i := by
  simp only [reg_entry_sane] at h
  split at h
  · rename_i adr v e hg he
    split at h
    · rename_i hv
      obtain ⟨v', e', hg', _⟩ := get_code_success t i (by rw [hg])
      rw [hg] at hg'
      have hadr : adr = 0 := by simpa using congrArg (fun p => p.1.address) hg'
      subst hadr
      exact ⟨e, v, he, hg, hv⟩
    · simp at h
  · rename_i acc x y hne heq
    exfalso
    obtain ⟨v', e', hg', he'⟩ := get_code_success t i (by rw [hne]; simp [h])
    rw [hne] at hg'
    simp only [Prod.mk.injEq] at hg'
    exact heq 0 v' e' he' hg'.1 hg'.2


private theorem untouch_entries_length (t : Table) (i : Nat) : (untouch t i).entries.length = t.entries.length := by
  simp [untouch]

private theorem untouch_untouched (t : Table) (i j : Nat) (h : j = i ∨ Untouched t j) : Untouched (untouch t i) j := by
  intro e' he'
  cases he : t.entries[j]? with
  | none => simp [untouch, List.getElem?_modify, he] at he'
  | some e =>
    rw [untouch_get t i j e he] at he'
    have := Option.some.inj he'
    rw [← this]
    by_cases hij : i = j
    · simp [hij]
    · simp only [hij, ↓reduceIte]
      rcases h with h | h
      · exact absurd h.symm hij
      · exact h e he

/-- the sanitise loop: when it reports success, every register it has passed satisfies its constraint and is
    marked untouched - whatever the storage held before -/
private theorem sanitise_go (cb : Nat → Value → Bool) : ∀ (todo i : Nat) (t : Table), Struct t →
    i + todo = t.entries.length → (∀ j, j < i → Sat cb t j ∧ Untouched t j) →
    (register_sanitise.go cb todo i t).1.code = .success →
    Struct (register_sanitise.go cb todo i t).2 ∧
    (register_sanitise.go cb todo i t).2.entries.length = t.entries.length ∧
    ∀ j, j < t.entries.length → Sat cb (register_sanitise.go cb todo i t).2 j ∧ Untouched (register_sanitise.go cb todo i t).2 j := by
  intro todo
  induction todo with
  | zero =>
    intro i t hs hlen hinv _
    simp only [register_sanitise.go]
    exact ⟨hs, trivial, fun j hj => hinv j (by omega)⟩
  | succ todo ih =>
    intro i t hs hlen hinv hok
    simp only [register_sanitise.go] at hok ⊢
    rcases hsane : reg_entry_sane cb t i with ⟨c, a⟩
    rw [hsane] at hok
    have step : ∀ (t1 : Table), Struct t1 → t1.entries.length = t.entries.length →
        (∀ j, j < i → Sat cb t1 j ∧ Untouched t1 j) → Sat cb t1 i →
        (register_sanitise.go cb todo (i + 1) (untouch t1 i)).1.code = .success →
        Struct (register_sanitise.go cb todo (i + 1) (untouch t1 i)).2 ∧
        (register_sanitise.go cb todo (i + 1) (untouch t1 i)).2.entries.length = t.entries.length ∧
        ∀ j, j < t.entries.length → Sat cb (register_sanitise.go cb todo (i + 1) (untouch t1 i)).2 j ∧
          Untouched (register_sanitise.go cb todo (i + 1) (untouch t1 i)).2 j := by
      intro t1 hs1 hl1 hinv1 hsat1 hok1
      have hlu := untouch_entries_length t1 i
      obtain ⟨r1, r2, r3⟩ := ih (i + 1) (untouch t1 i) (untouch_struct t1 i hs1) (by rw [hlu, hl1]; omega)
        (fun j hj => by
          by_cases hji : j = i
          · subst hji; exact ⟨untouch_sat cb t1 j j hsat1, untouch_untouched t1 j j (Or.inl rfl)⟩
          · have := hinv1 j (by omega)
            exact ⟨untouch_sat cb t1 i j this.1, untouch_untouched t1 i j (Or.inr this.2)⟩) hok1
      exact ⟨r1, by rw [r2, hlu, hl1], fun j hj => r3 j (by rw [hlu, hl1]; exact hj)⟩
    cases c with
    | success =>
      simp only at hok ⊢
      exact step t hs rfl hinv (sane_sat cb t i a hsane) hok
    | invalid | range =>
      simp only at hok ⊢
      cases he : t.entries[i]? with
      | none => simp [he, oob] at hok
      | some e =>
        simp only [he] at hok ⊢
        rcases hset : register_set cb t i ⟨e.type, e.default⟩ with ⟨⟨c2, a2⟩, t'⟩
        rw [hset] at hok
        cases c2 <;> try (simp at hok)
        simp only at hok ⊢
        have hb : (⟨e.type, e.default⟩ : Value).bits < 2 ^ (⟨e.type, e.default⟩ : Value).type.bits :=
          hs.defaults e (List.mem_of_getElem? he)
        have hst : Struct t' := by have := set_struct cb t i ⟨e.type, e.default⟩ hs; rw [hset] at this; exact this
        have hent : t'.entries = t.entries := by
          have := (set_keeps_layout cb t i ⟨e.type, e.default⟩ hs.layout).2; rw [hset] at this; exact this
        have hsat_i : Sat cb t' i := by
          obtain ⟨_, e1, _, _, _, he1, hval, _, _, _, _, ht'⟩ :=
            Ufw.Props.C01.set_success_inv cb t t' i ⟨e.type, e.default⟩ true a2 hset
          have hdi : t'.duringInit = t.duringInit := by rw [ht']
          refine ⟨e1, ⟨e.type, e.default⟩, by rw [hent]; exact he1,
            Ufw.Props.C01.checked_set_get cb t t' i ⟨e.type, e.default⟩ a2 hset hb, ?_⟩
          have := hval rfl
          simpa [rv_validate, hdi] using this
        refine step t' hst (by rw [hent]) ?_ hsat_i hok
        intro j hj
        have := hinv j hj
        refine ⟨?_, ?_⟩
        · have h2 := set_keeps_sat_at cb t i ⟨e.type, e.default⟩ hs.layout hb j this.1
          rw [hset] at h2; exact h2
        · intro x hx; rw [hent] at hx; exact this.2 x hx
    | failure | uninitialised | noentry | readonly | ioError => simp at hok


/-- After arbitrary out-of-band corruption of the storage: when sanitise reports success, every register
    decodes and satisfies its constraint again and every touched mark is cleared - nothing is assumed about
    what the storage held, only the structure `register_init` set up (and defaults that fit their type). -/
theorem sanitise_restores (cb : Nat → Value → Bool) (t : Table) (hs : Struct t)
    (hok : (register_sanitise cb t).1.code = .success) :
    Struct (register_sanitise cb t).2 ∧ (register_sanitise cb t).2.entries.length = t.entries.length ∧
    ∀ j, j < t.entries.length → Sat cb (register_sanitise cb t).2 j ∧ Untouched (register_sanitise cb t).2 j := by
  simp only [register_sanitise] at hok ⊢
  split
  · rename_i hi; simp [hi] at hok
  · rename_i hi
    simp only [hi, ↓reduceIte] at hok
    exact sanitise_go cb t.entries.length 0 t hs (by omega) (fun j hj => absurd hj (by omega)) hok


private theorem sat_sane (cb : Nat → Value → Bool) (t : Table) (i : Nat) (h : Sat cb t i) :
    reg_entry_sane cb t i = ⟨.success, 0⟩ := by
  obtain ⟨e, v, he, hg, hv⟩ := h
  simp [reg_entry_sane, hg, he, hv]

/-- on a table in which every register satisfies its constraint sanitise has nothing to repair: it succeeds -/
private theorem sanitise_go_sane (cb : Nat → Value → Bool) : ∀ (todo i : Nat) (t : Table),
    (∀ j, j < t.entries.length → Sat cb t j) → i + todo = t.entries.length →
    (register_sanitise.go cb todo i t).1.code = .success := by
  intro todo
  induction todo with
  | zero => intro i t _ _; simp [register_sanitise.go]
  | succ todo ih =>
    intro i t hinv hlen
    simp only [register_sanitise.go, sat_sane cb t i (hinv i (by omega))]
    apply ih
    · intro j hj
      have hj' : j < t.entries.length := by simpa using hj
      exact untouch_sat cb t i j (hinv j hj')
    · simp; omega

theorem sanitise_succeeds (cb : Nat → Value → Bool) (t : Table) (hi : t.initialised = true)
    (hinv : ∀ j, j < t.entries.length → Sat cb t j) : (register_sanitise cb t).1.code = .success := by
  simp only [register_sanitise, hi, Bool.not_true, Bool.false_eq_true, ↓reduceIte]
  exact sanitise_go_sane cb t.entries.length 0 t hinv (by omega)



/-! ### what sanitise does to the values -/

private theorem untouch_sat_rev (cb : Nat → Value → Bool) (t : Table) (i j : Nat) (h : Sat cb (untouch t i) j) : Sat cb t j := by
  obtain ⟨e', v, he', hg, hv⟩ := h
  cases he : t.entries[j]? with
  | none => simp [untouch, List.getElem?_modify, he] at he'
  | some e =>
    rw [untouch_get t i j e he] at he'
    have hee := Option.some.inj he'
    refine ⟨e, v, he, by rw [← untouch_register_get t i j]; exact hg, ?_⟩
    rw [← validate_congr cb t (untouch t i) e e' v rfl (by rw [← hee]; split <;> rfl) (by rw [← hee]; split <;> rfl)]
    exact hv

private theorem set_sat_rev (cb : Nat → Value → Bool) (t t' : Table) (idx j : Nat) (v : Value) (adr : Nat)
    (h : register_set cb t idx v = (⟨.success, adr⟩, t')) (hl : Layout t) (hij : idx ≠ j) (hs : Sat cb t' j) : Sat cb t j := by
  obtain ⟨_, _, _, _, _, _, _, _, _, _, _, ht'⟩ := Ufw.Props.C01.set_success_inv cb t t' idx v true adr h
  have hent : t'.entries = t.entries := by rw [ht']
  have hdi : t'.duringInit = t.duringInit := by rw [ht']
  obtain ⟨e, w, he, hg, hv⟩ := hs
  refine ⟨e, w, by rw [← hent]; exact he, by rw [← set_other_get cb t t' idx j v true adr h hl hij]; exact hg, ?_⟩
  simpa [rv_validate, hdi] using hv

/-- the sanitise loop, values: registers already passed are not touched again; a register still ahead that
    satisfies its constraint keeps what it reads as, one that does not reads as its default afterwards -/
private theorem sanitise_go_values (cb : Nat → Value → Bool) : ∀ (todo i : Nat) (t : Table), Struct t →
    i + todo = t.entries.length → (register_sanitise.go cb todo i t).1.code = .success →
    ∀ j, j < t.entries.length →
      (j < i → register_get (register_sanitise.go cb todo i t).2 j = register_get t j) ∧
      (i ≤ j → Sat cb t j → register_get (register_sanitise.go cb todo i t).2 j = register_get t j) ∧
      (i ≤ j → ¬ Sat cb t j → ∃ e, t.entries[j]? = some e ∧
        register_get (register_sanitise.go cb todo i t).2 j = (⟨.success, 0⟩, some ⟨e.type, e.default⟩)) := by
  intro todo
  induction todo with
  | zero =>
    intro i t _ hlen _ j hj
    exact ⟨fun _ => by simp only [register_sanitise.go], fun h => absurd h (by omega), fun h => absurd h (by omega)⟩
  | succ todo ih =>
    intro i t hs hlen hok j hj
    simp only [register_sanitise.go] at hok ⊢
    rcases hsane : reg_entry_sane cb t i with ⟨c, a⟩
    rw [hsane] at hok
    cases c with
    | success =>
      simp only at hok ⊢
      have hlu := untouch_entries_length t i
      obtain ⟨r1, r2, r3⟩ := ih (i + 1) (untouch t i) (untouch_struct t i hs) (by rw [hlu]; omega) hok j (by rw [hlu]; exact hj)
      rw [untouch_register_get] at r1 r2
      refine ⟨fun h => r1 (by omega), ?_, ?_⟩
      · intro hij hsat
        by_cases hji : j = i
        · exact r1 (by omega)
        · exact r2 (by omega) (untouch_sat cb t i j hsat)
      · intro hij hns
        by_cases hji : j = i
        · subst hji; exact absurd (sane_sat cb t j a hsane) hns
        · obtain ⟨e', he', hg⟩ := r3 (by omega) (fun h => hns (untouch_sat_rev cb t i j h))
          cases he : t.entries[j]? with
          | none => simp [untouch, List.getElem?_modify, he] at he'
          | some e =>
            rw [untouch_get t i j e he] at he'
            have hee := Option.some.inj he'
            refine ⟨e, rfl, hg.trans ?_⟩
            rw [← hee]; split <;> rfl
    | invalid | range =>
      simp only at hok ⊢
      cases he : t.entries[i]? with
      | none => simp [he, oob] at hok
      | some e =>
        simp only [he] at hok ⊢
        rcases hset : register_set cb t i ⟨e.type, e.default⟩ with ⟨⟨c2, a2⟩, t'⟩
        rw [hset] at hok
        cases c2 <;> try (simp at hok)
        simp only at hok ⊢
        have hb : (⟨e.type, e.default⟩ : Value).bits < 2 ^ (⟨e.type, e.default⟩ : Value).type.bits :=
          hs.defaults e (List.mem_of_getElem? he)
        have hst : Struct t' := by have := set_struct cb t i ⟨e.type, e.default⟩ hs; rw [hset] at this; exact this
        have hent : t'.entries = t.entries := by
          have := (set_keeps_layout cb t i ⟨e.type, e.default⟩ hs.layout).2; rw [hset] at this; exact this
        have hlu := untouch_entries_length t' i
        obtain ⟨r1, r2, r3⟩ := ih (i + 1) (untouch t' i) (untouch_struct t' i hst) (by rw [hlu, hent]; omega) hok j
          (by rw [hlu, hent]; exact hj)
        rw [untouch_register_get] at r1 r2
        have hns_i : ¬ Sat cb t i := by
          intro h; have := sat_sane cb t i h; rw [hsane] at this; simp at this
        refine ⟨?_, ?_, ?_⟩
        · intro hji
          exact (r1 (by omega)).trans (set_other_get cb t t' i j ⟨e.type, e.default⟩ true a2 hset hs.layout (by omega))
        · intro hij hsat
          by_cases hji : j = i
          · subst hji; exact absurd hsat hns_i
          · have h2 := set_keeps_sat_at cb t i ⟨e.type, e.default⟩ hs.layout hb j hsat
            rw [hset] at h2
            exact (r2 (by omega) (untouch_sat cb t' i j h2)).trans
              (set_other_get cb t t' i j ⟨e.type, e.default⟩ true a2 hset hs.layout (fun h => hji h.symm))
        · intro hij hns
          by_cases hji : j = i
          · subst hji
            exact ⟨e, he, (r1 (by omega)).trans (Ufw.Props.C01.checked_set_get cb t t' j ⟨e.type, e.default⟩ a2 hset hb)⟩
          · obtain ⟨e', he', hg⟩ := r3 (by omega) (fun h => hns
              (set_sat_rev cb t t' i j ⟨e.type, e.default⟩ a2 hset hs.layout (fun h => hji h.symm) (untouch_sat_rev cb t' i j h)))
            cases hej : t.entries[j]? with
            | none => rw [← hent] at hej; simp [untouch, List.getElem?_modify, hej] at he'
            | some ej =>
              rw [untouch_get t' i j ej (by rw [hent]; exact hej)] at he'
              have hee := Option.some.inj he'
              refine ⟨ej, rfl, hg.trans ?_⟩
              rw [← hee]; split <;> rfl
    | failure | uninitialised | noentry | readonly | ioError => simp at hok

/-- After arbitrary out-of-band corruption: when sanitise reports success, a register whose content decoded and
    satisfied its constraint reads exactly as before, and every other register reads as its default. -/
theorem sanitise_values (cb : Nat → Value → Bool) (t : Table) (hs : Struct t)
    (hok : (register_sanitise cb t).1.code = .success) (j : Nat) (hj : j < t.entries.length) :
    (Sat cb t j → register_get (register_sanitise cb t).2 j = register_get t j) ∧
    (¬ Sat cb t j → ∃ e, t.entries[j]? = some e ∧
      register_get (register_sanitise cb t).2 j = (⟨.success, 0⟩, some ⟨e.type, e.default⟩)) := by
  simp only [register_sanitise] at hok ⊢
  split
  · rename_i hi; simp [hi] at hok
  · rename_i hi
    simp only [hi, ↓reduceIte] at hok
    obtain ⟨_, r2, r3⟩ := sanitise_go_values cb t.entries.length 0 t hs (by omega) hok j hj
    exact ⟨r2 (by omega), r3 (by omega)⟩


private theorem set_keeps_init (cb : Nat → Value → Bool) (t : Table) (idx : Nat) (v : Value) (h : t.initialised = true) :
    (register_set cb t idx v).2.initialised = true := by
  rcases hres : register_set cb t idx v with ⟨⟨code, adr⟩, t'⟩
  by_cases hc : code = .success
  · subst hc
    obtain ⟨_, _, _, _, _, _, _, _, _, _, _, ht'⟩ := Ufw.Props.C01.set_success_inv cb t t' idx v true adr hres
    rw [ht']; exact h
  · have : (register_set cb t idx v).2 = t := set_refused_unchanged cb t idx v (by rw [hres]; exact hc)
    rw [hres] at this; simp only at this; rw [this]; exact h

private theorem sanitise_go_init (cb : Nat → Value → Bool) : ∀ (todo i : Nat) (t : Table), t.initialised = true →
    (register_sanitise.go cb todo i t).2.initialised = true := by
  intro todo
  induction todo with
  | zero => intro i t h; simpa [register_sanitise.go] using h
  | succ todo ih =>
    intro i t h
    simp only [register_sanitise.go]
    rcases hsane : reg_entry_sane cb t i with ⟨c, a⟩
    cases c with
    | success => exact ih _ _ h
    | invalid | range =>
      simp only
      cases he : t.entries[i]? with
      | none => simpa using h
      | some e =>
        simp only
        have hk := set_keeps_init cb t i ⟨e.type, e.default⟩ h
        rcases hset : register_set cb t i ⟨e.type, e.default⟩ with ⟨⟨c2, a2⟩, t'⟩
        rw [hset] at hk
        cases c2 <;> first | exact ih _ _ hk | exact hk
    | failure | uninitialised | noentry | readonly | ioError => simpa using h

private theorem sanitise_keeps_init (cb : Nat → Value → Bool) (t : Table) (h : t.initialised = true) :
    (register_sanitise cb t).2.initialised = true := by
  simp only [register_sanitise, h, Bool.not_true, Bool.false_eq_true, ↓reduceIte]
  exact sanitise_go_init cb _ _ t h

/-- every checked operation of the statement -/
inductive CheckedOp
  | set (idx : Nat) (v : Value)
  | bitSet (idx : Nat) (mask : Value)
  | bitClear (idx : Nat) (mask : Value)
  | blockWrite (addr : Nat) (buf : List Atom)
  | sanitise

def CheckedOp.wf : CheckedOp → Prop
  | .set _ v | .bitSet _ v | .bitClear _ v => v.bits < 2 ^ v.type.bits
  | _ => True

def apply (cb : Nat → Value → Bool) (t : Table) : CheckedOp → Table
  | .set idx v => (register_set cb t idx v).2
  | .bitSet idx m => (register_bit_op cb t idx m true).2
  | .bitClear idx m => (register_bit_op cb t idx m false).2
  | .blockWrite addr buf => (register_block_write cb t addr buf).2
  | .sanitise => (register_sanitise cb t).2

/-- the state `register_init` establishes on a table whose defaults were loaded: structure, initialised,
    every register satisfying its constraint -/
structure Good (cb : Nat → Value → Bool) (t : Table) : Prop where
  struct : Struct t
  init : t.initialised = true
  sat : ∀ j, j < t.entries.length → Sat cb t j

private theorem good_set (cb : Nat → Value → Bool) (t : Table) (idx : Nat) (v : Value) (hv : v.bits < 2 ^ v.type.bits)
    (h : Good cb t) : Good cb (register_set cb t idx v).2 := by
  refine ⟨set_struct cb t idx v h.struct, ?_, set_preserves_sat cb t idx v h.struct.layout hv h.sat⟩
  rcases hres : register_set cb t idx v with ⟨⟨code, adr⟩, t'⟩
  by_cases hc : code = .success
  · subst hc
    obtain ⟨_, _, _, _, _, _, _, _, _, _, _, ht'⟩ := Ufw.Props.C01.set_success_inv cb t t' idx v true adr hres
    rw [ht']; exact h.init
  · have : (register_set cb t idx v).2 = t := set_refused_unchanged cb t idx v (by rw [hres]; exact hc)
    rw [hres] at this; simp only at this; rw [this]; exact h.init

/-- THE INVARIANT OF C05: starting from a successfully initialised table in which every register satisfies its
    constraint, after ANY sequence of checked operations - typed sets, bit sets, bit clears, block writes and
    sanitise runs, accepted or refused, in any order - every register again decodes and satisfies its constraint. -/
theorem history_preserves_constraints (cb : Nat → Value → Bool) (ops : List CheckedOp) :
    ∀ (t : Table), (∀ o ∈ ops, o.wf) → Good cb t → Good cb (ops.foldl (apply cb) t) := by
  induction ops with
  | nil => intro t _ h; exact h
  | cons o os ih =>
    intro t hw hg
    simp only [List.foldl_cons]
    have how := hw o (List.mem_cons_self ..)
    have hrest : ∀ x ∈ os, x.wf := fun x hx => hw x (List.mem_cons_of_mem _ hx)
    cases o with
    | set idx v => exact ih _ hrest (good_set cb t idx v how hg)
    | bitSet idx m =>
      rcases bit_op_is_set cb t idx m true how with h | ⟨v, hv, h⟩
      · simp only [apply, h]; exact ih t hrest hg
      · simp only [apply, h]; exact ih _ hrest (good_set cb t idx v hv hg)
    | bitClear idx m =>
      rcases bit_op_is_set cb t idx m false how with h | ⟨v, hv, h⟩
      · simp only [apply, h]; exact ih t hrest hg
      · simp only [apply, h]; exact ih _ hrest (good_set cb t idx v hv hg)
    | blockWrite addr buf =>
      simp only [apply]
      by_cases hok : (register_block_write cb t addr buf).1.code = .success
      · obtain ⟨b1, b2, b3, b4, b5⟩ :=
          block_write_preserves_sat cb t addr buf hg.struct.shape hg.struct.linked hg.struct.ascending hg.sat hok
        refine ih _ hrest ⟨⟨block_write_keeps_layout cb t addr buf hg.struct.shape hg.struct.layout, b1, b2, b3, ?_⟩, ?_,
          fun j hj => b5 j (by rw [← b4]; exact hj)⟩
        · -- defaults are not touched by a block write
          by_cases hne : buf = []
          · have : (register_block_write cb t addr buf).2 = t := by
              subst hne; simp only [register_block_write, List.length_nil, ↓reduceIte]; split <;> rfl
            rw [this]; exact hg.struct.defaults
          · obtain ⟨_, _, t'', hb, ht'⟩ := Ufw.Props.C02.block_write_success_inv cb t addr buf hg.struct.shape hne hok
            obtain ⟨_, heq'', _, _⟩ := blockWrite_spec buf.length t addr buf t'' hg.struct.shape hb
            have hent : t''.entries = t.entries := by rw [heq'']
            rw [ht']
            intro e' he'
            simp only [reg_taint_in_range, hent, List.mem_map] at he'
            obtain ⟨e, he, rfl⟩ := he'
            have := hg.struct.defaults e he
            split <;> simpa using this
        · by_cases hne : buf = []
          · have : (register_block_write cb t addr buf).2 = t := by
              subst hne; simp only [register_block_write, List.length_nil, ↓reduceIte]; split <;> rfl
            rw [this]; exact hg.init
          · obtain ⟨_, _, t'', hb, ht'⟩ := Ufw.Props.C02.block_write_success_inv cb t addr buf hg.struct.shape hne hok
            obtain ⟨_, heq'', _, _⟩ := blockWrite_spec buf.length t addr buf t'' hg.struct.shape hb
            rw [ht']; simp only [reg_taint_in_range]; rw [heq'']; exact hg.init
      · rw [block_write_refused_unchanged cb t addr buf hok]; exact ih t hrest hg
    | sanitise =>
      simp only [apply]
      have hok := sanitise_succeeds cb t hg.init hg.sat
      obtain ⟨s1, s2, s3⟩ := sanitise_restores cb t hg.struct hok
      refine ih _ hrest ⟨s1, ?_, fun j hj => (s3 j (by rw [← s2]; exact hj)).1⟩
      exact sanitise_keeps_init cb t hg.init

/-! ### non-vacuity -/

/-- a concrete table in the good state: one area, a u16 register without constraint and a u32 register with a
    range constraint holding 5 -/
def goodTable : Table :=
  { areas := [{ base := 16, size := 4, mem := [7, 0, 5 * 256, 0] }],
    entries := [{ type := .u16, default := 0, address := 16, check := .trivial, area := 0, offset := 0 },
                { type := .u32, default := 5, address := 17, check := .range 1 100, area := 0, offset := 1 }],
    bigEndian := true, initialised := true }

/-- the invariant is satisfiable: `goodTable` is in the good state -/
theorem goodTable_good : Good (fun _ _ => true) goodTable := by
  refine ⟨⟨?_, ⟨?_, ?_⟩, ?_, ?_, ?_⟩, rfl, ?_⟩
  · -- layout
    intro i j e e' hij h1 h2
    match i, j with
    | 0, 0 => exact absurd rfl hij
    | 0, 1 => simp [goodTable] at h1 h2; subst h1 h2; simp [Apart, RType.size]
    | 1, 0 => simp [goodTable] at h1 h2; subst h1 h2; simp [Apart, RType.size]
    | 1, 1 => exact absurd rfl hij
    | 0, j + 2 => simp [goodTable] at h2
    | 1, j + 2 => simp [goodTable] at h2
    | i + 2, _ => simp [goodTable] at h1
  · intro a ha; simp [goodTable] at ha; subst ha; rfl
  · intro i j a b hij h1 h2
    match i, j with
    | 0, 0 => exact absurd rfl hij
    | 0, j + 1 => simp [goodTable] at h2
    | i + 1, _ => simp [goodTable] at h1
  · intro i e he
    match i with
    | 0 => simp [goodTable] at he; subst he; exact ⟨_, rfl, by decide, by decide, by decide⟩
    | 1 => simp [goodTable] at he; subst he; exact ⟨_, rfl, by decide, by decide, by decide⟩
    | i + 2 => simp [goodTable] at he
  · simp [Ascending, goodTable]
  · intro e he; simp [goodTable] at he; rcases he with rfl | rfl <;> decide
  · intro j hj
    match j with
    | 0 => exact ⟨_, ⟨.u16, 1792⟩, rfl, by decide, by decide⟩
    | 1 => exact ⟨_, ⟨.u32, 5⟩, rfl, by decide, by decide⟩
    | j + 2 => simp [goodTable] at hj; omega

end Ufw.Props.C05
