/-
C01 – typed register set/get is lossless and constraint-enforcing.  Property theorems only;
helper lemmas live in Ufw/Lemmas/RegTable.lean.

`cb` is the family of user validator callbacks, `t` any table state (not necessarily produced
by `register_init`: the theorems hold for every state the model can be in).
-/
import Ufw.Lemmas.RegTable

namespace Ufw.Props.C01
open Ufw Ufw.Model.RegTable Ufw.Lemmas.RegTable

/-- what a successful set (checked or unchecked) consists of -/
theorem set_success_inv (cb : Nat → Value → Bool) (t t' : Table) (idx : Nat) (v : Value) (wv : Bool) (adr : Nat)
    (h : register_setx cb t idx v wv = (⟨.success, adr⟩, t')) :
    t.initialised = true ∧
    ∃ e a raw a', t.entries[idx]? = some e ∧ (wv = true → rv_validate cb t e v = true) ∧
      t.areas[e.area]? = some a ∧ a.hasWrite = true ∧ ser t.bigEndian e.type v.bits = some raw ∧
      a.write e.offset raw = some a' ∧ t' = { t with areas := t.areas.set e.area a' } := by
  simp only [register_setx] at h
  split at h
  · simp at h
  rename_i hi
  split at h
  · simp at h
  rename_i e he
  split at h
  · simp at h
  rename_i hval
  split at h
  · simp [oob] at h
  rename_i a ha
  split at h
  · simp at h
  rename_i hw
  split at h
  · simp at h
  rename_i raw hs
  split at h
  · simp [oob] at h
  rename_i a' hwr
  simp only [Prod.mk.injEq] at h
  refine ⟨by simpa using hi, e, a, raw, a', he, ?_, ha, by simpa using hw, hs, hwr, h.2.symm⟩
  intro hwv
  subst hwv
  simpa using hval

/-- a successful set followed by a get returns the identical value -/
theorem set_get (cb : Nat → Value → Bool) (t t' : Table) (idx : Nat) (v : Value) (wv : Bool) (adr : Nat)
    (h : register_setx cb t idx v wv = (⟨.success, adr⟩, t'))
    (hty : ∀ e, t.entries[idx]? = some e → e.type = v.type) (hb : v.bits < 2 ^ v.type.bits) :
    register_get t' idx = (⟨.success, 0⟩, some v) := by
  obtain ⟨hi, e, a, raw, a', he, _, ha, _, hs, hwr, ht'⟩ := set_success_inv cb t t' idx v wv adr h
  have het := hty e he
  subst ht'
  have hl := ser_length _ _ _ _ hs
  have hrd := write_read a a' e.offset raw hwr
  rw [hl] at hrd
  have hdes := des_ser t.bigEndian e.type v.bits raw hs (by rw [het]; exact hb)
  simp only [register_get, hi, Bool.not_true, Bool.false_eq_true, ↓reduceIte, he,
    set_getElem t.areas e.area a a' ha, hrd, hdes]
  cases v
  simp_all

/-- the checked variant only succeeds on a value of the register's type, so for it the round trip
    needs no type hypothesis -/
theorem checked_set_get (cb : Nat → Value → Bool) (t t' : Table) (idx : Nat) (v : Value) (adr : Nat)
    (h : register_set cb t idx v = (⟨.success, adr⟩, t')) (hb : v.bits < 2 ^ v.type.bits) :
    register_get t' idx = (⟨.success, 0⟩, some v) := by
  obtain ⟨_, e, _, _, _, he, hval, _⟩ := set_success_inv cb t t' idx v true adr h
  refine set_get cb t t' idx v true adr h ?_ hb
  intro e' he'
  rw [he] at he'
  cases he'
  have := hval rfl
  simp only [rv_validate, Bool.and_eq_true, beq_iff_eq] at this
  exact this.1

/-- the backing atoms hold exactly the value in the table's byte order; nothing else changes:
    not the rest of the area, not another area, not the register descriptions -/
theorem set_storage (cb : Nat → Value → Bool) (t t' : Table) (idx : Nat) (v : Value) (wv : Bool) (adr : Nat)
    (h : register_setx cb t idx v wv = (⟨.success, adr⟩, t')) :
    ∃ e a a', t.entries[idx]? = some e ∧ t.areas[e.area]? = some a ∧ t'.areas[e.area]? = some a' ∧
      (a'.mem.drop e.offset).take e.type.size =
        atomsOfOctets (Ufw.Spec.Endian.store t.bigEndian (2 * e.type.size) v.bits) ∧
      a'.mem.take e.offset = a.mem.take e.offset ∧
      a'.mem.drop (e.offset + e.type.size) = a.mem.drop (e.offset + e.type.size) ∧
      a'.mem.length = a.mem.length ∧
      (∀ j, j ≠ e.area → t'.areas[j]? = t.areas[j]?) ∧
      t'.entries = t.entries ∧ t'.bigEndian = t.bigEndian ∧ t'.initialised = t.initialised := by
  obtain ⟨hi, e, a, raw, a', he, _, ha, _, hs, hwr, ht'⟩ := set_success_inv cb t t' idx v wv adr h
  subst ht'
  have hl := ser_length _ _ _ _ hs
  have hf := ser_floatOk _ _ _ _ hs
  obtain ⟨f1, f2, f3, _⟩ := write_frame a a' e.offset raw hwr
  have hrd := write_read a a' e.offset raw hwr
  refine ⟨e, a, a', he, ha, set_getElem t.areas e.area a a' ha, ?_, f2, ?_, f1, ?_, rfl, rfl, rfl⟩
  · simp only [Area.read] at hrd
    split at hrd
    · simp only [Option.some.injEq] at hrd
      rw [hl] at hrd
      rw [hrd]
      simp only [ser, hf, ↓reduceIte, Option.some.injEq] at hs
      exact hs.symm
    · simp at hrd
  · rw [hl] at f3; exact f3
  · intro j hj
    simp only [List.getElem?_set]
    split
    · rename_i hji; exact absurd hji.symm hj
    · rfl

/-- a set that is refused - for whatever reason, by either variant - leaves the table as it was -/
theorem set_refused_unchanged (cb : Nat → Value → Bool) (t : Table) (idx : Nat) (v : Value) (wv : Bool)
    (h : (register_setx cb t idx v wv).1.code ≠ .success) : (register_setx cb t idx v wv).2 = t := by
  simp only [register_setx] at h ⊢
  split
  · rfl
  split
  · rfl
  split
  · rfl
  split
  · rfl
  split
  · rfl
  split
  · rfl
  split
  · rfl
  · rename_i hi _ e he hval _ a ha hw _ raw hs _ a' hwr
    simp [hi, he, hval, ha, hw, hs, hwr] at h

/-- a handle that is not a register of the table: 'no such entry' from both variants -/
theorem set_bad_handle (cb : Nat → Value → Bool) (t : Table) (idx : Nat) (v : Value) (wv : Bool)
    (hi : t.initialised = true) (hidx : t.entries.length ≤ idx) :
    register_setx cb t idx v wv = (⟨.noentry, idx⟩, t) := by
  simp [register_setx, hi, List.getElem?_eq_none hidx]

/-- the checked set refuses a value of another type and a value that violates the register's
    min / max / range / callback / always-fail constraint: 'range' at the register's address -/
theorem set_refuses_invalid (cb : Nat → Value → Bool) (t : Table) (idx : Nat) (v : Value) (e : Entry)
    (hi : t.initialised = true) (he : t.entries[idx]? = some e)
    (hbad : e.type ≠ v.type ∨ checkOk cb t.duringInit e v = false) :
    register_set cb t idx v = (⟨.range, e.address⟩, t) := by
  have : rv_validate cb t e v = false := by
    simp only [rv_validate]
    rcases hbad with hb | hb
    · simp [hb]
    · simp [hb]
  simp [register_set, register_setx, hi, he, this]

/-- both variants refuse a float that is NaN, infinite or subnormal: 'invalid', storage unchanged -/
theorem set_refuses_bad_float (cb : Nat → Value → Bool) (t : Table) (idx : Nat) (v : Value) (e : Entry) (a : Area)
    (wv : Bool) (hi : t.initialised = true) (he : t.entries[idx]? = some e)
    (hval : wv = true → rv_validate cb t e v = true) (ha : t.areas[e.area]? = some a) (hw : a.hasWrite = true)
    (hf : floatOk e.type v.bits = false) :
    register_setx cb t idx v wv = (⟨.invalid, e.address⟩, t) := by
  have hv : (wv && !rv_validate cb t e v) = false := by
    cases wv
    · rfl
    · simp [hval rfl]
  simp [register_setx, hi, he, hv, ha, hw, ser, hf]

/-- the unchecked variant skips only the type and constraint checks: on a value the checked
    variant accepts, both do exactly the same -/
theorem unsafe_eq_checked (cb : Nat → Value → Bool) (t : Table) (idx : Nat) (v : Value)
    (h : ∀ e, t.entries[idx]? = some e → rv_validate cb t e v = true) :
    register_set_unsafe cb t idx v = register_set cb t idx v := by
  simp only [register_set_unsafe, register_set, register_setx]
  split
  · rfl
  split
  · rfl
  rename_i e he
  simp [h e he]

/-! #### the hypotheses are satisfiable: a concrete table -/

def demoTable : Table :=
  { areas := [{ base := 16, size := 4, mem := [0, 0, 0, 0] }],
    entries := [{ type := .u32, default := 5, address := 17, check := .range 1 100, area := 0, offset := 1 }],
    bigEndian := true, initialised := true }

example : register_set (fun _ _ => true) demoTable 0 ⟨.u32, 0x10002⟩ = (⟨.range, 17⟩, demoTable) := by decide
example : (register_set (fun _ _ => true) demoTable 0 ⟨.u32, 77⟩).1 = ⟨.success, 0⟩ ∧
    ((register_set (fun _ _ => true) demoTable 0 ⟨.u32, 77⟩).2.areas.map (·.mem)) = [[0, 0, 77 * 256, 0]] := by decide


/-- **When a typed set is accepted.**  For a register that is linked to an area with a write callback and enough
    storage (what `register_init` establishes): the checked set succeeds exactly when the value has the register's
    type, satisfies its constraint and - for floats - is zero or normal; the unchecked one skips exactly the first
    two tests.  In every other case the table is unchanged (`set_refused_unchanged`). -/
theorem set_succeeds_iff (cb : Nat → Value → Bool) (t : Table) (idx : Nat) (v : Value) (wv : Bool) (e : Entry) (a : Area)
    (hi : t.initialised = true) (he : t.entries[idx]? = some e) (ha : t.areas[e.area]? = some a)
    (hw : a.hasWrite = true) (hfit : e.offset + e.type.size ≤ a.mem.length) :
    (register_setx cb t idx v wv).1.code = .success ↔
      (wv = true → (e.type = v.type ∧ checkOk cb t.duringInit e v = true)) ∧ floatOk e.type v.bits = true := by
  simp only [register_setx, hi, he, ha, hw, rv_validate, Bool.not_true, Bool.false_eq_true, ↓reduceIte]
  cases wv with
  | false =>
    simp only [Bool.false_and, Bool.false_eq_true, ↓reduceIte, false_implies, true_and]
    simp only [ser]
    cases hf : floatOk e.type v.bits with
    | false => simp
    | true =>
      simp only [↓reduceIte]
      have hs : ser t.bigEndian e.type v.bits = some (atomsOfOctets (Ufw.Spec.Endian.store t.bigEndian (2 * e.type.size) v.bits)) := by
        simp only [ser, hf, ↓reduceIte]
      have hl := ser_length t.bigEndian e.type v.bits _ hs
      simp only [Area.write, hl, hfit, ↓reduceIte]
  | true =>
    simp only [Bool.true_and, forall_const]
    by_cases hty : e.type = v.type
    · cases hc : checkOk cb t.duringInit e v with
      | false => simp [hty, hc]
      | true =>
        have hb : (e.type == v.type) = true := by simp [hty]
        simp only [hb, Bool.true_and, hc, Bool.not_true, Bool.false_eq_true, ↓reduceIte, and_self, true_and]
        simp only [ser]
        cases hf : floatOk e.type v.bits with
        | false => simp
        | true =>
          simp only [↓reduceIte]
          have hs : ser t.bigEndian e.type v.bits = some (atomsOfOctets (Ufw.Spec.Endian.store t.bigEndian (2 * e.type.size) v.bits)) := by
            simp only [ser, hf, ↓reduceIte]
          have hl := ser_length t.bigEndian e.type v.bits _ hs
          simp only [Area.write, hl, hfit, ↓reduceIte]
          exact ⟨fun _ => ⟨⟨hty, trivial⟩, trivial⟩, fun _ => trivial⟩
    · have hb : (e.type == v.type) = false := by simp [hty]
      simp [hb, hty]


end Ufw.Props.C01
