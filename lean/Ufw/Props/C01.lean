import Ufw.Model.RegTable
namespace Ufw.Props.C01
open Ufw Ufw.Model.RegTable
/-- an uninitialised table refuses typed access -/
theorem uninitialised_refuses (cb : Nat → Value → Bool) (t : Table) (h : t.initialised = false) (idx : Nat) (v : Value) :
    register_set cb t idx v = (⟨.uninitialised, idx⟩, t) ∧ (register_get t idx).1 = ⟨.uninitialised, idx⟩ := by
  simp [register_set, register_setx, register_get, h]
end Ufw.Props.C01
