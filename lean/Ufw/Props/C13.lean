/-
C13 – length-prefix framing carries exactly the designated octets.  Property theorems only.
-/
import Ufw.Model.Lenp
import Ufw.Lemmas.Endpoints
import Ufw.Props.C17
import Ufw.Lemmas.EndianSpec
import Ufw.Lemmas.Varint
import Ufw.Props.C14

namespace Ufw.Props.C13
open Ufw Ufw.Model.Endpoints Ufw.Model.Lenp Ufw.Lemmas.Endpoints

/-- Gen obligation: the kind table read from the source is the table of the statement – varint (no
    fixed size), one octet (max 255), 16/32 bit little/big endian (max 2^16-1 / 2^32-1) -/
theorem kind_table_spec :
    Ufw.Gen.LenpKinds.table.map (fun r => (r.size, r.order, r.maximum)) =
      [(0, .none, 0), (1, .none, 255), (2, .little, 65535), (4, .little, 4294967295),
       (2, .big, 65535), (4, .big, 4294967295)] := by decide

/-- the prefix of the statement: varint for kind 0, else `size` octets in the kind's order -/
def prefixSpec (k : Nat) (n : Nat) : List Octet :=
  match k with
  | 0 => Ufw.Model.Varint.encode n
  | 1 => [BitVec.ofNat 8 n]
  | 2 => Ufw.Spec.Endian.store false 2 n
  | 3 => Ufw.Spec.Endian.store false 4 n
  | 4 => Ufw.Spec.Endian.store true 2 n
  | _ => Ufw.Spec.Endian.store true 4 n

def maxSpec (k : Nat) : Nat :=
  match k with
  | 0 => SSIZE_MAX | 1 => 255 | 2 => 65535 | 3 => 4294967295 | 4 => 65535 | _ => 4294967295

/-- `encode_prefix` produces the kind's encoding of the length and refuses exactly the lengths
    beyond the kind's maximum -/
theorem encode_prefix_spec (k : Nat) (hk : k < 6) (n : Nat) :
    encode_prefix k n = if n ≤ maxSpec k then .ok (prefixSpec k n) else .error .einval := by
  have h6 : k = 0 ∨ k = 1 ∨ k = 2 ∨ k = 3 ∨ k = 4 ∨ k = 5 := by omega
  have ord1 : (Gen.LenpKinds.Order.little == Gen.LenpKinds.Order.big) = false := by decide
  rcases h6 with rfl | rfl | rfl | rfl | rfl | rfl <;>
    simp [encode_prefix, isVariable, row, Ufw.Gen.LenpKinds.table, maxSpec, prefixSpec, SSIZE_MAX, ord1] <;>
    (repeat' split) <;> first | rfl | omega

theorem prefixSpec_ne_nil (k n : Nat) : prefixSpec k n ≠ [] := by
  have hs : ∀ b m v, (Ufw.Spec.Endian.store b (m + 1) v) ≠ [] := by
    intro b m v h
    have := congrArg List.length h
    rw [Ufw.Lemmas.EndianSpec.store_length] at this
    simp at this
  unfold prefixSpec
  split
  · intro h
    have := Ufw.Lemmas.Varint.encode_canonical n
    obtain ⟨i, l, he, _⟩ := this
    rw [h] at he
    simp at he
  · simp
  all_goals exact hs _ _ _

/-- what has reached the sink when an encoder stops: `got` followed by a prefix of `frame` -/
def SentPrefix (snk snk' : Snk) (frame : List Octet) : Prop := ∃ j, snk'.got = snk.got ++ frame.take j

/-- from memory, into a sink (any driver script): success means exactly prefix ++ payload reached
    the sink and the total is returned; a payload longer than the kind's maximum is refused before
    anything is emitted; in every case the sink has received a prefix of the frame -/
theorem memory_to_sink_spec (fuel k : Nat) (hk : k < 6) (snk : Snk) (payload : List Octet) (hp : payload ≠ []) :
    (∀ m, (flenp_memory_to_sink fuel k snk payload).1 = .ok m →
      payload.length ≤ maxSpec k ∧ m = (prefixSpec k payload.length).length + payload.length ∧
      (flenp_memory_to_sink fuel k snk payload).2.got = snk.got ++ (prefixSpec k payload.length ++ payload)) ∧
    (payload.length > maxSpec k → flenp_memory_to_sink fuel k snk payload = (.err .einval, snk)) ∧
    SentPrefix snk (flenp_memory_to_sink fuel k snk payload).2 (prefixSpec k payload.length ++ payload) := by
  simp only [flenp_memory_to_sink, encode_prefix_spec k hk]
  by_cases hmax : payload.length ≤ maxSpec k
  · simp only [hmax, ↓reduceIte]
    by_cases hbig : payload.length > SSIZE_MAX - (prefixSpec k payload.length).length
    · simp only [hbig, ↓reduceIte]
      exact ⟨by simp, fun h => by omega, ⟨0, by simp⟩⟩
    · simp only [hbig, ↓reduceIte]
      obtain ⟨a1, a2, ⟨j1, a3⟩⟩ := Ufw.Props.C17.put_chunk_exact fuel snk (prefixSpec k payload.length)
      rcases h1 : sink_put_chunk fuel snk (prefixSpec k payload.length) with ⟨r1, s1⟩
      rw [h1] at a1 a2 a3
      simp only at a1 a2 a3 ⊢
      have hpre : ∀ j, ∃ j', (prefixSpec k payload.length ++ payload).take j' = (prefixSpec k payload.length).take j := by
        intro j
        refine ⟨min j (prefixSpec k payload.length).length, ?_⟩
        rw [List.take_append_of_le_length (Nat.min_le_right _ _)]
        rw [List.take_eq_take_iff]; omega
      cases r1 with
      | diverge =>
        obtain ⟨j', hj'⟩ := hpre j1
        exact ⟨by simp, fun h => by omega, ⟨j', by rw [a3, hj']⟩⟩
      | err e =>
        obtain ⟨j', hj'⟩ := hpre j1
        exact ⟨by simp, fun h => by omega, ⟨j', by rw [a3, hj']⟩⟩
      | ok m1 =>
        obtain ⟨_, hg1⟩ := a1 m1 rfl
        simp only
        obtain ⟨b1, b2, ⟨j2, b3⟩⟩ := Ufw.Props.C17.put_chunk_exact fuel s1 payload
        rcases h2 : sink_put_chunk fuel s1 payload with ⟨r2, s2⟩
        rw [h2] at b1 b2 b3
        simp only at b1 b2 b3 ⊢
        have hsent : SentPrefix snk s2 (prefixSpec k payload.length ++ payload) := by
          refine ⟨(prefixSpec k payload.length).length + j2, ?_⟩
          rw [b3, hg1, List.take_length_add_append, List.append_assoc]
        cases r2 with
        | diverge => exact ⟨by simp, fun h => by omega, hsent⟩
        | err e => exact ⟨by simp, fun h => by omega, hsent⟩
        | ok m2 =>
          obtain ⟨hm2, hg2⟩ := b1 m2 rfl
          have hpos : 0 < payload.length := List.length_pos_iff.mpr hp
          cases m2 with
          | zero => omega
          | succ m' =>
            simp only
            refine ⟨fun m hm => ⟨trivial, by simpa using hm.symm, ?_⟩, fun h => by omega, hsent⟩
            rw [hg2, hg1, List.append_assoc]
  · simp only [hmax, ↓reduceIte]
    exact ⟨by simp, by simp, ⟨0, by simp⟩⟩

open Ufw.Model.ByteBuffer (ByteBuffer byte_buffer_rest byte_buffer_avail writeAt)

/-- from a buffer's unread content: the frame carries exactly the unread octets -/
theorem buffer_to_sink_spec (fuel k : Nat) (hk : k < 6) (snk : Snk) (b : ByteBuffer) (hp : unread b ≠ []) :
    ∀ m, (flenp_buffer_to_sink fuel k snk b).1 = .ok m →
      m = (prefixSpec k (unread b).length).length + (unread b).length ∧
      (flenp_buffer_to_sink fuel k snk b).2.got = snk.got ++ (prefixSpec k (unread b).length ++ unread b) := by
  intro m hm
  have := (memory_to_sink_spec fuel k hk snk (unread b) hp).1 m hm
  exact ⟨this.2.1, this.2.2⟩

/-- from the first n unread octets: the frame carries exactly those, and the buffer's read mark
    advances by n; n beyond the unread content is refused, nothing emitted, buffer unchanged -/
theorem buffer_to_sink_n_spec (fuel k : Nat) (hk : k < 6) (snk : Snk) (b : ByteBuffer) (n : Nat)
    (hn : 0 < n) (hinv : b.offset ≤ b.used ∧ b.used ≤ b.mem.length) :
    (n > byte_buffer_rest b → flenp_buffer_to_sink_n fuel k snk b n = (.err .einval, snk, b)) ∧
    (∀ m, (flenp_buffer_to_sink_n fuel k snk b n).1 = .ok m →
      m = (prefixSpec k n).length + n ∧
      (flenp_buffer_to_sink_n fuel k snk b n).2.1.got = snk.got ++ (prefixSpec k n ++ (unread b).take n) ∧
      (flenp_buffer_to_sink_n fuel k snk b n).2.2 = { b with offset := b.offset + n }) := by
  constructor
  · intro h; simp [flenp_buffer_to_sink_n, h]
  · intro m hm
    simp only [flenp_buffer_to_sink_n] at hm ⊢
    by_cases hr : n > byte_buffer_rest b
    · simp [hr] at hm
    · simp only [hr, ↓reduceIte] at hm ⊢
      have hlen : ((unread b).take n).length = n := by
        simp only [byte_buffer_rest] at hr
        simp [unread]; omega
      have hne : (unread b).take n ≠ [] := by
        intro h; rw [h] at hlen; simp at hlen; omega
      have spec := (memory_to_sink_spec fuel k hk snk ((unread b).take n) hne).1
      rcases hc : flenp_memory_to_sink fuel k snk ((unread b).take n) with ⟨r, s'⟩
      rw [hc] at spec hm
      cases r with
      | ok m' =>
        simp only at hm ⊢
        obtain ⟨_, f2, f3⟩ := spec m' rfl
        rw [hlen] at f2 f3
        simp only [R.ok.injEq] at hm
        exact ⟨by omega, f3, trivial⟩
      | err e => simp at hm
      | diverge => simp at hm

private theorem putChunks_spec (fuel : Nat) : ∀ (parts : List (List Octet)) (s : Snk),
    (∀ m, (putChunks fuel s parts).1 = .ok m → m ≠ 0 → (putChunks fuel s parts).2.got = s.got ++ parts.flatten) := by
  intro parts
  induction parts with
  | nil => intro s m _ _; simp [putChunks]
  | cons c cs ih =>
    intro s m hm hz
    simp only [putChunks] at hm ⊢
    by_cases he : c.isEmpty = true
    · simp only [he, ↓reduceIte] at hm ⊢
      have : c = [] := by simpa using he
      subst this
      simpa using ih s m hm hz
    · simp only [he, Bool.false_eq_true, ↓reduceIte] at hm ⊢
      obtain ⟨a1, _, _⟩ := Ufw.Props.C17.put_chunk_exact fuel s c
      rcases hc : sink_put_chunk fuel s c with ⟨r, s'⟩
      rw [hc] at a1 hm
      simp only at a1 hm ⊢
      cases r with
      | diverge => simp at hm
      | err e => simp at hm
      | ok k =>
        obtain ⟨hk, hg⟩ := a1 k rfl
        cases k with
        | zero => simp at hm; exact absurd hm.symm hz
        | succ k' =>
          simp only at hm ⊢
          rw [ih s' m hm hz, hg]
          simp [List.append_assoc]

/-- from a chunk list: the frame carries the concatenation of the unread parts from `active` on
    (empty chunks contribute nothing) -/
theorem chunks_to_sink_spec (fuel k : Nat) (hk : k < 6) (snk : Snk) (chunks : List ByteBuffer) (active : Nat) :
    let payload := (chunksRest chunks active).flatten
    ∀ m, (flenp_chunks_to_sink fuel k snk chunks active).1 = .ok m → m ≠ 0 →
      m = (prefixSpec k payload.length).length + payload.length ∧
      (flenp_chunks_to_sink fuel k snk chunks active).2.got = snk.got ++ (prefixSpec k payload.length ++ payload) := by
  intro payload m hm hz
  have hsum : ((chunksRest chunks active).map List.length).sum = payload.length := by
    simp [payload, List.length_flatten]
  simp only [flenp_chunks_to_sink, encode_prefix_spec k hk, hsum] at hm ⊢
  by_cases hmax : payload.length ≤ maxSpec k
  · simp only [hmax, ↓reduceIte] at hm ⊢
    by_cases hbig : payload.length > SSIZE_MAX - (prefixSpec k payload.length).length
    · simp [hbig] at hm
    · simp only [hbig, ↓reduceIte] at hm ⊢
      obtain ⟨a1, _, _⟩ := Ufw.Props.C17.put_chunk_exact fuel snk (prefixSpec k payload.length)
      rcases h1 : sink_put_chunk fuel snk (prefixSpec k payload.length) with ⟨r1, s1⟩
      rw [h1] at a1 hm
      simp only at a1 hm ⊢
      cases r1 with
      | diverge => simp at hm
      | err e => simp at hm
      | ok m1 =>
        obtain ⟨_, hg1⟩ := a1 m1 rfl
        simp only at hm ⊢
        have pc := putChunks_spec fuel (chunksRest chunks active) s1
        rcases h2 : putChunks fuel s1 (chunksRest chunks active) with ⟨r2, s2⟩
        rw [h2] at pc hm
        simp only at pc hm ⊢
        cases r2 with
        | diverge => simp at hm
        | err e => simp at hm
        | ok m2 =>
          cases m2 with
          | zero => simp at hm; exact absurd hm.symm hz
          | succ m' =>
            simp only [R.ok.injEq] at hm ⊢
            refine ⟨hm.symm, ?_⟩
            rw [pc (m' + 1) rfl (by omega), hg1, List.append_assoc]
  · simp [hmax] at hm

/-- the refusal is uniform over all entry points: a designated payload longer than the kind's
    maximum makes `encode_prefix` fail, and every entry point starts with it -/
theorem refuse_too_long (fuel k : Nat) (hk : k < 6) (n : Nat) (h : n > maxSpec k) :
    encode_prefix k n = .error .einval ∧ flenp_memory_encode k n = .error .einval ∧
    (∀ snk payload, payload.length = n → flenp_memory_to_sink fuel k snk payload = (.err .einval, snk)) := by
  have he : encode_prefix k n = .error .einval := by
    rw [encode_prefix_spec k hk]; simp; omega
  refine ⟨he, by simp [flenp_memory_encode, he], ?_⟩
  intro snk payload hl
  simp [flenp_memory_to_sink, hl, he]

/-- into a prefix object: the object holds the kind's encoding of the designated length and the
    payload view covers exactly the designated octets -/
theorem memory_encode_spec (k : Nat) (hk : k < 6) (n : Nat) (hn : 0 < n) (hmax : n ≤ maxSpec k) :
    flenp_memory_encode k n = .ok ⟨prefixSpec k n, n⟩ ∧
    (∀ b : ByteBuffer, flenp_buffer_encode k b = flenp_memory_encode k (byte_buffer_rest b)) ∧
    (∀ b : ByteBuffer, n ≤ byte_buffer_rest b →
      flenp_buffer_encode_n k b n = (.ok ⟨prefixSpec k n, n⟩, { b with offset := b.offset + n })) := by
  have he : flenp_memory_encode k n = .ok ⟨prefixSpec k n, n⟩ := by
    simp only [flenp_memory_encode, encode_prefix_spec k hk, hmax, ↓reduceIte]
    have : n ≠ 0 := by omega
    simp [this]
  refine ⟨he, fun _ => rfl, ?_⟩
  intro b hb
  have : ¬ n > byte_buffer_rest b := by omega
  simp [flenp_buffer_encode_n, this, he]

/-! #### decoding -/

private theorem prefixSpec_length (k : Nat) (hk : 1 ≤ k ∧ k < 6) (n : Nat) : (prefixSpec k n).length = (row k).size := by
  have h5 : k = 1 ∨ k = 2 ∨ k = 3 ∨ k = 4 ∨ k = 5 := by omega
  rcases h5 with rfl | rfl | rfl | rfl | rfl <;>
    simp [prefixSpec, row, Ufw.Gen.LenpKinds.table, Ufw.Lemmas.EndianSpec.store_length]

private theorem go_spec : ∀ (fuel i acc : Nat) (s : Src) (v : Nat) (s' : Src),
    decode_prefix.go fuel i acc s = (.ok v, s') →
    ∃ c, Ufw.Model.Varint.sourceLoop .enodata s.stream fuel i acc = .ok v c ∧ i < c ∧
      s'.stream = s.stream.drop (c - i) := by
  intro fuel
  induction fuel with
  | zero => intro i acc s v s' h; simp [decode_prefix.go] at h
  | succ fuel ih =>
    intro i acc s v s' h
    simp only [decode_prefix.go, source_get_octet] at h
    obtain ⟨c1, c2, _⟩ := call_spec s 1
    rcases hc : s.call 1 with ⟨rc, d, s1⟩
    rw [hc] at c1 c2 h
    simp only at c1 c2 h
    cases rc with
    | diverge => simp at h
    | err e => simp at h
    | ok k =>
      match d, h with
      | [], h => simp at h
      | [o], h =>
        simp only [List.length_singleton] at c1 c2
        have hst : s.stream = o :: s1.stream := by
          cases hs : s.stream with
          | nil => rw [hs] at c1; simp at c1
          | cons x xs => rw [hs] at c1 c2; simp at c1 c2; rw [c1, c2]
        simp only at h
        rw [hst, Ufw.Lemmas.Varint.sourceLoop_cons]
        have hdone : (o.toNat &&& 0x80 == 0) = decide (o.toNat < 128) := by
          have := Ufw.Lemmas.Varint.done_iff o
          simpa [Ufw.Model.Varint.varint_done, Ufw.Model.Varint.CONT] using this
        have hmask : o.toNat &&& 0x7f = o.toNat % 128 := by
          have := Ufw.Lemmas.Varint.mask_eq o
          simpa [Ufw.Model.Varint.DMASK] using this
        rw [hdone, hmask] at h
        by_cases hlt : o.toNat < 128
        · simp only [hlt, decide_true, ↓reduceIte, Prod.mk.injEq, Except.ok.injEq] at h ⊢
          exact ⟨i + 1, by rw [h.1], by omega, by simp [← h.2]⟩
        · simp only [hlt, decide_false, Bool.false_eq_true, ↓reduceIte] at h ⊢
          obtain ⟨c, e1, e2, e3⟩ := ih _ _ _ _ _ h
          refine ⟨c, e1, by omega, ?_⟩
          rw [e3]
          have : c - i = (c - (i + 1)) + 1 := by omega
          rw [this, List.drop_succ_cons]
      | _ :: _ :: _, h => simp at h

/-- decoding the prefix the encoder wrote returns the length and consumes exactly the prefix – for
    every kind, every driver script and every source kind -/
theorem decode_prefix_spec (fuel k : Nat) (hk : k < 6) (src : Src) (n : Nat) (hn : n ≤ maxSpec k)
    (rest : List Octet) (hs : src.stream = prefixSpec k n ++ rest) :
    ∀ len s', decode_prefix fuel k src = (.ok len, s') → len = n ∧ s'.stream = rest := by
  intro len s' h
  by_cases hv : k = 0
  · subst hv
    simp only [decode_prefix, isVariable, beq_self_eq_true, ↓reduceIte] at h
    obtain ⟨c, e1, _, e2⟩ := go_spec _ _ _ _ _ _ h
    have hn64 : n < 2 ^ 64 := by simp [maxSpec, SSIZE_MAX] at hn; omega
    have rt := Ufw.Props.C14.roundtrip_source_u64 .enodata n hn64 rest
    simp only [Ufw.Model.Varint.varint_u64_from_source, Ufw.Model.Varint.varint_from_source] at rt
    rw [hs] at e1 e2
    simp only [prefixSpec] at e1 e2
    rw [rt] at e1
    simp only [Ufw.Model.Varint.Dec.ok.injEq] at e1
    refine ⟨e1.1.symm, ?_⟩
    rw [e2, ← e1.2]; simp
  · have hk1 : 1 ≤ k ∧ k < 6 := by omega
    have hvar : isVariable k = false := by simp [isVariable, hv]
    simp only [decode_prefix, hvar, Bool.false_eq_true, ↓reduceIte] at h
    have hlen := prefixSpec_length k hk1 n
    obtain ⟨g1, _, _⟩ := Ufw.Props.C17.get_chunk_exact fuel src (row k).size
    rcases hc : source_get_chunk fuel src (row k).size with ⟨r, d, s1⟩
    rw [hc] at g1 h
    simp only at g1 h
    cases r with
    | diverge => simp at h
    | err e => simp at h
    | ok m =>
      obtain ⟨_, hd, _, hs1⟩ := g1 m rfl
      rw [hs, ← hlen] at hd hs1
      simp only [List.take_left', List.drop_left'] at hd hs1
      have h5 : k = 1 ∨ k = 2 ∨ k = 3 ∨ k = 4 ∨ k = 5 := by omega
      have ord1 : (Gen.LenpKinds.Order.little == Gen.LenpKinds.Order.big) = false := by decide
      rcases h5 with rfl | rfl | rfl | rfl | rfl <;>
        simp only [row, Ufw.Gen.LenpKinds.table, List.getElem?_cons_succ, List.getElem?_cons_zero, Option.getD_some] at h <;>
        simp only [Prod.mk.injEq, Except.ok.injEq] at h <;>
        obtain ⟨h1, h2⟩ := h <;>
        refine ⟨?_, by rw [← h2, hs1]⟩ <;>
        rw [← h1, hd] <;>
        simp only [prefixSpec, maxSpec] at hn ⊢
      · simp; omega
      all_goals (simp only [ord1, BEq.rfl, Ufw.Lemmas.EndianSpec.load_store]; omega)

/-- decoding a frame from a source (any driver script, octet or chunk style): success returns exactly
    the payload and leaves the source exactly behind the frame; a payload larger than the destination
    is refused with ENOMEM and nothing is written -/
theorem memory_from_source_spec (fuel k : Nat) (hk : k < 6) (src : Src) (payload rest : List Octet) (size : Nat)
    (hn : payload.length ≤ maxSpec k)
    (hs : src.stream = prefixSpec k payload.length ++ (payload ++ rest)) :
    (∀ m, (flenp_memory_from_source fuel k src size).1 = .ok m →
      m = payload.length ∧ payload.length ≤ size ∧
      (flenp_memory_from_source fuel k src size).2.1 = payload ∧
      (flenp_memory_from_source fuel k src size).2.2.stream = rest) ∧
    (payload.length > size → ∀ m, (flenp_memory_from_source fuel k src size).1 ≠ .ok m) ∧
    (payload.length > size → (flenp_memory_from_source fuel k src size).2.1 = []) := by
  have dp := decode_prefix_spec fuel k hk src payload.length hn (payload ++ rest) hs
  simp only [flenp_memory_from_source]
  rcases hc : decode_prefix fuel k src with ⟨r, s1⟩
  rw [hc] at dp
  cases r with
  | error e => simp
  | ok len =>
    obtain ⟨hl, hst⟩ := dp len s1 rfl
    subst hl
    simp only
    by_cases hbig : payload.length > size
    · simp [hbig]
    · simp only [hbig, ↓reduceIte]
      obtain ⟨g1, _, _⟩ := Ufw.Props.C17.get_chunk_exact fuel s1 payload.length
      refine ⟨?_, fun h => absurd h id, fun h => absurd h id⟩
      intro m hm
      obtain ⟨a, b, _, d⟩ := g1 m hm
      rw [hst] at b d
      simp only [List.take_left', List.drop_left'] at b d
      exact ⟨a, by omega, b, d⟩

/-- the payload is appended to a buffer's filled region (fill mark advanced by its length, read mark
    and earlier content untouched); capacity is the free space behind the fill mark -/
theorem buffer_from_source_spec (fuel k : Nat) (hk : k < 6) (src : Src) (payload rest : List Octet) (b : ByteBuffer)
    (hn : payload.length ≤ maxSpec k) (hinv : b.used ≤ b.size ∧ b.mem.length = b.size)
    (hs : src.stream = prefixSpec k payload.length ++ (payload ++ rest)) :
    ∀ m, (flenp_buffer_from_source fuel k src b).1 = .ok m →
      m = payload.length ∧
      (flenp_buffer_from_source fuel k src b).2.1.used = b.used + payload.length ∧
      (flenp_buffer_from_source fuel k src b).2.1.offset = b.offset ∧
      (flenp_buffer_from_source fuel k src b).2.1.mem.take (b.used + payload.length) = b.mem.take b.used ++ payload ∧
      (flenp_buffer_from_source fuel k src b).2.2.stream = rest := by
  intro m hm
  obtain ⟨ms, _, _⟩ := memory_from_source_spec fuel k hk src payload rest (byte_buffer_avail b) hn hs
  simp only [flenp_buffer_from_source] at hm ⊢
  rcases hc : flenp_memory_from_source fuel k src (byte_buffer_avail b) with ⟨r, d, s1⟩
  rw [hc] at ms hm
  simp only at ms hm ⊢
  cases r with
  | diverge =>
    simp only at hm
    split at hm <;> simp at hm
  | err e =>
    simp only at hm
    split at hm <;> simp at hm
  | ok m' =>
    obtain ⟨a1, a2, a3, a4⟩ := ms m' rfl
    subst a3
    subst a1
    simp only [List.take_length] at hm ⊢
    have hw : b.used + d.length ≤ b.mem.length := by
      simp only [byte_buffer_avail] at a2; omega
    simp only [writeAt, hw, ↓reduceIte] at hm ⊢
    simp only [R.ok.injEq] at hm
    refine ⟨hm.symm, trivial, trivial, ?_, a4⟩
    have hl : (List.take b.used b.mem).length = b.used := by simp; omega
    rw [← List.append_assoc, List.take_append_of_le_length (by simp; omega)]
    rw [List.take_of_length_le (by simp; omega)]

/-- decode up to `n` consecutive frames, stopping at the first call that fails -/
def decodeFrames (fuel k size : Nat) : Nat → Src → List (List Octet)
  | 0, _ => []
  | n + 1, src =>
    match flenp_memory_from_source fuel k src size with
    | (.ok m, d, src') => d.take m :: decodeFrames fuel k size n src'
    | _ => []

/-- consecutive frames on one stream decode in order however the source fragments its reads:
    whatever the driver script does, the payloads delivered are the first ones of the stream, in order
    (as many as there were successful calls) -/
theorem stream_order (fuel k : Nat) (hk : k < 6) (size : Nat) (ps : List (List Octet)) :
    ∀ (src : Src) (rest : List Octet), (∀ p ∈ ps, p.length ≤ maxSpec k) →
    src.stream = (ps.flatMap fun p => prefixSpec k p.length ++ p) ++ rest →
    decodeFrames fuel k size ps.length src <+: ps := by
  induction ps with
  | nil => intro src rest _ _; simp [decodeFrames]
  | cons p ps ih =>
    intro src rest hmax hs
    simp only [List.length_cons, decodeFrames]
    have hs' : src.stream = prefixSpec k p.length ++ (p ++ ((ps.flatMap fun p => prefixSpec k p.length ++ p) ++ rest)) := by
      simp [hs, List.append_assoc]
    obtain ⟨ms, _, _⟩ := memory_from_source_spec fuel k hk src p _ size (hmax p (by simp)) hs'
    rcases hc : flenp_memory_from_source fuel k src size with ⟨r, d, src'⟩
    rw [hc] at ms
    simp only at ms ⊢
    cases r with
    | diverge => simp
    | err e => simp
    | ok m =>
      obtain ⟨a1, _, a3, a4⟩ := ms m rfl
      subst a3
      subst a1
      simp only [List.take_length]
      have := ih src' rest (fun q hq => hmax q (by simp [hq])) a4
      exact List.prefix_cons_inj d |>.mpr this


/-- decoding a frame from a source straight into a sink: when it reports success the value is the announced
    length, exactly the `n` payload octets behind the prefix reached the sink, in order, and the source is left at
    the first octet behind the frame - however source and sink fragment, stall or interrupt the transfer -/
theorem source_to_sink_spec (fuel k : Nat) (hk : k < 6) (src : Src) (snk : Snk) (n : Nat) (hn : n ≤ maxSpec k)
    (rest : List Octet) (hs : src.stream = prefixSpec k n ++ rest) :
    ∀ m src' snk', flenp_decode_source_to_sink fuel k src snk = (.ok m, src', snk') →
      m = n ∧ snk'.got = snk.got ++ rest.take n ∧ (rest.take n).length = n ∧ src'.stream = rest.drop n := by
  intro m src' snk' h
  simp only [flenp_decode_source_to_sink] at h
  rcases hd : decode_prefix fuel k src with ⟨r, s1⟩
  rw [hd] at h
  cases r with
  | error e => simp at h
  | ok len =>
    simp only at h
    obtain ⟨rfl, hs1⟩ := decode_prefix_spec fuel k hk src n hn rest hs len s1 hd
    obtain ⟨c1, _, _⟩ := Ufw.Props.C17.sts_n_spec fuel s1 snk len len
    rw [h] at c1
    obtain ⟨rfl, d, hdl, ⟨a1, a2, _, _⟩, ⟨b1, _, _⟩⟩ := c1 m rfl
    simp only [List.append_nil] at a1 a2
    rw [hs1, hdl] at a1 a2
    refine ⟨rfl, ?_, ?_, a2⟩
    · rw [b1, a1]
    · rw [← a1]; exact hdl


end Ufw.Props.C13
