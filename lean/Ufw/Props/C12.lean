/-
C12 – SLIP framing is transparent, bounded and self-resynchronising.
Property theorems only.
-/
import Ufw.Model.Slip
import Ufw.Spec.Slip
import Ufw.Lemmas.Slip
import Ufw.Lemmas.SlipEp

namespace Ufw.Props.C12
open Ufw Ufw.Model.Slip Ufw.Lemmas.Slip

/-- state of a decoder that is ready for a new frame -/
abbrev ready (sof : Bool) : St := rfc1055_context_init sof

/-! #### the encoder -/

/-- the octets the encoder produces are the RFC 1055 frame of the payload -/
theorem enc_eq_rfc (sof : Bool) (p : List Octet) : enc sof p = Spec.Slip.frame sof p := by
  have h : ∀ p : List Octet, p.flatMap escape = Spec.Slip.stuff p := by
    intro p; induction p with
    | nil => rfl
    | cons o os ih =>
      simp only [List.flatMap_cons, Spec.Slip.stuff, ih, escape]
      by_cases h1 : o = RAW_ESC
      · subst h1; simp [RAW_ESC, Spec.Slip.END, Spec.Slip.ESC, Spec.Slip.ESC_ESC, ESC_ESC]
      · by_cases h2 : o = RAW_EOF
        · subst h2; simp [RAW_ESC, RAW_EOF, Spec.Slip.END, Spec.Slip.ESC, Spec.Slip.ESC_END, ESC_EOF]
        · have h3 : ¬ o = Spec.Slip.END := h2
          have h4 : ¬ o = Spec.Slip.ESC := h1
          simp [h1, h2, h3, h4]
  simp [enc, Spec.Slip.frame, h, RAW_EOF, Spec.Slip.END]

/-- what `rfc1055_encode` puts into a sink with enough room is `enc`, and it reports success -/
theorem encode_emits_enc (sof : Bool) (p : List Octet) (snk : Snk)
    (hroom : (enc sof p).length ≤ snk.room) :
    (rfc1055_encode sof (octets p) snk).ret = none ∧
    (rfc1055_encode sof (octets p) snk).snk.got = snk.got ++ enc sof p := by
  have putAll_ok : ∀ (l : List Octet) (s : Snk), l.length ≤ s.room →
      s.putAll l = (none, { s with got := s.got ++ l, room := s.room - l.length }) := by
    intro l; induction l with
    | nil => intro s _; simp [Snk.putAll]
    | cons o os ih =>
      intro s h
      simp only [List.length_cons] at h
      simp only [Snk.putAll, put_ok s o (by omega)]
      rw [ih _ (by simp; omega)]
      simp only [List.append_assoc, List.singleton_append, List.length_cons]
      congr 2; omega
  have loop : ∀ (p : List Octet) (s : Snk), (p.flatMap escape).length + 1 ≤ s.room →
      (encodeLoop (octets p) s).ret = none ∧
      (encodeLoop (octets p) s).snk.got = s.got ++ p.flatMap escape ++ [RAW_EOF] := by
    intro p; induction p with
    | nil =>
      intro s h
      simp only [octets, List.map_nil, encodeLoop, put_ok s RAW_EOF (by simp at h; omega)]
      simp
    | cons o os ih =>
      intro s h
      simp only [List.flatMap_cons, List.length_append] at h
      simp only [octets, List.map_cons, encodeLoop, putAll_ok (escape o) s (by omega)]
      have := ih { s with got := s.got ++ escape o, room := s.room - (escape o).length } (by
        show (os.flatMap escape).length + 1 ≤ s.room - (escape o).length
        omega)
      simp only [octets] at this
      simp only [this, List.flatMap_cons, List.append_assoc, and_self]
  cases sof with
  | false =>
    simp only [enc, Bool.false_eq_true, ↓reduceIte, List.nil_append, List.length_append,
      List.length_singleton] at hroom
    simp only [rfc1055_encode, Bool.false_eq_true, ↓reduceIte, enc, List.nil_append]
    have := loop p snk hroom
    simpa [List.append_assoc] using this
  | true =>
    simp only [enc, ↓reduceIte, List.length_append, List.length_singleton] at hroom
    simp only [rfc1055_encode, ↓reduceIte, put_ok snk RAW_EOF (by omega), enc]
    have := loop p { snk with got := snk.got ++ [RAW_EOF], room := snk.room - 1 } (by
      show (p.flatMap escape).length + 1 ≤ snk.room - 1
      omega)
    simpa [List.append_assoc] using this

/-- the delimiter octet occurs only as frame delimiter -/
theorem no_inner_delimiter (sof : Bool) (p : List Octet) :
    ∃ body, enc sof p = (if sof then [RAW_EOF] else []) ++ body ++ [RAW_EOF] ∧ RAW_EOF ∉ body :=
  ⟨p.flatMap escape, rfl, eof_not_in_body p⟩

/-- at most 2n+1 octets (2n+2 with start-of-frame delimiter) -/
theorem length_bound (sof : Bool) (p : List Octet) :
    (enc sof p).length ≤ 2 * p.length + (if sof then 2 else 1) := by
  have h : (p.flatMap escape).length ≤ 2 * p.length := by
    induction p with
    | nil => simp
    | cons o os ih =>
      simp only [List.flatMap_cons, List.length_append, List.length_cons]
      have : (escape o).length ≤ 2 := by
        rcases escape_cases o with ⟨_, e⟩ | ⟨_, e⟩ | ⟨_, _, e⟩ <;> simp [e]
      omega
  cases sof <;> simp only [enc, Bool.false_eq_true, ↓reduceIte, List.length_append, List.length_cons,
    List.length_nil, List.nil_append] <;> omega

/-! #### decoding what was encoded -/

/-- one call of the decoder on an encoded frame followed by anything: returns "frame", has handed
    exactly the payload to the sink, has consumed exactly the frame, is ready for the next one -/
theorem decode_encode (sof : Bool) (p : List Octet) (rest : List SrcEv) (snk : Snk)
    (hroom : p.length ≤ snk.room) :
    rfc1055_decode sof (ready sof) (octets (enc sof p) ++ rest) snk =
      ⟨.frame, ready sof, rest, { snk with got := snk.got ++ p, room := snk.room - p.length }⟩ := by
  cases sof with
  | false =>
    simp only [rfc1055_decode, ready, rfc1055_context_init, enc, Bool.false_eq_true, ↓reduceIte,
      List.nil_append, octets, List.map_append, List.append_assoc]
    have := decodeGo_body false p (octets [RAW_EOF] ++ rest) snk hroom
    simp only [octets] at this
    rw [this]
    simp [decodeGo, step, afterEof, RAW_EOF, RAW_ESC]
  | true =>
    simp only [rfc1055_decode, ready, rfc1055_context_init, enc, ↓reduceIte, octets, List.map_append,
      List.append_assoc, List.map_cons, List.map_nil, List.cons_append, List.nil_append]
    have h1 : step true .searchStart false RAW_EOF = (.normal, false, .none) := by simp [step]
    simp only [decodeGo, h1]
    have := decodeGo_body true p (octets [RAW_EOF] ++ rest) snk hroom
    simp only [octets, List.map_cons, List.map_nil, List.cons_append, List.nil_append] at this
    rw [this]
    simp [decodeGo, step, afterEof, RAW_EOF, RAW_ESC]

/-- a whole stream of encoded frames decodes to the same payloads, in order, and the decoder
    is ready again afterwards (so this also holds with any further input behind it) -/
theorem concat (sof : Bool) (ps : List (List Octet)) (rest : List Octet) :
    run sof (ready sof) false [] (ps.flatMap (enc sof) ++ rest) =
      ((ps.map Event.frame) ++ (run sof (ready sof) false [] rest).1,
       (run sof (ready sof) false [] rest).2) := by
  have one : ∀ (p rest : List Octet), run sof (ready sof) false [] (enc sof p ++ rest) =
      (.frame p :: (run sof (ready sof) false [] rest).1, (run sof (ready sof) false [] rest).2) := by
    intro p rest
    cases sof with
    | false =>
      simp only [ready, rfc1055_context_init, enc, Bool.false_eq_true, ↓reduceIte, List.nil_append,
        List.append_assoc]
      rw [run_body]
      simp [run, step, afterEof, RAW_EOF, RAW_ESC]
    | true =>
      simp only [ready, rfc1055_context_init, enc, ↓reduceIte, List.append_assoc, List.cons_append,
        List.nil_append]
      have h1 : step true .searchStart false RAW_EOF = (.normal, false, .none) := by simp [step]
      simp only [run, h1]
      rw [run_body]
      simp [run, step, afterEof, RAW_EOF, RAW_ESC]
  induction ps with
  | nil => simp
  | cons p ps ih =>
    simp only [List.flatMap_cons, List.append_assoc, List.map_cons, List.cons_append]
    rw [one, ih]

/-! #### resynchronisation -/

/-- classic mode: from ANY decoder situation, after arbitrary octets up to and including the next
    delimiter the decoder is ready, so every well-formed frame after it is delivered intact -/
theorem resync_classic (st : St) (esc : Bool) (out g : List Octet) (ps : List (List Octet))
    (rest : List Octet) (hout : Situation st out) :
    ∃ pre, run false st esc out (g ++ [RAW_EOF] ++ (ps.flatMap (enc false) ++ rest)) =
      (pre ++ ps.map Event.frame ++ (run false .normal false [] rest).1,
       (run false .normal false [] rest).2) := by
  -- a delimiter makes every situation "ready"
  have eof : ∀ (st : St) (esc : Bool) (out : List Octet), Situation st out →
      (run false st esc out [RAW_EOF]).2 = (.normal, false, []) := by
    intro st esc out ho
    cases st <;> cases esc <;> simp [run, step, afterEof, RAW_EOF, RAW_ESC, ESC_EOF, ESC_ESC] <;>
      exact ho (by simp)
  have sync : (run false st esc out (g ++ [RAW_EOF])).2 = (.normal, false, []) := by
    rw [run_append]
    exact eof _ _ _ (run_inv false g st esc out hout)
  rw [run_append, sync]
  have := concat false ps rest
  simp only [ready, rfc1055_context_init, Bool.false_eq_true, ↓reduceIte] at this
  rw [this]
  exact ⟨(run false st esc out (g ++ [RAW_EOF])).1, by simp [List.append_assoc]⟩

/-- start-of-frame mode: from ANY decoder situation, after arbitrary octets `g`, at most the first
    following non-empty frame `p0` is lost: every frame after it is delivered intact -/
theorem resync_sof (st : St) (esc : Bool) (out g p0 : List Octet) (hp0 : p0 ≠ [])
    (ps : List (List Octet)) (rest : List Octet) (hout : Situation st out) :
    ∃ pre, run true st esc out (g ++ enc true p0 ++ (ps.flatMap (enc true) ++ rest)) =
      (pre ++ ps.map Event.frame ++ (run true .searchStart false [] rest).1,
       (run true .searchStart false [] rest).2) := by
  -- whatever the situation, a complete non-empty frame leaves the decoder ready
  have sync : ∀ (st : St) (esc : Bool) (out : List Octet), Situation st out →
      (run true st esc out (enc true p0)).2 = (.searchStart, false, []) := by
    intro st esc out ho
    obtain ⟨b0, bs, hb⟩ : ∃ b0 bs, p0.flatMap escape = b0 :: bs := by
      cases p0 with
      | nil => exact absurd rfl hp0
      | cons o os =>
        rcases escape_cases o with ⟨_, e⟩ | ⟨_, e⟩ | ⟨_, _, e⟩ <;>
          simp only [List.flatMap_cons, e, List.cons_append, List.nil_append] <;> exact ⟨_, _, rfl⟩
    have hno := eof_not_in_body p0
    rw [hb] at hno
    have hb0 : b0 ≠ RAW_EOF := fun e => hno (by simp [e])
    have hbs : RAW_EOF ∉ bs := fun e => hno (by simp [e])
    -- the frame as seen from SEARCH_FOR_START with a non-delimiter first: lost, decoder ready after it
    have lost : (run true .searchStart false [] (b0 :: (bs ++ [RAW_EOF]))).2 = (.searchStart, false, []) := by
      simp only [run, step, hb0, ↓reduceIte]
      rw [run_searchEnd_skip true bs hbs]
      simp [run, step, afterEof]
    cases st with
    | searchStart =>
      simp only [enc, ↓reduceIte, List.append_assoc, List.cons_append, List.nil_append]
      have h1 : step true .searchStart esc RAW_EOF = (.normal, false, .none) := by simp [step]
      rw [run, h1]
      simp only
      rw [run_body]
      simp [run, step, afterEof, RAW_EOF, RAW_ESC]
    | searchEnd =>
      have ho' : out = [] := ho (by simp)
      subst ho'
      simp only [enc, ↓reduceIte, List.append_assoc, List.cons_append, List.nil_append, hb]
      have h1 : step true .searchEnd esc RAW_EOF = (.searchStart, false, .none) := by simp [step, afterEof]
      rw [run, h1]
      exact lost
    | normal =>
      simp only [enc, ↓reduceIte, List.append_assoc, List.cons_append, List.nil_append, hb]
      cases esc with
      | false =>
        have h1 : step true .normal false RAW_EOF = (.searchStart, false, .endOfFrame) := by
          simp [step, afterEof, RAW_EOF, RAW_ESC]
        rw [run, h1]
        exact lost
      | true =>
        have h1 : step true .normal true RAW_EOF = (.searchStart, false, .illegal) := by
          simp [step, afterEof, RAW_EOF, ESC_EOF, ESC_ESC]
        rw [run, h1]
        exact lost
  rw [List.append_assoc, run_append, run_append (a := enc true p0), sync _ _ _ (run_inv true g st esc out hout)]
  have := concat true ps rest
  simp only [ready, rfc1055_context_init, ↓reduceIte] at this
  rw [this]
  refine ⟨(run true st esc out g).1 ++ (run true (run true st esc out g).2.1 (run true st esc out g).2.2.1
      (run true st esc out g).2.2.2 (enc true p0)).1, by simp [List.append_assoc]⟩

/-! #### errors -/

/-- an invalid escape is reported as illegal sequence -/
theorem bad_escape (sof : Bool) (o : Octet) (h1 : o ≠ ESC_EOF) (h2 : o ≠ ESC_ESC)
    (rest : List SrcEv) (snk : Snk) :
    (rfc1055_decode sof .normal (.octet RAW_ESC :: .octet o :: rest) snk).ret = .error .eilseq := by
  simp [rfc1055_decode, decodeGo, step, h1, h2, RAW_ESC, RAW_EOF]

/-- the decoder never emits more octets than it consumed -/
theorem emit_le_consume (sof : Bool) (src : List SrcEv) : ∀ (st : St) (esc : Bool) (snk : Snk),
    (decodeGo sof st esc src snk).snk.got.length + (decodeGo sof st esc src snk).rest.length
      ≤ snk.got.length + src.length := by
  induction src with
  | nil => intro st esc snk; simp [decodeGo]
  | cons ev rest ih =>
    intro st esc snk
    cases ev with
    | err e => simp [decodeGo]
    | octet o =>
      simp only [decodeGo]
      rcases hs : step sof st esc o with ⟨st', esc', act⟩
      cases act with
      | none => have := ih st' esc' snk; simp only [List.length_cons]; omega
      | emit x =>
        simp only
        cases hp : snk.put x with
        | error e => simp
        | ok snk' =>
          have hg : snk'.got.length = snk.got.length + 1 := by
            unfold Snk.put at hp
            cases hr : snk.room with
            | zero => simp [hr] at hp
            | succ n => simp only [hr, Except.ok.injEq] at hp; rw [← hp]; simp
          have := ih st' esc' snk'
          simp only [List.length_cons]; omega
      | endOfFrame => simp
      | illegal => simp

/-- a source error in the middle of a frame is returned unchanged (everything before it has
    reached the sink) … -/
theorem source_error_passthrough (sof : Bool) (p : List Octet) (e : Err) (rest : List SrcEv) (snk : Snk)
    (hroom : p.length ≤ snk.room) :
    decodeGo sof .normal false (octets (p.flatMap escape) ++ .err e :: rest) snk =
      ⟨.error e, (if e = .eilseq then .searchEnd else .normal), rest,
        { snk with got := snk.got ++ p, room := snk.room - p.length }⟩ := by
  rw [decodeGo_body sof p _ snk hroom]; simp [decodeGo]

/-- … and so is a sink error: a sink with room for only k octets of the frame gets exactly the
    first k and its error code is the decoder's return value -/
theorem sink_error_passthrough (sof : Bool) (p : List Octet) (o : Octet) (q : List Octet)
    (rest : List SrcEv) (snk : Snk) (hroom : snk.room = p.length) :
    (decodeGo sof .normal false (octets ((p ++ o :: q).flatMap escape) ++ rest) snk).ret = .error snk.full ∧
    (decodeGo sof .normal false (octets ((p ++ o :: q).flatMap escape) ++ rest) snk).snk.got = snk.got ++ p := by
  simp only [List.flatMap_append, List.flatMap_cons, octets, List.map_append, List.append_assoc]
  have := decodeGo_body sof p (octets (escape o) ++ (octets (q.flatMap escape) ++ rest)) snk (by omega)
  simp only [octets] at this
  rw [this]
  have hput : ({ snk with got := snk.got ++ p, room := snk.room - p.length } : Snk).put o = .error snk.full := by
    simp [Snk.put, hroom]
  rcases step_escape sof o with ⟨a, e, h1⟩ | ⟨a, b, e, h1, h2⟩
  · rw [e]; simp only [List.map_cons, List.map_nil, List.cons_append, List.nil_append, decodeGo, h1, hput]
    simp
  · rw [e]; simp only [List.map_cons, List.map_nil, List.cons_append, List.nil_append, decodeGo, h1, h2, hput]
    simp

/-! #### non-vacuity -/

example : enc true [0x41#8, 0xc0#8, 0xdb#8] = [0xc0#8, 0x41#8, 0xdb#8, 0xdc#8, 0xdb#8, 0xdd#8, 0xc0#8] := by
  decide
example : (run true .searchEnd false [] ([0x01#8] ++ enc true [0x41#8] ++ enc true [0x42#8])).1
    = [.illegal [], .frame [0x42#8]] := by decide
example : (run false .searchEnd false [] ([0x01#8, 0xc0#8] ++ enc false [0x41#8] ++ enc false [0x42#8])).1
    = [.frame [0x41#8], .frame [0x42#8]] := by decide

/-! ### the encoder over the endpoint layer -/

/-- The encoder on top of endpoint drivers that only fragment their transfers (a transfer of one or more
    octets per driver call, octet- or chunk-style, on the source and on the sink side): `rfc1055_encode`
    succeeds, reads the whole stream, and the sink has received exactly the RFC 1055 frame - both octets of
    every escape sequence included, however little room a single driver call offers. -/
theorem encode_over_fragmenting_drivers (fuel : Nat) (hf : 2 ≤ fuel) (sof : Bool)
    (src : Ufw.Model.Endpoints.Src) (snk : Ufw.Model.Endpoints.Snk)
    (hps : Ufw.Lemmas.SlipEp.Plain src.script) (hpk : Ufw.Lemmas.SlipEp.Plain snk.script) :
    (Ufw.Model.SlipEp.rfc1055_encode fuel sof src snk).1 = .ok 0 ∧
    (Ufw.Model.SlipEp.rfc1055_encode fuel sof src snk).2.2.got = snk.got ++ Spec.Slip.frame sof src.stream ∧
    (Ufw.Model.SlipEp.rfc1055_encode fuel sof src snk).2.1.stream = [] := by
  rw [← enc_eq_rfc]
  exact Ufw.Lemmas.SlipEp.encode_plain fuel hf sof src snk hps hpk

-- the hypotheses are met by a sink that takes one octet per call and a source that delivers two at most
example : Ufw.Lemmas.SlipEp.Plain [.xfer 1, .xfer 1, .xfer 2] := by
  intro st hs
  simp only [List.mem_cons, List.not_mem_nil, or_false] at hs
  rcases hs with rfl | rfl | rfl <;> exact ⟨_, rfl, by omega⟩

end Ufw.Props.C12
