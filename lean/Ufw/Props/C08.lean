/-
C08 – every emitted frame is spec-conformant and round-trips through the receiver.
Property theorems only; helper lemmas live in Ufw/Lemmas/Regp.lean.

`Spec.Regp.wire serial f` is the octet string doc/regp.txt prescribes for frame `f` on a
transport: big-endian header fields, CRC-16/ARC header checksum exactly on serial links,
payload checksum exactly on serial links with payload, SLIP framing without start delimiter
resp. protobuf-varint length prefix.
-/
import Ufw.Lemmas.Regp
import Ufw.Lemmas.RegpRecv
import Ufw.Lemmas.RegpSpec
import Ufw.Props.C07

namespace Ufw.Props.C08
open Ufw Ufw.Model.Regp Ufw.Lemmas.Regp
open Ufw.Model.Slip (Snk SrcEv)
open Ufw.Spec.Regp (Frame MType wire request errorResponse ackResponse metaFrame carriesValue crc16)

/-- the request a header stands for when an emitter answers it -/
def reqOf (h : Hdr) : Frame := request (h.type = 2) false h.seq h.addr 0 []

/-- a sink that has room for `w` -/
def Fits (snk : Snk) (w : List Octet) : Prop := w.length ≤ snk.room

/-- what "emits exactly `w` and reports success" means -/
def Emits (s : Sent) (snk : Snk) (w : List Octet) : Prop := s.rc = none ∧ s.snk.got = snk.got ++ w

private theorem emits_of (c : Cfg) (snk : Snk) (msem : Msem) (f : Frame) (pl : Option (List Octet))
    (t code seq addr n plc : Nat)
    (e1 : f.type.code = t) (e2 : f.code = code) (e3 : f.seq = seq) (e4 : f.addr = addr) (e5 : f.size = n)
    (e6 : crc16 f.payload = plc)
    (hws : ws16Of c msem = f.ws16)
    (hpl : plOf c f.type.code f.size = (c.serial && !f.payload.isEmpty))
    (hcode : f.code < 16) (hpay : pl.getD [] = f.payload)
    (hroom : Fits snk (wire c.serial f)) :
    Emits (send_memory c snk (encode_header c msem t code seq addr n plc) pl) snk (wire c.serial f) := by
  subst e1 e2 e3 e4 e5 e6
  have ho := frame_octets_eq c msem f hws hpl hcode
  have key := send_memory_spec c snk (encode_header c msem f.type.code f.code f.seq f.addr f.size (crc16 f.payload)) pl
  simp only [hpay, ← ho] at key
  have hw : wire c.serial f = (if c.serial then Ufw.Spec.Slip.frame false (f.onTransport c.serial).octets
      else Ufw.Spec.Regp.leb128 (f.onTransport c.serial).octets.length ++ (f.onTransport c.serial).octets) := by
    simp only [wire]
  rw [hw]
  exact key (by rw [← hw]; exact hroom)

/-- read requests, 8- and 16-bit semantics: wire image and session counter -/
theorem req_read_wire (c : Cfg) (snk : Snk) (seq : Nat) (s16 : Bool) (a n : Nat)
    (hroom : Fits snk (wire c.serial (request false s16 seq a n []))) :
    Emits (regp_req_read c snk seq s16 a n).1 snk (wire c.serial (request false s16 seq a n [])) ∧
    (regp_req_read c snk seq s16 a n).2 = (seq + 1) % 65536 := by
  refine ⟨?_, rfl⟩
  simp only [regp_req_read]
  exact emits_of c snk (if s16 then .s16 else .s8) (request false s16 seq a n []) none 0 0 seq a n 0
    rfl rfl rfl rfl rfl rfl
    (by cases s16 <;> simp [ws16Of, request]) (by simp [plOf, request, MType.code]) (by simp [request]) rfl hroom

/-- write requests: the payload is the octet image of `n` atoms -/
theorem req_write_wire (c : Cfg) (snk : Snk) (seq : Nat) (s16 : Bool) (a n : Nat) (buf : List Octet)
    (hlen : buf.length = n * (if s16 then 2 else 1))
    (hroom : Fits snk (wire c.serial (request true s16 seq a n buf))) :
    Emits (regp_req_write c snk seq s16 a n buf).1 snk (wire c.serial (request true s16 seq a n buf)) ∧
    (regp_req_write c snk seq s16 a n buf).2 = (seq + 1) % 65536 := by
  refine ⟨?_, rfl⟩
  have hne : 0 < n ↔ buf ≠ [] := by
    rw [Ne, ← List.length_eq_zero_iff, hlen]
    cases s16 <;> simp <;> omega
  simp only [regp_req_write]
  exact emits_of c snk (if s16 then .s16 else .s8) (request true s16 seq a n buf) (some buf) 2 0 seq a n (crcOf 0 buf)
    rfl rfl rfl rfl rfl (by simp [request, crcOf_eq])
    (by cases s16 <;> simp [ws16Of, request])
    (by
      simp only [plOf, request, MType.code, ↓reduceIte]
      cases c.serial <;> cases hb : buf.isEmpty <;> simp_all [List.isEmpty_iff])
    (by simp [request]) rfl hroom

private theorem resp_type (h : Hdr) (ht : h.type = 0 ∨ h.type = 2) :
    (Ufw.Spec.Regp.responseType (reqOf h).type).code = req2resp h.type ∧
    (Ufw.Spec.Regp.responseType (reqOf h).type).code ≠ 0 := by
  rcases ht with ht | ht <;> simp [reqOf, request, ht, req2resp, Ufw.Spec.Regp.responseType, MType.code]

/-- error responses without payload (EWORDSIZE, EPAYLOADCRC, EPAYLOADSIZE, EBUSY, EIO): octet
    semantics, block size 0, echo of sequence number and address -/
theorem resp0_wire (c : Cfg) (snk : Snk) (h : Hdr) (code value : Nat) (ht : h.type = 0 ∨ h.type = 2)
    (hc : code < 16) (hv : carriesValue code = false)
    (hroom : Fits snk (wire c.serial (errorResponse (reqOf h) code value))) :
    Emits (send_resp_0 c snk h code .s8) snk (wire c.serial (errorResponse (reqOf h) code value)) := by
  have hty := resp_type h ht
  simp only [send_resp_0]
  exact emits_of c snk .s8 (errorResponse (reqOf h) code value) none (req2resp h.type) code h.seq h.addr 0 0
    hty.1 rfl rfl rfl (by simp [errorResponse, hv]) (by simp [errorResponse, hv, crc16, Ufw.Spec.Crc.crc])
    (by simp [ws16Of, errorResponse])
    (by simp [plOf, errorResponse, hv])
    (by simp [errorResponse, hc]) (by simp [errorResponse, hv]) hroom

/-- error responses that carry a 32-bit value (ERXOVERFLOW, ETXOVERFLOW: the buffer size;
    EUNMAPPED, EACCESS, ERANGE, EINVALID: the reported address): four octets big-endian, block
    size 4 in octet semantics, payload checksum on serial links -/
theorem resp32_wire (c : Cfg) (snk : Snk) (h : Hdr) (code value : Nat) (ht : h.type = 0 ∨ h.type = 2)
    (hc : code < 16) (hv : carriesValue code = true)
    (hroom : Fits snk (wire c.serial (errorResponse (reqOf h) code value))) :
    Emits (send_resp_32 c snk h code value .s8) snk (wire c.serial (errorResponse (reqOf h) code value)) := by
  have hty := resp_type h ht
  have hne : (Ufw.Spec.Regp.be 4 value) ≠ [] := by
    intro h0; have := be_length 4 value; rw [h0] at this; simp at this
  simp only [send_resp_32, msem_size]
  exact emits_of c snk .s8 (errorResponse (reqOf h) code value) (some (be32 value)) (req2resp h.type) code h.seq h.addr
    (2 * 2) (crcOf 0 (be32 value))
    hty.1 rfl rfl rfl (by simp [errorResponse, hv, be_length]) (by simp [errorResponse, hv, crcOf_eq, be32, Ufw.Spec.Regp.be])
    (by simp [ws16Of, errorResponse])
    (by
      have h2 := hty.2
      simp only [plOf, errorResponse, hv, ↓reduceIte, be_length]
      cases c.serial <;> simp_all [List.isEmpty_iff])
    (by simp [errorResponse, hc]) (by simp [errorResponse, hv, be32, Ufw.Spec.Regp.be]) hroom

/-- acknowledgements: the delivered atoms (a read) or nothing (a write), word size of the
    attached memory, block size = number of atoms -/
theorem ack_wire (c : Cfg) (snk : Snk) (h : Hdr) (d : List Octet) (n : Nat) (ht : h.type = 0 ∨ h.type = 2)
    (hlen : d.length = n * (if c.mem16 then 2 else 1))
    (hroom : Fits snk (wire c.serial (ackResponse (reqOf h) c.mem16 d))) :
    Emits (regp_resp_ack c snk h (some d) n) snk (wire c.serial (ackResponse (reqOf h) c.mem16 d)) := by
  have hty := resp_type h ht
  have hsz : (if c.mem16 then d.length / 2 else d.length) = n := by
    rw [hlen]; cases c.mem16 <;> simp
  have hne : 0 < n ↔ d ≠ [] := by
    rw [Ne, ← List.length_eq_zero_iff, hlen]
    cases c.mem16 <;> simp <;> omega
  simp only [regp_resp_ack]
  exact emits_of c snk .auto (ackResponse (reqOf h) c.mem16 d) (some d) (req2resp h.type) 0 h.seq h.addr n (crcOf 0 d)
    hty.1 rfl rfl rfl (by simp [ackResponse, hsz]) (by simp [ackResponse, crcOf_eq])
    (by simp [ws16Of, ackResponse])
    (by
      have h2 := hty.2
      simp only [plOf, ackResponse, hsz]
      cases c.serial <;> cases hb : d.isEmpty <;> simp_all [List.isEmpty_iff])
    (by simp [ackResponse]) (by simp [ackResponse]) hroom

/-- the acknowledgement of a write: no payload at all -/
theorem ack_empty_wire (c : Cfg) (snk : Snk) (h : Hdr) (ht : h.type = 0 ∨ h.type = 2)
    (hroom : Fits snk (wire c.serial (ackResponse (reqOf h) c.mem16 []))) :
    Emits (regp_resp_ack c snk h none 0) snk (wire c.serial (ackResponse (reqOf h) c.mem16 [])) := by
  have hty := resp_type h ht
  simp only [regp_resp_ack]
  exact emits_of c snk .auto (ackResponse (reqOf h) c.mem16 []) none (req2resp h.type) 0 h.seq h.addr 0 0
    hty.1 rfl rfl rfl (by simp [ackResponse]) (by simp [ackResponse, crc16, Ufw.Spec.Crc.crc])
    (by simp [ws16Of, ackResponse])
    (by simp [plOf, ackResponse])
    (by simp [ackResponse]) (by simp [ackResponse]) hroom

/-- meta messages -/
theorem meta_wire (c : Cfg) (snk : Snk) (m : Nat) (hm : m < 16)
    (hroom : Fits snk (wire c.serial (metaFrame m))) :
    Emits (regp_resp_meta c snk m) snk (wire c.serial (metaFrame m)) := by
  simp only [regp_resp_meta]
  exact emits_of c snk .s8 (metaFrame m) none 15 m 0 0 0 0
    rfl rfl rfl rfl rfl (by simp [metaFrame, crc16, Ufw.Spec.Crc.crc])
    (by simp [ws16Of, metaFrame]) (by simp [plOf, metaFrame]) (by simp [metaFrame, hm]) (by simp [metaFrame]) hroom

/-! ### the frames the emitters produce are well-formed -/

theorem request_wf (serial write ws16 : Bool) (seq addr n : Nat) (payload : List Octet)
    (hs : seq < 65536) (ha : addr < 4294967296) (hn : n < 4294967296)
    (hlen : payload.length = if write then n * (if ws16 then 2 else 1) else 0) :
    WellFormed ((request write ws16 seq addr n payload).onTransport serial) := by
  constructor
  · cases write <;> simp [request, Frame.onTransport, Ufw.Spec.Regp.codeValid]
  · simpa [request, Frame.onTransport] using hs
  · simpa [request, Frame.onTransport] using ha
  · simpa [request, Frame.onTransport] using hn
  · cases write <;> cases ws16 <;>
      simp [request, Frame.onTransport, Ufw.Spec.Regp.sizeValid] at hlen ⊢ <;>
      first | assumption | (subst hlen; simp) | omega
  · intro h
    simp only [Frame.onTransport, Bool.and_eq_true, Bool.not_eq_eq_eq_not, Bool.not_true] at h
    simpa [request, Frame.onTransport, List.isEmpty_iff] using h.2

theorem errorResponse_wf (serial : Bool) (h : Hdr) (code value : Nat) (hc : code ≤ 11)
    (hs : h.seq < 65536) (ha : h.addr < 4294967296) :
    WellFormed ((errorResponse (reqOf h) code value).onTransport serial) := by
  have hl := be_length 4 value
  constructor
  · by_cases h2 : h.type = 2 <;>
      simp [errorResponse, reqOf, request, Frame.onTransport, Ufw.Spec.Regp.codeValid, Ufw.Spec.Regp.responseType, h2, hc]
  · simpa [errorResponse, reqOf, request, Frame.onTransport] using hs
  · simpa [errorResponse, reqOf, request, Frame.onTransport] using ha
  · simp only [errorResponse, Frame.onTransport]
    split <;> simp [hl]
  · by_cases h2 : h.type = 2 <;>
      simp [errorResponse, reqOf, request, Frame.onTransport, Ufw.Spec.Regp.sizeValid, Ufw.Spec.Regp.responseType, h2]
  · intro hp
    simp only [Frame.onTransport, Bool.and_eq_true, Bool.not_eq_eq_eq_not, Bool.not_true] at hp
    simpa [errorResponse, Frame.onTransport, List.isEmpty_iff] using hp.2

theorem ackResponse_wf (serial mem16 : Bool) (h : Hdr) (d : List Octet) (n : Nat)
    (hlen : d.length = n * (if mem16 then 2 else 1)) (hn : n < 4294967296)
    (hs : h.seq < 65536) (ha : h.addr < 4294967296) :
    WellFormed ((ackResponse (reqOf h) mem16 d).onTransport serial) := by
  constructor
  · by_cases h2 : h.type = 2 <;>
      simp [ackResponse, reqOf, request, Frame.onTransport, Ufw.Spec.Regp.codeValid, Ufw.Spec.Regp.responseType, h2]
  · simpa [ackResponse, reqOf, request, Frame.onTransport] using hs
  · simpa [ackResponse, reqOf, request, Frame.onTransport] using ha
  · cases mem16 <;> simp [ackResponse, Frame.onTransport] at hlen ⊢ <;> omega
  · by_cases h2 : h.type = 2 <;> cases mem16 <;>
      simp [ackResponse, reqOf, request, Frame.onTransport, Ufw.Spec.Regp.sizeValid, Ufw.Spec.Regp.responseType, h2] at hlen ⊢ <;>
      omega
  · intro hp
    simp only [Frame.onTransport, Bool.and_eq_true, Bool.not_eq_eq_eq_not, Bool.not_true] at hp
    simpa [ackResponse, Frame.onTransport, List.isEmpty_iff] using hp.2

theorem metaFrame_wf (serial : Bool) (m : Nat) (hm : m = 1 ∨ m = 2) :
    WellFormed ((metaFrame m).onTransport serial) := by
  constructor <;> simp [metaFrame, Frame.onTransport, Ufw.Spec.Regp.codeValid, Ufw.Spec.Regp.sizeValid, hm]

/-! ### every emitted frame is accepted by the receiver, with the same fields -/

open Ufw.Lemmas.Slip (octets) in
/-- the receiver run on the wire image of a well-formed frame: no error, the frame is returned
    in a block, and its parsed fields - type, option bits, code, sequence number, address, block
    size, payload - are those of the frame; the source is consumed exactly up to the frame's end
    and nothing is sent.  (`WellFormed` holds for every frame the emitters produce:
    `request_wf`, `errorResponse_wf`, `ackResponse_wf`, `metaFrame_wf`.) -/
theorem emit_recv (p : Inst) (f : Frame) (rest : List SrcEv)
    (hsrc : p.src = octets (wire p.cfg.serial f) ++ rest)
    (wf : WellFormed (f.onTransport p.cfg.serial))
    (hal : p.al.script.head?.getD false = false)
    (hfit : (f.onTransport p.cfg.serial).octets.length ≤ p.cfg.B - p.cfg.F)
    (h64 : (f.onTransport p.cfg.serial).octets.length < 2 ^ 64) :
    ∃ h off,
      (regp_recv p).2.1 = { err := none, framesize := 0,
                            frame := some { raw := (f.onTransport p.cfg.serial).octets, hdr := some (h, off) } } ∧
      frameWith f.type h ((f.onTransport p.cfg.serial).octets.drop (2 * off)) = f.onTransport p.cfg.serial ∧
      h.type = f.type.code ∧
      (regp_recv p).1 = none ∧ (regp_recv p).2.2.snk = p.snk ∧ (regp_recv p).2.2.src = rest ∧
      (regp_recv p).2.2.al.live = p.al.live + 1 := by
  have hch : channelRecv p.cfg p.src = (none, (f.onTransport p.cfg.serial).octets, rest) := by
    rw [hsrc]
    cases hs : p.cfg.serial
    · have := channelRecv_tcp p.cfg hs (f.onTransport false).octets rest (by rw [hs] at h64; exact h64)
      simpa [wire, hs] using this
    · have := channelRecv_serial p.cfg hs (f.onTransport true).octets rest
      simpa [wire, hs] using this
  have hne : (f.onTransport p.cfg.serial).octets ≠ [] := by
    intro h0
    have := classify_octets _ wf
    rw [h0] at this
    simp [Ufw.Spec.Regp.classify] at this
  obtain ⟨hmf, hsrc', hal', _, _, hreply⟩ := recv_stored p _ rest hch hne hal hfit
  have hv := Ufw.Props.C07.verdict_eq_spec (f.onTransport p.cfg.serial).octets
  rw [classify_octets _ wf] at hv
  rcases hpf : parse_frame (f.onTransport p.cfg.serial).octets with ⟨r, ho⟩
  rw [hpf] at hv hmf hreply
  cases r with
  | error e =>
    exfalso
    cases ho with
    | none =>
      simp only [verdictOf] at hv
      by_cases h1 : e = .ebadmsg
      · simp [h1] at hv
      · by_cases h2 : e = .eilseq <;> simp [h1, h2] at hv
    | some v =>
      obtain ⟨hd, off⟩ := v
      simp only [verdictOf] at hv
      by_cases h1 : e = .efault
      · cases hty : MType.ofCode hd.type <;> simp [h1, hty] at hv
      · by_cases h2 : e = .eproto
        · cases hty : MType.ofCode hd.type <;> simp [h2, hty] at hv
        · simp [h1, h2] at hv
  | ok v =>
    cases ho with
    | none => simp [verdictOf] at hv
    | some v' =>
      obtain ⟨hd, off⟩ := v'
      simp only [verdictOf] at hv
      cases hty : MType.ofCode hd.type with
      | none => simp [hty] at hv
      | some t =>
        simp only [hty, Option.map_some, Option.some.injEq, Ufw.Spec.Regp.Verdict.accept.injEq] at hv
        have htype : t = f.type := by
          have := congrArg Frame.type hv
          simpa [frameWith, Frame.onTransport] using this
        subst htype
        refine ⟨hd, off, ?_, hv, ofCode_some _ _ hty, ?_, ?_, hsrc', ?_⟩
        · simpa [errOf] using hmf
        · simpa using congrArg Prod.fst hreply
        · simpa using congrArg Prod.snd hreply
        · rw [hal']


/-! ### successive requests of a session -/

/-- a request as the caller asks for it -/
inductive Req
  | read (s16 : Bool) (a n : Nat)
  | write (s16 : Bool) (a n : Nat) (buf : List Octet)

/-- one request emitter call: what is sent and the session counter afterwards -/
def emitReq (c : Cfg) (snk : Snk) (seq : Nat) : Req → Sent × Nat
  | .read s16 a n => regp_req_read c snk seq s16 a n
  | .write s16 a n buf => regp_req_write c snk seq s16 a n buf

/-- a session: the counter the instance keeps is handed from each request to the next -/
def session (c : Cfg) (snk : Snk) : Nat → List Req → List Sent
  | _, [] => []
  | seq, r :: rest => (emitReq c snk seq r).1 :: session c snk (emitReq c snk seq r).2 rest

/-- successive requests of a session carry sequence numbers increasing by one modulo 2^16: the k-th request is
    emitted exactly as a single request with sequence number (start + k) mod 2^16 - whose wire image
    `req_read_wire` / `req_write_wire` give -/
theorem session_sequence (c : Cfg) (snk : Snk) (reqs : List Req) :
    ∀ (seq0 k : Nat) (r : Req), seq0 < 65536 → reqs[k]? = some r →
      (session c snk seq0 reqs)[k]? = some (emitReq c snk ((seq0 + k) % 65536) r).1 := by
  induction reqs with
  | nil => intro seq0 k r _ h; simp at h
  | cons x rest ih =>
    intro seq0 k r h0 h
    cases k with
    | zero =>
      simp only [List.getElem?_cons_zero, Option.some.injEq] at h
      subst h
      simp only [session, List.getElem?_cons_zero, Nat.add_zero, Nat.mod_eq_of_lt h0]
    | succ k =>
      simp only [List.getElem?_cons_succ] at h
      have hnext : (emitReq c snk seq0 x).2 = (seq0 + 1) % 65536 := by
        cases x <;> rfl
      simp only [session, List.getElem?_cons_succ, hnext]
      rw [ih ((seq0 + 1) % 65536) k r (Nat.mod_lt _ (by omega)) h]
      have : ((seq0 + 1) % 65536 + k) % 65536 = (seq0 + (k + 1)) % 65536 := by omega
      rw [this]

/-- in particular the counter wraps from 0xffff to 0 -/
example : (emitReq c snk 65535 (.read false 0 1)).2 = 0 := rfl


end Ufw.Props.C08
