/-
C07 – corrupted frames are never executed nor acknowledged.  Property theorems only; helper
lemmas live in Ufw/Lemmas/Regp*.lean and Ufw/Lemmas/CrcAlgebra.lean.

`Spec.Regp.classify` is the independent reading of doc/regp.txt of an arbitrary octet string;
`verdictOf` (Ufw/Lemmas/RegpVerdict.lean) presents the outcome of the model's `parse_frame`
(error id and parsed fields) as a verdict of that reading.
-/
import Ufw.Lemmas.RegpVerdict
import Ufw.Lemmas.RegpRecv
import Ufw.Lemmas.RegpSpec
import Ufw.Lemmas.RegpBurst
import Ufw.Lemmas.CrcTwoBit
import Ufw.Lemmas.RegpWord0

namespace Ufw.Props.C07
open Ufw Ufw.Model.Regp Ufw.Lemmas.Regp
open Ufw.Model.Slip (Snk SrcEv)
open Ufw.Spec.Regp (Frame MType Verdict classify crc16)

/-- for EVERY octet string the receiver's verdict - accept, bad header encoding (EBADMSG), bad
    header checksum (EILSEQ), implausible payload size (EFAULT), bad payload checksum (EPROTO) -
    and the fields it reports are those of the document's reading -/
theorem verdict_eq_spec (raw : List Octet) : verdictOf raw (parse_frame raw) = some (classify raw) := by
  simp only [parse_frame, parse_header, classify, RP_HEADER_MIN_SIZE]
  by_cases h : raw.length < 12
  · simp [h, parse_frame_rest, verdictOf]
  · simp only [h, ↓reduceIte]
    exact verdict_word raw h _

/-- in particular the payload checksum is verified whenever the frame declares one: a frame that
    gets through with the WITH-PAYLOAD-CRC option and a payload carries the CRC-16/ARC of exactly
    that payload -/
theorem accepted_payload_checksum (raw : List Octet) (h : Hdr) (off : Nat)
    (hok : (parse_frame raw).1 = .ok (h, off)) (hpl : h.opts / 4 % 2 = 1) (hne : raw.drop (2 * off) ≠ []) :
    h.plcrc = crc16 (raw.drop (2 * off)) := by
  simp only [parse_frame] at hok
  cases hph : parse_header raw with
  | error e => simp [hph, parse_frame_rest] at hok
  | ok v =>
    obtain ⟨h', off'⟩ := v
    simp only [hph, parse_frame_rest] at hok
    cases hpc : payload_checks h' (raw.drop (2 * off')) with
    | some e => simp [hpc] at hok
    | none =>
      simp only [hpc, Except.ok.injEq, Prod.mk.injEq] at hok
      obtain ⟨e1, e2⟩ := hok
      subst e1 e2
      -- the type got through `parse_header`, so it is one of the five codes
      have hv := verdict_eq_spec raw
      simp only [parse_frame, hph, parse_frame_rest, hpc, verdictOf] at hv
      cases hty : MType.ofCode h'.type with
      | none => simp [hty] at hv
      | some t =>
        have htc := ofCode_some _ _ hty
        rw [payload_checks_eq h' _ t htc] at hpc
        by_cases hs : Ufw.Spec.Regp.sizeValid (frameWith t h' (raw.drop (2 * off'))) = true
        · simp only [hs, Bool.not_true, Bool.false_eq_true, ↓reduceIte] at hpc
          by_cases hc : h'.plcrc = crc16 (raw.drop (2 * off'))
          · exact hc
          · simp [frameWith, hpl, hne, hc, List.isEmpty_iff] at hpc
        · simp [hs] at hpc

/-- a frame whose reception left an error id is never handed to the memory backend, and what is
    sent for it is never an acknowledgement: nothing at all, or for a request with a payload fault
    the EPAYLOADCRC / EPAYLOADSIZE error response -/
theorem rejected_not_executed (c : Cfg) (snk : Snk) (mf : MaybeFrame) (be : Backend) (e : Err)
    (herr : mf.err = some e) :
    (regp_process c snk mf be).2 = [] ∧
    ((regp_process c snk mf be).1 = ⟨none, snk⟩ ∨
     ∃ h, (is_request h = true) ∧
       ((e = .eproto ∧ (regp_process c snk mf be).1 = send_resp_0 c snk h 2 .s8) ∨
        (e = .efault ∧ (regp_process c snk mf be).1 = send_resp_0 c snk h 3 .s8))) := by
  simp only [regp_process]
  cases hf : mf.frame with
  | none => simp
  | some blk =>
    simp only [herr]
    by_cases h1 : e = .eproto
    · subst h1
      cases hh : blk.hdr with
      | none => simp
      | some v =>
        obtain ⟨h, off⟩ := v
        by_cases hr : is_request h = true
        · simp only [hr, ↓reduceIte, true_and]
          exact Or.inr ⟨h, hr, Or.inl rfl⟩
        · simp [hr]
    · by_cases h2 : e = .efault
      · subst h2
        cases hh : blk.hdr with
        | none => simp
        | some v =>
          obtain ⟨h, off⟩ := v
          by_cases hr : is_request h = true
          · simp only [hr, ↓reduceIte, true_and]
            exact Or.inr ⟨h, hr, Or.inr rfl⟩
          · simp [hr]
      · cases e <;> simp_all

/-- reception of a delivered octet string that the document does not accept: the maybe-frame
    carries an error id, header faults are answered with the META message (EHEADERENC = 1 for bad
    encoding, EHEADERCRC = 2 for a bad header checksum), payload faults with nothing yet (the error
    response is sent by `regp_process`, see `rejected_not_executed`) -/
theorem damaged_frame_reception (p : Inst) (raw : List Octet) (rest : List SrcEv)
    (hch : channelRecv p.cfg p.src = (none, raw, rest))
    (hne : raw ≠ []) (hal : p.al.script.head?.getD false = false) (hfit : raw.length ≤ p.cfg.B - p.cfg.F)
    (hbad : ∀ f, classify raw ≠ .accept f) :
    (∃ e, (regp_recv p).2.1.err = some e) ∧
    (classify raw = .badHeaderEncoding →
      ((regp_recv p).1, (regp_recv p).2.2.snk) = ((regp_resp_meta p.cfg p.snk 1).rc, (regp_resp_meta p.cfg p.snk 1).snk)) ∧
    (classify raw = .badHeaderChecksum →
      ((regp_recv p).1, (regp_recv p).2.2.snk) = ((regp_resp_meta p.cfg p.snk 2).rc, (regp_resp_meta p.cfg p.snk 2).snk)) ∧
    ((∃ f, classify raw = .badPayloadSize f ∨ classify raw = .badPayloadChecksum f) →
      ((regp_recv p).1, (regp_recv p).2.2.snk) = (none, p.snk)) := by
  obtain ⟨hmf, _, _, _, _, hreply⟩ := recv_stored p raw rest hch hne hal hfit
  have hv := verdict_eq_spec raw
  rcases hpf : parse_frame raw with ⟨r, h⟩
  rw [hpf] at hv hmf hreply
  cases r with
  | ok v =>
    exfalso
    cases h with
    | none => simp [verdictOf] at hv
    | some hv' =>
      obtain ⟨hd, off⟩ := hv'
      simp only [verdictOf] at hv
      cases hty : MType.ofCode hd.type with
      | none => simp [hty] at hv
      | some t =>
        simp only [hty, Option.map_some, Option.some.injEq] at hv
        exact hbad _ hv.symm
  | error e =>
    refine ⟨⟨e, by simp [hmf, errOf]⟩, ?_, ?_, ?_⟩
    · intro hc
      rw [hc] at hv
      cases h with
      | none =>
        simp only [verdictOf] at hv
        by_cases h1 : e = .ebadmsg
        · simpa [h1] using hreply
        · by_cases h2 : e = .eilseq <;> simp [h1, h2] at hv
      | some hv' =>
        obtain ⟨hd, off⟩ := hv'
        simp only [verdictOf] at hv
        by_cases h1 : e = .efault
        · cases hty : MType.ofCode hd.type <;> simp [h1, hty] at hv
        · by_cases h2 : e = .eproto
          · cases hty : MType.ofCode hd.type <;> simp [h1, h2, hty] at hv
          · simp [h1, h2] at hv
    · intro hc
      rw [hc] at hv
      cases h with
      | none =>
        simp only [verdictOf] at hv
        by_cases h1 : e = .ebadmsg
        · simp [h1] at hv
        · by_cases h2 : e = .eilseq
          · simpa [h1, h2] using hreply
          · simp [h1, h2] at hv
      | some hv' =>
        obtain ⟨hd, off⟩ := hv'
        simp only [verdictOf] at hv
        by_cases h1 : e = .efault
        · cases hty : MType.ofCode hd.type <;> simp [h1, hty] at hv
        · by_cases h2 : e = .eproto
          · cases hty : MType.ofCode hd.type <;> simp [h1, h2, hty] at hv
          · simp [h1, h2] at hv
    · rintro ⟨f, hc⟩
      cases h with
      | none =>
        simp only [verdictOf] at hv
        by_cases h1 : e = .ebadmsg
        · rcases hc with hc | hc <;> simp [h1, hc] at hv
        · by_cases h2 : e = .eilseq
          · rcases hc with hc | hc <;> simp [h1, h2, hc] at hv
          · simp [h1, h2] at hv
      | some hv' =>
        obtain ⟨hd, off⟩ := hv'
        simp only [verdictOf] at hv
        by_cases h1 : e = .efault
        · subst h1; simpa using hreply
        · by_cases h2 : e = .eproto
          · subst h2; simpa using hreply
          · simp [h1, h2] at hv

/-! ### what the checksums detect

Error patterns are octet strings that are xor-ed onto the frame; `Burst16 e` says that the
non-zero bits of `e` lie within sixteen consecutive bit positions in transmission order (octet by
octet, least significant bit first - the order CRC-16/ARC is defined over). -/

open Ufw.Lemmas.CrcAlgebra (xorL Burst16) in
/-- CRC-16/ARC changes under every burst of up to sixteen bits, for every message of every length -/
theorem crc_burst16 (m e : List Octet) (hlen : m.length = e.length) (h : Burst16 e) :
    crc16 (xorL m e) ≠ crc16 m := crc16_ne_of_burst m e hlen h

open Ufw.Lemmas.CrcAlgebra (xorL Burst16) in
/-- a burst inside sequence number, address or block size of an accepted frame with header
    checksum (every frame on a serial link): never accepted, classified as bad header checksum -/
theorem header_burst_rejected (raw : List Octet) (f : Frame) (hacc : classify raw = .accept f)
    (hhd : f.hdcrc = true) (E : List Octet) (hE : E.length = 12) (hE2 : E.take 2 = [0#8, 0#8]) (hb : Burst16 E) :
    classify (xorL (raw.take 12) E ++ raw.drop 12) = .badHeaderChecksum :=
  header_burst_classified raw f hacc hhd E hE hE2 (detectable_of_burst E hb)

open Ufw.Lemmas.CrcAlgebra (xorL Burst16) in
/-- a burst inside the payload of an accepted frame with payload checksum (every frame with payload
    on a serial link): never accepted, classified as bad payload checksum -/
theorem payload_burst_rejected (raw : List Octet) (f : Frame) (hacc : classify raw = .accept f)
    (hpl : f.plcrc = true) (e : List Octet) (hlen : e.length = f.payload.length) (hb : Burst16 e) :
    ∃ f', classify (raw.take (hlenOf (Ufw.Spec.Regp.unbe (raw.take 2))) ++ xorL f.payload e) = .badPayloadChecksum f' :=
  payload_burst_classified raw f hacc hpl e hlen (detectable_of_burst e hb)

/-! Two-bit errors.  Two damaged bits inside one octet are a burst (`Burst16.one`); `TwoBit e` covers
two damaged bits in different octets, any number of octets apart up to a bit distance of 32766 (the
order of x modulo the CRC polynomial is 32767; beyond it - 4 095 octets - CRC-16/ARC does miss
two-bit errors, so the bound is part of the statement). -/

open Ufw.Lemmas.CrcAlgebra (xorL) in
open Ufw.Lemmas.CrcTwoBit (TwoBit) in
/-- CRC-16/ARC changes under every two-bit error within 32766 bit positions, for every message -/
theorem crc_two_bit (m e : List Octet) (hlen : m.length = e.length) (h : TwoBit e) :
    crc16 (xorL m e) ≠ crc16 m :=
  crc16_ne_of_detectable m e hlen (Ufw.Lemmas.CrcTwoBit.detectable_of_twoBit e h)

open Ufw.Lemmas.CrcAlgebra (xorL) in
open Ufw.Lemmas.CrcTwoBit (TwoBit) in
/-- a two-bit error inside sequence number, address or block size of an accepted frame with header
    checksum: never accepted, classified as bad header checksum -/
theorem header_two_bit_rejected (raw : List Octet) (f : Frame) (hacc : classify raw = .accept f)
    (hhd : f.hdcrc = true) (E : List Octet) (hE : E.length = 12) (hE2 : E.take 2 = [0#8, 0#8]) (hb : TwoBit E) :
    classify (xorL (raw.take 12) E ++ raw.drop 12) = .badHeaderChecksum :=
  header_burst_classified raw f hacc hhd E hE hE2 (Ufw.Lemmas.CrcTwoBit.detectable_of_twoBit E hb)

open Ufw.Lemmas.CrcAlgebra (xorL) in
open Ufw.Lemmas.CrcTwoBit (TwoBit) in
/-- a two-bit error inside the payload of an accepted frame with payload checksum: never accepted,
    classified as bad payload checksum (payloads of up to 4 095 octets: any two positions) -/
theorem payload_two_bit_rejected (raw : List Octet) (f : Frame) (hacc : classify raw = .accept f)
    (hpl : f.plcrc = true) (e : List Octet) (hlen : e.length = f.payload.length) (hb : TwoBit e) :
    ∃ f', classify (raw.take (hlenOf (Ufw.Spec.Regp.unbe (raw.take 2))) ++ xorL f.payload e) = .badPayloadChecksum f' :=
  payload_burst_classified raw f hacc hpl e hlen (Ufw.Lemmas.CrcTwoBit.detectable_of_twoBit e hb)

/-- a single-bit error in the first header word (version, type, option bits, response code) of an accepted
    frame that carries a header checksum and - as every frame the library emits on a serial link - a payload
    checksum exactly when it has a payload: the damaged frame is not accepted, whatever it is read as -/
theorem word0_single_bit_rejected (raw : List Octet) (f : Frame) (hacc : classify raw = .accept f)
    (hhd : f.hdcrc = true) (hser : f.plcrc = false → f.payload = []) (a b : Octet) (h1 : OneBit16 a b) :
    ∀ f', classify (flipWord0 raw a b) ≠ .accept f' :=
  word0_single_bit_classified raw f hacc hhd hser a b h1

/-- NOT every burst is caught: the header checksum sits between the words it protects and the
    payload checksum word, so a burst that touches both the last octet of the block-size field and
    the checksum behind it can turn a valid frame into another valid frame.  Witness (known finding
    of C07): the 16-bit read request for 3 words at 0x100, sequence number 5, with ten consecutive
    bits damaged, is the valid request for 131 words. -/
theorem burst_across_size_and_checksum_accepted :
    classify [0x03#8, 0x00#8, 0x00#8, 0x05#8, 0x00#8, 0x00#8, 0x01#8, 0x00#8, 0x00#8, 0x00#8, 0x00#8, 0x03#8, 0x84#8, 0x7a#8] =
      .accept { type := .readRequest, ws16 := true, hdcrc := true, plcrc := false, code := 0, seq := 5, addr := 256,
                size := 3, payload := [] } ∧
    classify [0x03#8, 0x00#8, 0x00#8, 0x05#8, 0x00#8, 0x00#8, 0x01#8, 0x00#8, 0x00#8, 0x00#8, 0x00#8, 0x83#8, 0x24#8, 0x7b#8] =
      .accept { type := .readRequest, ws16 := true, hdcrc := true, plcrc := false, code := 0, seq := 5, addr := 256,
                size := 131, payload := [] } := by
  constructor <;> decide +kernel

/-! #### the hypotheses are satisfiable -/

open Ufw.Lemmas.CrcAlgebra (xorL Burst16) in
example : Burst16 ([0#8, 0#8] ++ [0x80#8, 0xff#8, 0x01#8] ++ List.replicate 7 0#8) :=
  .three 2 7 _ _ _ (by decide) (by decide)

-- the word-0 theorem applies to the accepted request above: header checksum, no payload, no payload checksum;
-- bit 12 of the first word (octet 0, bit 4) flipped
example : OneBit16 0x10#8 0#8 := Or.inl ⟨⟨4, by omega⟩, by decide, rfl⟩
example : ∀ f', classify (flipWord0 [0x03#8, 0x00#8, 0x00#8, 0x05#8, 0x00#8, 0x00#8, 0x01#8, 0x00#8, 0x00#8, 0x00#8, 0x00#8, 0x03#8, 0x84#8, 0x7a#8]
    0x10#8 0#8) ≠ .accept f' :=
  word0_single_bit_rejected _ _ burst_across_size_and_checksum_accepted.1 rfl (fun _ => rfl) _ _ (Or.inl ⟨⟨4, by omega⟩, by decide, rfl⟩)

-- two damaged bits 3 and 2*8+6 = 22 positions apart in a five-octet region
example : Ufw.Lemmas.CrcTwoBit.TwoBit ([0#8] ++ [0x08#8] ++ [0#8] ++ [0x40#8] ++ [0#8]) :=
  .far 1 1 1 ⟨3, by omega⟩ ⟨6, by omega⟩ (by decide)

example : verdictOf [0x03#8, 0x00#8, 0x00#8, 0x05#8, 0x00#8, 0x00#8, 0x01#8, 0x00#8, 0x00#8, 0x00#8, 0x00#8, 0x03#8, 0x84#8, 0x7a#8]
    (parse_frame [0x03#8, 0x00#8, 0x00#8, 0x05#8, 0x00#8, 0x00#8, 0x01#8, 0x00#8, 0x00#8, 0x00#8, 0x00#8, 0x03#8, 0x84#8, 0x7a#8]) =
    some (.accept { type := .readRequest, ws16 := true, hdcrc := true, plcrc := false, code := 0, seq := 5, addr := 256,
                    size := 3, payload := [] }) := by
  rw [verdict_eq_spec]; exact congrArg some burst_across_size_and_checksum_accepted.1

end Ufw.Props.C07
