/-
C16 – the checksum is CRC-16/ARC for every input.  Property theorems only.
-/
import Std.Tactic.BVDecide
import Ufw.Spec.Crc
import Ufw.Model.Crc
import Ufw.Lemmas.Crc

namespace Ufw.Props.C16
open Ufw Ufw.Spec.Crc Ufw.Model.Crc Ufw.Gen.CrcTable Ufw.Lemmas.Crc

/-- the table-driven update step of the C code is eight bitwise steps of the
    reflected 0x8005 shift register, for every register state and every octet -/
theorem octet_eq_bitwise (c : BitVec 16) (d : BitVec 8) : crc16_octet c d = step8 c d := by
  rw [octet_formula c d, ← table_eq_bitwise]
  simp only [crc16_octet, index_eq]
  congr 2

/-- for every octet sequence and every starting value the checksum function returns
    the CRC-16/ARC remainder -/
theorem crc_eq_spec (init : BitVec 16) (buf : List Octet) : ufw_crc16_arc init buf = crc init buf := by
  simp only [ufw_crc16_arc, crc]
  induction buf generalizing init with
  | nil => rfl
  | cons d rest ih => simp only [List.foldl_cons, octet_eq_bitwise, ih]

theorem buffer_crc_eq_spec (buf : List Octet) :
    ufw_buffer_crc16_arc buf = crc CRC16_ARC_INITIAL buf := crc_eq_spec _ _

/-- checksumming a concatenation = continuing the checksum of the first part over the second -/
theorem crc_append (init : BitVec 16) (a b : List Octet) :
    ufw_crc16_arc init (a ++ b) = ufw_crc16_arc (ufw_crc16_arc init a) b := by
  simp [ufw_crc16_arc, List.foldl_append]

private theorem and_ff8 (x : BitVec 8) : x &&& 255#8 = x := by bv_decide

/-- the 16-bit-word variant equals the octet variant applied to the words' in-memory octet
    image (both host byte orders; the big-endian branch cannot be executed on this host and is
    covered by this theorem only) -/
theorem crc_u16_eq_octets (be : Bool) (init : BitVec 16) (ws : List (BitVec 16)) :
    ufw_crc16_arc_u16 be init ws = ufw_crc16_arc init (ws.flatMap (wordImage be)) := by
  simp only [ufw_crc16_arc_u16, ufw_crc16_arc]
  induction ws generalizing init with
  | nil => rfl
  | cons w rest ih =>
    simp only [List.foldl_cons, List.flatMap_cons, List.foldl_append, ih]
    cases be <;> simp [wordImage, wordStepLE, wordStepBE, and_ff8]

/-! #### concrete instances (the catalogue check value) -/

-- CRC-16/ARC of "123456789" is 0xBB3D
example : ufw_buffer_crc16_arc [0x31#8, 0x32#8, 0x33#8, 0x34#8, 0x35#8, 0x36#8, 0x37#8, 0x38#8, 0x39#8]
    = 0xBB3D#16 := by decide +kernel
example : crc 0#16 [0x31#8, 0x32#8, 0x33#8, 0x34#8, 0x35#8, 0x36#8, 0x37#8, 0x38#8, 0x39#8]
    = 0xBB3D#16 := by decide +kernel

end Ufw.Props.C16
