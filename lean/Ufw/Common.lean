/-
Shared vocabulary of all models: octets, error codes, hex text.
Core Lean only.
-/
namespace Ufw

abbrev Octet := BitVec 8

/-- The errno values the library uses (the numeric values are only needed by the
    harness; model and harness both print the symbolic name). -/
inductive Err
  | einval | enomem | enodata | eilseq | eio | eintr | eagain | epipe
  | eoverflow | ebadmsg | eproto | efault | ebusy | emsgsize | enobufs | erange | ebadf | other (n : Nat)
  deriving DecidableEq, Repr

def Err.name : Err → String
  | .einval => "einval" | .enomem => "enomem" | .enodata => "enodata"
  | .eilseq => "eilseq" | .eio => "eio" | .eintr => "eintr" | .eagain => "eagain"
  | .epipe => "epipe" | .eoverflow => "eoverflow" | .ebadmsg => "ebadmsg"
  | .eproto => "eproto" | .efault => "efault" | .ebusy => "ebusy"
  | .emsgsize => "emsgsize" | .enobufs => "enobufs" | .erange => "erange"
  | .ebadf => "ebadf" | .other n => s!"errno{n}"

def Err.ofName (s : String) : Option Err :=
  match s with
  | "einval" => some .einval | "enomem" => some .enomem | "enodata" => some .enodata
  | "eilseq" => some .eilseq | "eio" => some .eio | "eintr" => some .eintr
  | "eagain" => some .eagain | "epipe" => some .epipe | "eoverflow" => some .eoverflow
  | "ebadmsg" => some .ebadmsg | "eproto" => some .eproto | "efault" => some .efault
  | "ebusy" => some .ebusy | "emsgsize" => some .emsgsize | "enobufs" => some .enobufs
  | "erange" => some .erange | "ebadf" => some .ebadf
  | _ => none

/-! ### hex text -/

def hexDigit (n : Nat) : Char :=
  if n < 10 then Char.ofNat (48 + n) else Char.ofNat (87 + n)

def hexOctet (o : Octet) : String :=
  String.ofList [hexDigit (o.toNat / 16), hexDigit (o.toNat % 16)]

/-- Octets as lower-case hex; the empty list prints as "-" so that a token is
    never empty. -/
def hexOf (l : List Octet) : String :=
  if l.isEmpty then "-" else String.join (l.map hexOctet)

def hexVal (c : Char) : Option Nat :=
  if '0' ≤ c ∧ c ≤ '9' then some (c.toNat - 48)
  else if 'a' ≤ c ∧ c ≤ 'f' then some (c.toNat - 87)
  else if 'A' ≤ c ∧ c ≤ 'F' then some (c.toNat - 55)
  else none

def parseHexChars : List Char → Option (List Octet)
  | [] => some []
  | [_] => none
  | a :: b :: rest => do
    let x ← hexVal a
    let y ← hexVal b
    let r ← parseHexChars rest
    pure (BitVec.ofNat 8 (x * 16 + y) :: r)

def parseHex (s : String) : Option (List Octet) :=
  if s == "-" then some [] else parseHexChars s.toList

def hexNat (n : Nat) (digits : Nat) : String :=
  String.ofList ((List.range digits).reverse.map fun i => hexDigit ((n / 16 ^ i) % 16))

def parseHexNat (s : String) : Option Nat :=
  s.toList.foldl (fun acc c => do let a ← acc; let v ← hexVal c; pure (a * 16 + v)) (some 0)

/-- decimal or 0x-prefixed hexadecimal -/
def parseNat (s : String) : Option Nat :=
  if s.startsWith "0x" then parseHexNat (s.drop 2).toString else s.toNat?

end Ufw
