/-
Model of the s-expression reader in src/sx.c (property C20): looking_at, sx_parse_token,
parse_symbol, parse_integer_, digit2int, skip_ws, sx_parse_list, sx_parse_, sx_parse.

The input is a list of octets whose length is the `n` of the C interface (length-delimited,
no terminator is assumed).  Every read of the C code is a `get`, which is `none` at an index
≥ n; a function that would perform such a read returns `oob`.  Characters are classified as
the C library does in the "C" locale.  Integer values are accumulated in uint64_t: the model
reduces modulo 2^64.  Recursion over nested lists takes fuel (`diverge` when it runs out;
fuel = length + 1 always suffices).
-/
import Ufw.Common

namespace Ufw.Model.Sx
open Ufw

inductive Tree
  | sym (s : List Octet)
  | int (n : Nat)
  | nil
  | cons (a d : Tree)
  deriving Repr, DecidableEq

inductive Status
  | success | foundList | brokenInteger | brokenSymbol | unknownInput | unexpectedEnd
  | oob | diverge          -- not C statuses: out-of-bounds read / out of fuel
  deriving Repr, DecidableEq

structure Res where
  status : Status
  node : Option Tree := none
  pos : Nat := 0
  deriving Repr, DecidableEq

def isspace (c : Octet) : Bool := c.toNat == 32 || (9 ≤ c.toNat && c.toNat ≤ 13)
def isdigit (c : Octet) : Bool := 48 ≤ c.toNat && c.toNat ≤ 57
def isxdigit (c : Octet) : Bool :=
  isdigit c || (97 ≤ c.toNat && c.toNat ≤ 102) || (65 ≤ c.toNat && c.toNat ≤ 70)
def isalpha (c : Octet) : Bool := (97 ≤ c.toNat && c.toNat ≤ 122) || (65 ≤ c.toNat && c.toNat ≤ 90)

/-- `+%|/_:;.!?$&=*<>~` -/
def symPunct : List Nat := [43, 37, 124, 47, 95, 58, 59, 46, 33, 63, 36, 38, 61, 42, 60, 62, 126]

/-- `issyminitch`; `strchr` also finds the terminating NUL of the table, so NUL counts -/
def issyminitch (c : Octet) : Bool := isalpha c || symPunct.contains c.toNat || c.toNat == 0
def issymch (c : Octet) : Bool := issyminitch c || isdigit c || c.toNat == 45
def nextisdelimiter (c : Octet) : Bool := c.toNat == 40 || c.toNat == 41 || isspace c

def digit2int (c : Octet) : Nat :=
  let v := c.toNat
  if 48 ≤ v ∧ v ≤ 57 then v - 48
  else if 97 ≤ v ∧ v ≤ 102 then v - 87
  else if 65 ≤ v ∧ v ≤ 70 then v - 55
  else 0

/-- `skip_ws` -/
def skip_ws (s : List Octet) (i : Nat) : Nat := i + ((s.drop i).takeWhile isspace).length

/-- value of a digit string in `base`, as accumulated in a uint64_t -/
def digitsValue (base : Nat) (ds : List Octet) : Nat :=
  (ds.foldl (fun acc d => acc * base + digit2int d) 0) % 2 ^ 64

/-- `parse_symbol(s, n, &i)`: node (none = NULL) and the new `i` -/
def parse_symbol (s : List Octet) (i : Nat) : Option Tree × Nat :=
  let body := (s.drop i).takeWhile issymch
  let j := i + body.length
  match s[j]? with
  | some c => if nextisdelimiter c then (some (.sym body), j) else (none, j)
  | none => (some (.sym body), min j s.length)

/-- `parse_integer_(s, n, &i, offset, pred, base)` -/
def parse_integer_ (s : List Octet) (i offset : Nat) (pred : Octet → Bool) (base : Nat) : Option Tree × Nat :=
  let body := (s.drop (i + offset)).takeWhile pred
  let j := i + offset + body.length
  match s[j]? with
  | some c =>
    if nextisdelimiter c then (some (.int (digitsValue base ((s.drop i).take (j - i)))), j) else (none, j)
  | none => (some (.int (digitsValue base ((s.drop i).take (j - i)))), min j s.length)

inductive What | unknown | symbol | intDec | intHex | parenOpen | parenClose
  deriving Repr, DecidableEq

/-- `looking_at(s, n, i)`; `none` = the C code reads s[k] with k ≥ n -/
def looking_at (s : List Octet) (i : Nat) : Option What :=
  match s[i]? with
  | none => none
  | some c =>
    let hex : Bool :=
      decide (s.length > i + 2) && c.toNat == 35 &&
        (match s[i + 1]?, s[i + 2]? with
         | some x, some h => x.toNat == 120 && isxdigit h
         | _, _ => false)
    if hex then some .intHex
    else if c.toNat == 40 then some .parenOpen
    else if c.toNat == 41 then some .parenClose
    else if isdigit c then some .intDec
    else if issyminitch c then some .symbol
    else some .unknown

/-- `sx_parse_token(s, n, i)` -/
def sx_parse_token (s : List Octet) (i : Nat) : Res :=
  let j := skip_ws s i
  if j = s.length then { status := .success }
  else match looking_at s j with
    | none => { status := .oob }
    | some .intDec =>
      let (t, j') := parse_integer_ s j 0 isdigit 10
      { status := if t.isNone then .brokenInteger else .success, node := t, pos := j' }
    | some .intHex =>
      let (t, j') := parse_integer_ s j 2 isxdigit 16
      { status := if t.isNone then .brokenInteger else .success, node := t, pos := j' }
    | some .symbol =>
      let (t, j') := parse_symbol s j
      { status := if t.isNone then .brokenSymbol else .success, node := t, pos := j' }
    | some .parenOpen => { status := .foundList, pos := j + 1 }
    | some .parenClose => { status := .success, node := some .nil, pos := j + 1 }
    | some .unknown => { status := .unknownInput, pos := j }

def Res.isError (r : Res) : Bool := r.status != .success && r.status != .foundList
def Res.isEmptyList (r : Res) : Bool := r.status == .success && r.node == some .nil

/-- `sx_parse_list(s, n, i)`.  On an error the C code hands back the partial tree (for
    `sx_parse` to destroy); the model drops it right away: `node = none` on errors. -/
def sx_parse_list (s : List Octet) : (fuel : Nat) → (i : Nat) → Res
  | 0, _ => { status := .diverge }
  | fuel + 1, i =>
    if i ≥ s.length then { status := .unexpectedEnd }
    else
      let tok := sx_parse_token s i
      if tok.isError then { tok with node := none }
      else if tok.status == .success ∧ tok.node.isNone then { status := .unexpectedEnd, pos := tok.pos }
      else if tok.isEmptyList then tok
      else
        let car : Res := if tok.status == .foundList then sx_parse_list s fuel tok.pos else tok
        if car.isError then { car with node := none }
        else
          let cdr := sx_parse_list s fuel car.pos
          match car.node, cdr.node with
          | some a, some d => { status := cdr.status, node := some (.cons a d), pos := cdr.pos }
          | _, _ => { status := cdr.status, node := none, pos := cdr.pos }

/-- `sx_parse(s, n, i)` (with `sx_parse_` inlined): the tree is present only on success -/
def sx_parse (s : List Octet) (i : Nat) : Res :=
  let tok := sx_parse_token s i
  let r : Res :=
    if tok.status == .foundList then sx_parse_list s (s.length + 1) tok.pos
    else if tok.isEmptyList then { status := .unknownInput, pos := tok.pos }
    else if tok.status == .success ∧ tok.node.isNone then { tok with status := .unexpectedEnd }
    else tok
  if r.isError then { r with node := none } else r

end Ufw.Model.Sx
