/-
The SLIP encoder of src/rfc1055.c over the endpoint layer (C12 on top of C17): which endpoint
primitive is used for which octets.  `Ufw.Model.Slip` abstracts a sink as "accepts so many octets";
here the sink is a scripted driver (Ufw.Model.Endpoints) that may transfer less than offered, so
that it matters that the two-octet escapes go through `sink_put_chunk` (which loops until all is
delivered) and single octets through `sink_put_octet`.
-/
import Ufw.Model.Slip
import Ufw.Model.Endpoints

namespace Ufw.Model.SlipEp
open Ufw Ufw.Model.Endpoints
open Ufw.Model.Slip (RAW_EOF RAW_ESC ESC_EOF ESC_ESC)

/-- `rfc1055_encode_octet` -/
def rfc1055_encode_octet (fuel : Nat) (snk : Snk) (o : Octet) : R × Snk :=
  if o = RAW_ESC then sink_put_chunk fuel snk [RAW_ESC, ESC_ESC]
  else if o = RAW_EOF then sink_put_chunk fuel snk [RAW_ESC, ESC_EOF]
  else sink_put_octet snk o

/-- `rfc1055_close`: `rc < 0 ? rc : 0` -/
def rfc1055_close (snk : Snk) : R × Snk :=
  match sink_put_octet snk RAW_EOF with
  | (.ok _, s) => (.ok 0, s)
  | r => r

/-- the loop of `rfc1055_encode`; `steps` bounds the iterations (stream + script length + 1 suffices) -/
def encLoop (fuel : Nat) : (steps : Nat) → Src → Snk → R × Src × Snk
  | 0, src, snk => (.diverge, src, snk)
  | steps + 1, src, snk =>
    match source_get_octet src with
    | (.err e, _, src') =>
      if e = .enodata then let (r, s) := rfc1055_close snk; (r, src', s) else (.err e, src', snk)
    | (.diverge, _, src') => (.diverge, src', snk)
    | (.ok _, [], src') => let (r, s) := rfc1055_close snk; (r, src', s)       -- get == 0
    | (.ok _, o :: _, src') =>
      match rfc1055_encode_octet fuel snk o with
      | (.ok _, snk') => encLoop fuel steps src' snk'
      | (r, snk') => (r, src', snk')

/-- `rfc1055_encode(ctx, source, sink)` -/
def rfc1055_encode (fuel : Nat) (sof : Bool) (src : Src) (snk : Snk) : R × Src × Snk :=
  let steps := src.stream.length + src.script.length + 2
  if sof then
    match sink_put_octet snk RAW_EOF with
    | (.ok _, s) => encLoop fuel steps src s
    | (r, s) => (r, src, s)
  else encLoop fuel steps src snk

end Ufw.Model.SlipEp
