/-
Model of src/rfc1055.c (property C12).

The decoder of the C file is a state machine over the octets a source delivers;
`step` is its transition function (one octet), `rfc1055_decode` one call of the C
function (runs `step` until a frame ends, an illegal sequence is seen, or source
or sink report an error), `run` a whole stream processed by calling the decoder
again and again.  The "first octet was ESC" situation inside
`rfc1055_decode_octet` is the flag `esc`; it never survives a return of the C
function (the local variable is gone), which is why every returning transition
clears it.

Source and sink are scripts: a source delivers octets or an error code, a
finished script is a source that answers -ENODATA; a sink accepts `room` octets
and then answers `full` (an error code).
-/
import Ufw.Common

namespace Ufw.Model.Slip
open Ufw

def RAW_EOF : Octet := 0xc0#8
def RAW_ESC : Octet := 0xdb#8
def ESC_EOF : Octet := 0xdc#8
def ESC_ESC : Octet := 0xdd#8

inductive St | searchStart | searchEnd | normal
  deriving Repr, DecidableEq

/-- what one input octet makes the decoder do -/
inductive Act
  | none                 -- keep reading
  | emit (o : Octet)     -- hand one payload octet to the sink, keep reading
  | endOfFrame           -- return 1
  | illegal              -- return -EILSEQ
  deriving Repr, DecidableEq

/-- state after a frame delimiter -/
def afterEof (sof : Bool) : St := if sof then .searchStart else .normal

def step (sof : Bool) (st : St) (esc : Bool) (o : Octet) : St × Bool × Act :=
  match st with
  | .searchStart =>
    if o = RAW_EOF then (.normal, false, .none) else (.searchEnd, false, .illegal)
  | .searchEnd =>
    if o = RAW_EOF then (afterEof sof, false, .none) else (.searchEnd, false, .none)
  | .normal =>
    if esc then
      if o = ESC_EOF then (.normal, false, .emit RAW_EOF)
      else if o = ESC_ESC then (.normal, false, .emit RAW_ESC)
      else ((if o = RAW_EOF then afterEof sof else .searchEnd), false, .illegal)
    else if o = RAW_ESC then (.normal, true, .none)
    else if o = RAW_EOF then (afterEof sof, false, .endOfFrame)
    else (.normal, false, .emit o)

/-- one answer of a source driver -/
inductive SrcEv
  | octet (o : Octet)
  | err (e : Err)
  deriving Repr, DecidableEq

/-- a sink that accepts `room` more octets and then answers with `full` -/
structure Snk where
  got  : List Octet := []
  room : Nat
  full : Err := .enomem
  deriving Repr, DecidableEq

def Snk.put (s : Snk) (o : Octet) : Except Err Snk :=
  match s.room with
  | 0 => .error s.full
  | n + 1 => .ok { s with got := s.got ++ [o], room := n }

/-- return value of one call -/
inductive Ret | frame | error (e : Err)
  deriving Repr, DecidableEq

structure Res where
  ret  : Ret
  st   : St
  rest : List SrcEv
  snk  : Snk
  deriving Repr, DecidableEq

/-- `rfc1055_decode(ctx, source, sink)`; `esc = false` at the call -/
def decodeGo (sof : Bool) : St → Bool → List SrcEv → Snk → Res
  | st, _, [], snk => ⟨.error .enodata, st, [], snk⟩
  | st, _, .err e :: rest, snk =>
    -- a source that itself answers -EILSEQ while a frame is being read is indistinguishable, for the
    -- C code, from an invalid escape: the decoder then looks for the next delimiter
    ⟨.error e, (if st = .normal ∧ e = .eilseq then .searchEnd else st), rest, snk⟩
  | st, esc, .octet o :: rest, snk =>
    match step sof st esc o with
    | (st', esc', .none) => decodeGo sof st' esc' rest snk
    | (st', esc', .emit x) =>
      match snk.put x with
      | .ok snk' => decodeGo sof st' esc' rest snk'
      | .error e => ⟨.error e, st', rest, snk⟩
    | (st', _, .endOfFrame) => ⟨.frame, st', rest, snk⟩
    | (st', _, .illegal) => ⟨.error .eilseq, st', rest, snk⟩

def rfc1055_decode (sof : Bool) (st : St) (src : List SrcEv) (snk : Snk) : Res :=
  decodeGo sof st false src snk

def rfc1055_context_init (sof : Bool) : St := if sof then .searchStart else .normal

/-! ### encoder -/

def escape (o : Octet) : List Octet :=
  if o = RAW_ESC then [RAW_ESC, ESC_ESC]
  else if o = RAW_EOF then [RAW_ESC, ESC_EOF]
  else [o]

/-- the octets `rfc1055_encode` puts into a sink that accepts everything -/
def enc (sof : Bool) (p : List Octet) : List Octet :=
  (if sof then [RAW_EOF] else []) ++ p.flatMap escape ++ [RAW_EOF]

/-- put a chunk (`sink_put_chunk` for the two-octet escapes): octet by octet until the sink
    refuses; the sink keeps what it accepted -/
def Snk.putAll (s : Snk) : List Octet → Option Err × Snk
  | [] => (none, s)
  | o :: os => match s.put o with
    | .ok s' => s'.putAll os
    | .error e => (some e, s)

structure EncRes where
  ret : Option Err         -- none = 0 (success)
  snk : Snk
  rest : List SrcEv
  deriving Repr, DecidableEq

def encodeLoop : List SrcEv → Snk → EncRes
  | [], snk => match snk.put RAW_EOF with
    | .ok s => ⟨none, s, []⟩
    | .error e => ⟨some e, snk, []⟩
  | .err .enodata :: rest, snk => match snk.put RAW_EOF with
    | .ok s => ⟨none, s, rest⟩
    | .error e => ⟨some e, snk, rest⟩
  | .err e :: rest, snk => ⟨some e, snk, rest⟩
  | .octet o :: rest, snk =>
    match snk.putAll (escape o) with
    | (none, s) => encodeLoop rest s
    | (some e, s) => ⟨some e, s, rest⟩

/-- `rfc1055_encode(ctx, source, sink)` -/
def rfc1055_encode (sof : Bool) (src : List SrcEv) (snk : Snk) : EncRes :=
  if sof then
    match snk.put RAW_EOF with
    | .ok s => encodeLoop src s
    | .error e => ⟨some e, snk, src⟩
  else encodeLoop src snk

/-! ### a whole stream, decoder called until the source is exhausted -/

/-- what the caller of the decoder sees for one call that returned -/
inductive Event
  | frame (payload : List Octet)          -- return 1, these octets reached the sink during the call
  | illegal (sofar : List Octet)          -- return -EILSEQ
  deriving Repr, DecidableEq

/-- Octets in, events out, plus where the decoder stands afterwards (state, flag, octets
    handed to the sink in the call that is still running).  Equivalent to calling
    `rfc1055_decode` in a loop on an error-free source and sink. -/
def run (sof : Bool) : St → Bool → List Octet → List Octet → List Event × (St × Bool × List Octet)
  | st, esc, out, [] => ([], (st, esc, out))
  | st, esc, out, o :: rest =>
    match step sof st esc o with
    | (st', esc', .none) => run sof st' esc' out rest
    | (st', esc', .emit x) => run sof st' esc' (out ++ [x]) rest
    | (st', _, .endOfFrame) =>
      let (es, fin) := run sof st' false [] rest
      (.frame out :: es, fin)
    | (st', _, .illegal) =>
      let (es, fin) := run sof st' false [] rest
      (.illegal out :: es, fin)

end Ufw.Model.Slip
