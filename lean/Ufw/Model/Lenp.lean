/-
Model of src/length-prefix.c (property C13) on top of the byte-buffer (C18), varint (C14),
endian (C15) and endpoint (C17) models.  The kind table (prefix size, octet order, maximum) is
regenerated from the source (Ufw/Gen/LenpKinds.lean); the fixed-size generators/parsers named
there are the bf_set_u16/32 l/b and bf_ref_* functions, modelled by the arithmetic endian spec
they are proved equal to in C15.
-/
import Ufw.Common
import Ufw.Model.ByteBuffer
import Ufw.Model.Varint
import Ufw.Model.Endpoints
import Ufw.Spec.Endian
import Ufw.Gen.LenpKinds

namespace Ufw.Model.Lenp
open Ufw Ufw.Model.Endpoints
open Ufw.Model.ByteBuffer (ByteBuffer readAt writeAt byte_buffer_rest byte_buffer_avail)

/-- index into the generated kind table (enum value of LengthPrefixKind) -/
abbrev Kind := Nat

def row (k : Kind) : Ufw.Gen.LenpKinds.Row :=
  (Ufw.Gen.LenpKinds.table[k]?).getD { name := "?", size := 0, order := .none, maximum := 0, parse := "", generate := "" }

def isVariable (k : Kind) : Bool := k == 0      -- LENP_VARIABLE

/-- `encode_prefix`: the octets of the prefix object, or EINVAL -/
def encode_prefix (k : Kind) (n : Nat) : Except Err (List Octet) :=
  if n > SSIZE_MAX then .error .einval
  else if !isVariable k && n > (row k).maximum then .error .einval
  else
    match (row k).size with
    | 1 => .ok [BitVec.ofNat 8 n]
    | 2 => .ok (Ufw.Spec.Endian.store ((row k).order == .big) 2 n)
    | 4 => .ok (Ufw.Spec.Endian.store ((row k).order == .big) 4 n)
    | _ => .ok (Ufw.Model.Varint.encode n)

/-! ### encoding into a prefix object -/

structure Encoded where
  pre : List Octet        -- content of lpb->prefix
  payloadLen : Nat         -- size of lpb->payload
  deriving Repr, DecidableEq

/-- `flenp_memory_encode(k, lpb, buf, n)` -/
def flenp_memory_encode (k : Kind) (n : Nat) : Except Err Encoded :=
  match encode_prefix k n with
  | .error e => .error e
  | .ok p => if n = 0 then .error .einval else .ok ⟨p, n⟩     -- byte_buffer_use refuses size 0

def flenp_buffer_encode (k : Kind) (b : ByteBuffer) : Except Err Encoded :=
  flenp_memory_encode k (byte_buffer_rest b)

def flenp_buffer_encode_n (k : Kind) (b : ByteBuffer) (n : Nat) : Except Err Encoded × ByteBuffer :=
  if n > byte_buffer_rest b then (.error .einval, b)
  else match flenp_memory_encode k n with
    | .ok e => (.ok e, { b with offset := b.offset + n })
    | .error e => (.error e, b)

/-- unread octets of a chunk list from `active` on -/
def chunksRest (chunks : List ByteBuffer) (active : Nat) : List (List Octet) :=
  (chunks.drop active).map fun c => (c.mem.drop c.offset).take (c.used - c.offset)

def flenp_chunks_use (k : Kind) (chunks : List ByteBuffer) (active : Nat) : Except Err (List Octet) :=
  encode_prefix k ((chunksRest chunks active).map List.length).sum

/-! ### encoding into a sink -/

/-- `flenp_memory_to_sink(k, sink, buf, n)` with buf[0..n) = payload -/
def flenp_memory_to_sink (fuel : Nat) (k : Kind) (snk : Snk) (payload : List Octet) : R × Snk :=
  match encode_prefix k payload.length with
  | .error e => (.err e, snk)
  | .ok p =>
    if payload.length > SSIZE_MAX - p.length then (.err .einval, snk) else
    match sink_put_chunk fuel snk p with
    | (.ok _, s1) =>
      (match sink_put_chunk fuel s1 payload with
       | (.ok 0, s2) => (.ok 0, s2)
       | (.ok _, s2) => (.ok (p.length + payload.length), s2)
       | (r, s2) => (r, s2))
    | (r, s1) => (r, s1)

def unread (b : ByteBuffer) : List Octet := (b.mem.drop b.offset).take (b.used - b.offset)

def flenp_buffer_to_sink (fuel : Nat) (k : Kind) (snk : Snk) (b : ByteBuffer) : R × Snk :=
  flenp_memory_to_sink fuel k snk (unread b)

def flenp_buffer_to_sink_n (fuel : Nat) (k : Kind) (snk : Snk) (b : ByteBuffer) (n : Nat) : R × Snk × ByteBuffer :=
  if n > byte_buffer_rest b then (.err .einval, snk, b)
  else match flenp_memory_to_sink fuel k snk ((unread b).take n) with
    | (.ok m, s) => (.ok m, s, { b with offset := b.offset + n })
    | (r, s) => (r, s, b)

def putChunks (fuel : Nat) : Snk → List (List Octet) → R × Snk
  | s, [] => (.ok 1, s)
  | s, c :: cs =>
    if c.isEmpty then putChunks fuel s cs
    else match sink_put_chunk fuel s c with
      | (.ok 0, s') => (.ok 0, s')
      | (.ok _, s') => putChunks fuel s' cs
      | (r, s') => (r, s')

def flenp_chunks_to_sink (fuel : Nat) (k : Kind) (snk : Snk) (chunks : List ByteBuffer) (active : Nat) : R × Snk :=
  let parts := chunksRest chunks active
  let size := (parts.map List.length).sum
  match encode_prefix k size with
  | .error e => (.err e, snk)
  | .ok p =>
    if size > SSIZE_MAX - p.length then (.err .einval, snk) else
    match sink_put_chunk fuel snk p with
    | (.ok _, s1) =>
      (match putChunks fuel s1 parts with
       | (.ok 0, s2) => (.ok 0, s2)
       | (.ok _, s2) => (.ok (p.length + size), s2)
       | (r, s2) => (r, s2))
    | (r, s1) => (r, s1)

/-! ### decoding -/

/-- `decode_prefix`: length, or error; `none` in the R-slot stands for success -/
def decode_prefix (fuel : Nat) (k : Kind) (src : Src) : Except Err Nat × Src :=
  if isVariable k then
    -- varint_u64_from_source reads octet by octet through source_get_octet
    let rec go : (fuel i acc : Nat) → Src → Except Err Nat × Src
      | 0, _, _, s => (.error .eilseq, s)
      | fuel + 1, i, acc, s =>
        match source_get_octet s with
        | (.ok _, [d], s') =>
          let acc' := acc ||| ((d.toNat &&& 0x7f) <<< (i * 7)) % 2 ^ 64
          if d.toNat &&& 0x80 == 0 then (.ok acc', s') else go fuel (i + 1) acc' s'
        | (.ok _, _, s') => (.error .eproto, s')          -- driver answered 0: outside the model
        | (.err e, _, s') => (.error e, s')
        | (.diverge, _, s') => (.error .eproto, s')
    go Ufw.Model.Varint.MAX64 0 0 src
  else
    let n := (row k).size
    match source_get_chunk fuel src n with
    | (.ok _, d, s') =>
      (match n with
       | 1 => (.ok (d.headD 0#8).toNat, s')
       | 2 => (.ok (Ufw.Spec.Endian.loadU ((row k).order == .big) d), s')
       | 4 => (.ok (Ufw.Spec.Endian.loadU ((row k).order == .big) d), s')
       | _ => (.error .einval, s'))
    | (.err e, _, s') => (.error e, s')
    | (.diverge, _, s') => (.error .eproto, s')

/-- `flenp_memory_from_source(k, source, mem, size)`: return code and what is written to mem[0..) -/
def flenp_memory_from_source (fuel : Nat) (k : Kind) (src : Src) (size : Nat) : R × List Octet × Src :=
  match decode_prefix fuel k src with
  | (.error e, s') => (.err e, [], s')
  | (.ok len, s') =>
    if len > size then (.err .enomem, [], s')
    else source_get_chunk fuel s' len

/-- `flenp_buffer_from_source`: the payload is appended to the filled region -/
def flenp_buffer_from_source (fuel : Nat) (k : Kind) (src : Src) (b : ByteBuffer) : R × ByteBuffer × Src :=
  match flenp_memory_from_source fuel k src (byte_buffer_avail b) with
  | (.ok m, d, s') =>
    (match writeAt b.mem b.used (d.take m) with
     | some mem' => (.ok m, { b with mem := mem', used := b.used + m }, s')
     | none => (.diverge, b, s'))
  | (r, d, s') =>
    -- a failed read may have stored part of the payload behind the fill mark (unspecified content)
    (match writeAt b.mem b.used d with
     | some mem' => (r, { b with mem := mem' }, s')
     | none => (r, b, s'))

/-- `flenp_decode_source_to_sink` -/
def flenp_decode_source_to_sink (fuel : Nat) (k : Kind) (src : Src) (snk : Snk) : R × Src × Snk :=
  match decode_prefix fuel k src with
  | (.error e, s') => (.err e, s', snk)
  | (.ok len, s') => sts_n fuel s' snk len len

end Ufw.Model.Lenp
