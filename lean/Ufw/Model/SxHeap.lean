/-
The s-expression reader of src/sx.c once more, this time with the heap in view (C20, "no allocation
leaked"): the functions below hand back what the C functions hand back - on an error that is the partial tree
built so far, with NULL where nothing was built - together with the number of allocations they made
(`make_node` = one `malloc`; a symbol adds its string, a pair its `struct sx_pair`: one `calloc` each).
`sx_parse` destroys what an error leaves; `freed` counts what it releases.  That these functions answer exactly
like `Model/Sx` (which drops the partial trees at once) is `Lemmas/SxHeap.list_h_refines`.
-/
import Ufw.Model.Sx

namespace Ufw.Model.SxHeap
open Ufw Ufw.Model.Sx

/-- a tree as the C code holds it while it is being built: `null` is a NULL pointer -/
inductive PTree
  | null
  | sym (s : List Octet)
  | int (n : Nat)
  | nil
  | cons (a d : PTree)
  deriving Repr, DecidableEq

/-- allocations a tree consists of = what `sx_destroy` releases -/
def PTree.weight : PTree → Nat
  | .null => 0
  | .sym _ => 2
  | .int _ => 1
  | .nil => 1
  | .cons a d => 2 + a.weight + d.weight

def ofTree : Tree → PTree
  | .sym s => .sym s
  | .int n => .int n
  | .nil => .nil
  | .cons a d => .cons (ofTree a) (ofTree d)

def optTree : Option Tree → PTree
  | none => .null
  | some t => ofTree t

structure HRes where
  status : Status
  node : PTree := .null
  pos : Nat := 0
  allocs : Nat := 0
  deriving Repr, DecidableEq

def HRes.isError (r : HRes) : Bool := r.status != .success && r.status != .foundList
def HRes.isEmptyList (r : HRes) : Bool := r.status == .success && r.node == .nil

/-- `sx_parse_token`: a token allocates exactly the node it returns -/
def token_h (s : List Octet) (i : Nat) : HRes :=
  let r := sx_parse_token s i
  { status := r.status, node := optTree r.node, pos := r.pos, allocs := (optTree r.node).weight }

/-- `sx_parse_list` as written: errors hand the partial tree upwards, `sx_cons` joins whatever the two
    recursive calls returned -/
def list_h (s : List Octet) : (fuel : Nat) → (i : Nat) → HRes
  | 0, _ => { status := .diverge }
  | fuel + 1, i =>
    if i ≥ s.length then { status := .unexpectedEnd }
    else
      let tok := token_h s i
      if tok.isError then tok
      else if tok.status == .success ∧ tok.node = .null then { tok with status := .unexpectedEnd }
      else if tok.isEmptyList then tok
      else
        let car : HRes := if tok.status == .foundList then list_h s fuel tok.pos else tok
        if car.isError then car
        else
          let cdr := list_h s fuel car.pos
          { status := cdr.status, node := .cons car.node cdr.node, pos := cdr.pos,
            allocs := car.allocs + cdr.allocs + 2 }

/-- `sx_parse` with `sx_parse_` inlined; `freed` = allocations released before it returns -/
structure HTop where
  status : Status
  node : PTree
  pos : Nat
  allocs : Nat
  freed : Nat
  deriving Repr, DecidableEq

def parse_h (s : List Octet) (i : Nat) : HTop :=
  let tok := token_h s i
  if tok.status == .foundList then
    -- sx_parse_ hands back what sx_parse_list returned; sx_parse destroys the partial tree of an error
    let l := list_h s (s.length + 1) tok.pos
    if l.isError then { status := l.status, node := .null, pos := l.pos, allocs := l.allocs, freed := l.node.weight }
    else { status := l.status, node := l.node, pos := l.pos, allocs := l.allocs, freed := 0 }
  else if tok.isEmptyList then
    -- a closing parenthesis without a list: sx_parse_ destroys the empty-list node itself
    { status := .unknownInput, node := .null, pos := tok.pos, allocs := tok.allocs, freed := tok.node.weight }
  else if tok.status == .success ∧ tok.node = .null then
    { status := .unexpectedEnd, node := .null, pos := tok.pos, allocs := tok.allocs, freed := 0 }
  else if tok.isError then
    { status := tok.status, node := .null, pos := tok.pos, allocs := tok.allocs, freed := tok.node.weight }
  else { status := tok.status, node := tok.node, pos := tok.pos, allocs := tok.allocs, freed := 0 }

end Ufw.Model.SxHeap
