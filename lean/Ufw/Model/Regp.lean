/-
Model of src/register-protocol.c with src/endpoints/continuable-sink.c and the block
allocator interface (properties C06-C09).

Conventions.
* Memory is octets: a `uint16_t header[8]` filled with `bf_set_u16b/u32b` is the list of its
  sixteen octets in memory order (what `send_memory` hands to the channel); payload buffers
  are the octet image of the caller's words.  `ufw_crc16_arc_u16` over such memory is
  `ufw_crc16_arc` over its octet image on either host order (theorem C16.crc_u16_eq_octets),
  so the model calls the octet function.
* The endpoint source is a list of events (octet or error code; the empty list answers
  -ENODATA), the endpoint sink accepts `room` octets and then answers `full` - the drivers of
  the C12 model.  The continuable sink never refuses an octet, so receiving = running the
  channel decoder against a sink with enough room and feeding what it emitted to the
  continuable sink (`csRun`).
* The allocator is a script (`true` = this allocation fails) and a ledger `live` of blocks
  handed out and not yet released.  `B` = allocator block size, `F` = sizeof(RPFrame); the
  model's domain is F < B.
* The memory backend is a parameter of `regp_process`: its verdict, the address it reports and
  the octets it delivers for a read.
-/
import Ufw.Common
import Ufw.Model.Crc
import Ufw.Model.Slip
import Ufw.Model.Varint
import Ufw.Spec.Endian

namespace Ufw.Model.Regp
open Ufw
open Ufw.Model.Slip (SrcEv Snk)

structure Cfg where
  mem16  : Bool      -- p->memory.type == RP_MEMTYPE_16
  serial : Bool      -- p->ep.type == RP_EP_SERIAL
  B      : Nat       -- p->alloc->blocksize
  F      : Nat       -- sizeof(RPFrame)
  deriving Repr, DecidableEq

inductive Msem | auto | s8 | s16
  deriving Repr, DecidableEq

def RP_HEADER_SIZE : Nat := 16
def RP_HEADER_MIN_SIZE : Nat := 12

def be16 (v : Nat) : List Octet := Ufw.Spec.Endian.store true 2 v     -- bf_set_u16b
def be32 (v : Nat) : List Octet := Ufw.Spec.Endian.store true 4 v     -- bf_set_u32b
def ref (l : List Octet) : Nat := Ufw.Spec.Endian.loadU true l         -- bf_ref_u16b / bf_ref_u32b
def crcOf (init : Nat) (l : List Octet) : Nat := (Ufw.Model.Crc.ufw_crc16_arc (BitVec.ofNat 16 init) l).toNat

/-- `make_motv` -/
def make_motv (c : Cfg) (msem : Msem) (mcode type n : Nat) : Nat :=
  let ws16 := (msem = .auto ∧ c.mem16) ∨ msem = .s16
  let opts := (if ws16 then 1 else 0) ||| (if c.serial then 2 else 0)
              ||| (if c.serial ∧ n > 0 ∧ type ≠ 0 then 4 else 0)
  (((type &&& 0xf) <<< 4) ||| (opts <<< 8) ||| (mcode <<< 12)) % 65536

/-- `populate_header`: the sixteen octets of `uint16_t buf[8]` -/
def populate_header (c : Cfg) (msem : Msem) (type mcode seqno address n plcrc : Nat) : List Octet :=
  be16 (make_motv c msem mcode type n) ++ be16 seqno ++ be32 address ++ be32 n ++ [0#8, 0#8] ++ be16 plcrc

def raw_with_hdcrc (motv : Nat) : Bool := motv &&& 0x200 ≠ 0
def raw_with_plcrc (motv : Nat) : Bool := motv &&& 0x400 ≠ 0

/-- `encode_header`: the octets of the first `size` words of the header array -/
def encode_header (c : Cfg) (msem : Msem) (type mcode seqno address n plcrc : Nat) : List Octet :=
  let buf := populate_header c msem type mcode seqno address n plcrc
  let motv := ref (buf.take 2)
  let hd := raw_with_hdcrc motv
  let pl := raw_with_plcrc motv
  let crc0 := crcOf 0 (buf.take 12)
  let crc := if pl then crcOf crc0 ((buf.drop 14).take 2) else crc0
  let buf' := if hd then buf.take 12 ++ be16 crc ++ buf.drop 14 else buf
  let size := 6 + (if hd then 1 else 0) + (if pl then 1 else 0)
  buf'.take (2 * size)

/-! ### sending -/

structure Sent where
  rc  : Option Err          -- none = 0
  snk : Snk
  deriving Repr, DecidableEq

/-- `send_memory(p, hdr, hs, pl, ps)`; `pl = none` is the NULL payload -/
def send_memory (c : Cfg) (snk : Snk) (hdr : List Octet) (pl : Option (List Octet)) : Sent :=
  let data := hdr ++ pl.getD []
  if c.serial then
    let r := Ufw.Model.Slip.rfc1055_encode false (data.map SrcEv.octet) snk
    ⟨r.ret, r.snk⟩
  else
    -- lenp_chunks_to_sink: varint prefix, then every non-empty chunk
    match snk.putAll (Ufw.Model.Varint.encode data.length) with
    | (some e, s) => ⟨some e, s⟩
    | (none, s) =>
      match s.putAll hdr with
      | (some e, s') => ⟨some e, s'⟩
      | (none, s') =>
        match s'.putAll (pl.getD []) with
        | (some e, s'') => ⟨some e, s''⟩
        | (none, s'') => ⟨none, s''⟩

def req2resp (type : Nat) : Nat :=
  if type = 0 then 1 else if type = 2 then 3 else 15

/-- what the emitters read from the frame they answer -/
structure Hdr where
  type  : Nat
  opts  : Nat
  mcode  : Nat
  seq   : Nat
  addr  : Nat
  bsize : Nat
  hdcrc : Nat
  plcrc : Nat
  deriving Repr, DecidableEq

def send_resp_0 (c : Cfg) (snk : Snk) (f : Hdr) (code : Nat) (msem : Msem) : Sent :=
  send_memory c snk (encode_header c msem (req2resp f.type) code f.seq f.addr 0 0) none

def msem_size (c : Cfg) (msem : Msem) (n : Nat) : Nat :=
  match msem with
  | .s16 => n
  | .s8 => n * 2
  | .auto => n * (if c.mem16 then 1 else 2)

def send_resp_32 (c : Cfg) (snk : Snk) (f : Hdr) (code pl : Nat) (msem : Msem) : Sent :=
  let plbuf := be32 pl
  let plcrc := crcOf 0 plbuf
  send_memory c snk (encode_header c msem (req2resp f.type) code f.seq f.addr (msem_size c msem 2) plcrc)
    (some plbuf)

def regp_resp_meta (c : Cfg) (snk : Snk) (m : Nat) : Sent :=
  send_memory c snk (encode_header c .s8 15 m 0 0 0 0) none

/-- `regp_resp_ack(p, f, pl, n)`; `pl` holds the octet image of n atoms -/
def regp_resp_ack (c : Cfg) (snk : Snk) (f : Hdr) (pl : Option (List Octet)) (n : Nat) : Sent :=
  let plcrc := match pl with | some d => crcOf 0 d | none => 0
  send_memory c snk (encode_header c .auto (req2resp f.type) 0 f.seq f.addr n plcrc) pl

/-- request emitters: wire effect and the session counter afterwards -/
def regp_req_read (c : Cfg) (snk : Snk) (seq : Nat) (sem16 : Bool) (address n : Nat) : Sent × Nat :=
  (send_memory c snk (encode_header c (if sem16 then .s16 else .s8) 0 0 seq address n 0) none,
   (seq + 1) % 65536)

def regp_req_write (c : Cfg) (snk : Snk) (seq : Nat) (sem16 : Bool) (address n : Nat) (buf : List Octet) :
    Sent × Nat :=
  (send_memory c snk (encode_header c (if sem16 then .s16 else .s8) 2 0 seq address n (crcOf 0 buf)) (some buf),
   (seq + 1) % 65536)

/-! ### parsing -/

/-- `parse_header` behind the length test, `motv` = first header word -/
def parse_header_fields (raw : List Octet) (motv : Nat) : Except Err (Hdr × Nat) :=
  let version := motv &&& 0xf
  if version ≠ 0 then .error .ebadmsg else
  let type := (motv >>> 4) &&& 0xf
  let opts := (motv >>> 8) &&& 0xf
  if opts &&& 8 ≠ 0 then .error .ebadmsg else
  let mcode := (motv >>> 12) &&& 0xf
  let mcodeOk :=
    if type = 0 ∨ type = 2 then mcode = 0
    else if type = 1 ∨ type = 3 then mcode ≤ 11
    else if type = 15 then 1 ≤ mcode ∧ mcode ≤ 2
    else False
  if ¬ mcodeOk then .error .ebadmsg else
  let hd := raw_with_hdcrc motv
  let pl := raw_with_plcrc motv
  if hd ∧ pl ∧ raw.length < RP_HEADER_SIZE then .error .ebadmsg else
  if (hd ∨ pl) ∧ raw.length < RP_HEADER_SIZE - 2 then .error .ebadmsg else
  let hdcrc := if hd then ref ((raw.drop 12).take 2) else 0
  let crc0 := crcOf 0 (raw.take 12)
  let crc := if hd then (if pl then crcOf crc0 ((raw.drop 14).take 2) else crc0) else 0
  let offset := 6 + (if hd then 1 else 0)
  let plcrc := if pl then ref ((raw.drop (2 * offset)).take 2) else 0
  let offset' := offset + (if pl then 1 else 0)
  if crc = hdcrc then
    .ok ({ type := type, opts := opts, mcode := mcode, seq := ref ((raw.drop 2).take 2),
           addr := ref ((raw.drop 4).take 4), bsize := ref ((raw.drop 8).take 4),
           hdcrc := hdcrc, plcrc := plcrc }, offset')
  else .error .eilseq

/-- `parse_header(frame, buf, n)`: the fields and the header length in words, or the error -/
def parse_header (raw : List Octet) : Except Err (Hdr × Nat) :=
  if raw.length < RP_HEADER_MIN_SIZE then .error .ebadmsg
  else parse_header_fields raw (ref (raw.take 2))

/-- `payload_plausible` on a payload of `actual` octets -/
def payload_plausible (h : Hdr) (actual : Nat) : Option Err :=
  if h.opts &&& 1 ≠ 0 ∧ actual % 2 ≠ 0 then some .efault else
  let atoms := if h.opts &&& 1 ≠ 0 then actual / 2 else actual
  if h.type = 0 ∨ h.type = 15 then (if atoms = 0 then none else some .efault)
  else if h.type = 1 ∨ h.type = 2 ∨ h.type = 3 then (if h.bsize = atoms then none else some .efault)
  else some .einval

/-- `check_payload`: checksum over `blocksize` atoms of the payload -/
def check_payload (h : Hdr) (payload : List Octet) : Option Err :=
  if h.opts &&& 4 = 0 ∨ payload.length = 0 then none
  else
    let n := if h.opts &&& 1 ≠ 0 then 2 * h.bsize else h.bsize
    if crcOf 0 (payload.take n) = h.plcrc then none else some .eproto

/-- the two payload tests of `parse_frame`, in its order -/
def payload_checks (h : Hdr) (payload : List Octet) : Option Err :=
  match payload_plausible h payload.length with
  | some e => some e
  | none => check_payload h payload

/-- `parse_frame` behind `parse_header` -/
def parse_frame_rest (raw : List Octet) : Except Err (Hdr × Nat) → Except Err (Hdr × Nat) × Option (Hdr × Nat)
  | .error e => (.error e, none)
  | .ok (h, off) =>
    match payload_checks h (raw.drop (2 * off)) with
    | some e => (.error e, some (h, off))
    | none => (.ok (h, off), some (h, off))

/-- `parse_frame` on the octets stored behind the RPFrame structure: the verdict and, once
    `parse_header` got through, the fields with the payload offset in words -/
def parse_frame (raw : List Octet) : Except Err (Hdr × Nat) × Option (Hdr × Nat) :=
  parse_frame_rest raw (parse_header raw)

/-! ### the continuable sink -/

structure CS where
  blk   : Option (List Octet) := none      -- allocated block: octets stored behind the RPFrame area
  fb    : List Octet := []                 -- fallback buffer (sixteen octets)
  err   : Option Err := none               -- error.id
  count : Nat := 0                         -- error.datacount
  deriving Repr, DecidableEq

structure Alloc where
  script : List Bool      -- true = the allocation fails
  live   : Nat
  deriving Repr, DecidableEq

/-- `run_continuable_sink` for one octet (`setup_buffer` marks min(F, B) octets of the block as used) -/
def csStep (c : Cfg) (st : CS × Alloc) (o : Octet) : CS × Alloc :=
  let (cs, al) := st
  let cap := c.B - c.F
  match cs.err with
  | some _ =>
    -- already failed: keep what still fits, count the octet
    let cs' := match cs.blk with
      | some d => if d.length < cap then { cs with blk := some (d ++ [o]) } else cs
      | none => if cs.fb.length < RP_HEADER_SIZE then { cs with fb := cs.fb ++ [o] } else cs
    ({ cs' with count := cs.count + 1 }, al)
  | none =>
    match cs.blk with
    | none =>
      -- first octet: allocate
      let al' : Alloc := { al with script := al.script.tail }
      if al.script.head?.getD false then
        ({ cs with err := some .ebusy, count := 1, fb := [o] }, al')
      else if 0 < cap then
        ({ cs with blk := some [o] }, { al' with live := al.live + 1 })
      else
        ({ cs with blk := some [], err := some .enomem, count := min c.F c.B + 1 }, { al' with live := al.live + 1 })
    | some d =>
      if d.length < cap then ({ cs with blk := some (d ++ [o]) }, al)
      else ({ cs with err := some .enomem, count := min c.F c.B + d.length + 1 }, al)

def csRun (c : Cfg) (al : Alloc) (got : List Octet) : CS × Alloc :=
  got.foldl (csStep c) ({}, al)

/-! ### receiving -/

/-- `varint_u64_from_source` on the event list -/
def readVarint : (fuel i acc : Nat) → List SrcEv → Except Err Nat × List SrcEv
  | 0, _, _, src => (.error .eilseq, src)
  | _ + 1, _, _, [] => (.error .enodata, [])
  | _ + 1, _, _, .err e :: rest => (.error e, rest)
  | fuel + 1, i, acc, .octet d :: rest =>
    let acc' := acc ||| ((d.toNat &&& 0x7f) <<< (i * 7)) % 2 ^ 64
    if Ufw.Model.Varint.varint_done d then (.ok acc', rest) else readVarint fuel (i + 1) acc' rest

/-- `sts_n(source, sink, n)` into a sink that never refuses -/
def readN : List SrcEv → Nat → List Octet → Option Err × List Octet × List SrcEv
  | src, 0, acc => (none, acc, src)
  | [], _ + 1, acc => (some .enodata, acc, [])
  | .err e :: rest, _ + 1, acc => (some e, acc, rest)
  | .octet o :: rest, n + 1, acc => readN rest n (acc ++ [o])

/-- the channel part of `regp_recv`: return code, octets handed to the sink, rest of the source -/
def channelRecv (c : Cfg) (src : List SrcEv) : Option Err × List Octet × List SrcEv :=
  if c.serial then
    let r := Ufw.Model.Slip.rfc1055_decode false .normal src { room := src.length + 1 }
    ((match r.ret with | .frame => none | .error e => some e), r.snk.got, r.rest)
  else
    match readVarint Ufw.Model.Varint.MAX64 0 0 src with
    | (.error e, rest) => (some e, [], rest)
    | (.ok len, rest) => readN rest len []

/-- block returned to the caller: the raw frame and, once `parse_header` got through, its fields
    and the payload offset in words -/
structure Block where
  raw : List Octet
  hdr : Option (Hdr × Nat) := none
  deriving Repr, DecidableEq

structure MaybeFrame where
  err       : Option Err := none
  framesize : Nat := 0
  frame     : Option Block := none
  deriving Repr, DecidableEq

structure Inst where
  cfg : Cfg
  seq : Nat := 0
  src : List SrcEv := []
  snk : Snk := { room := 0 }
  al  : Alloc := { script := [], live := 0 }
  deriving Repr, DecidableEq

def is_request (h : Hdr) : Bool := h.type = 0 ∨ h.type = 2

/-- `send_early_response` on the fallback buffer -/
def send_early_response (c : Cfg) (snk : Snk) (fb : List Octet) (code : Nat) : Sent :=
  match parse_header fb with
  | .ok (h, _) =>
    if !is_request h then ⟨none, snk⟩
    else if code = 4 then send_resp_32 c snk h code ((c.B - c.F) % 2 ^ 32) .s8     -- trxbufsize(p)
    else send_resp_0 c snk h code .s8
  | .error .ebadmsg => regp_resp_meta c snk 1
  | .error .eilseq => regp_resp_meta c snk 2
  | .error e => ⟨some e, snk⟩

/-- `regp_recv(p, mf)`: return code (none = 0), the maybe-frame, the instance afterwards -/
def regp_recv (p : Inst) : Option Err × MaybeFrame × Inst :=
  let c := p.cfg
  let (chan, got, rest) := channelRecv c p.src
  let (cs, al) := csRun c p.al got
  match chan with
  | some e =>
    -- channel error: the block is released again
    (some e, {}, { p with src := rest, al := { al with live := if cs.blk.isSome then al.live - 1 else al.live } })
  | none =>
    let p1 := { p with src := rest, al := al }
    match cs.err with
    | some .ebusy =>
      let s := send_early_response c p.snk cs.fb 6
      (s.rc, { err := some .ebusy, framesize := cs.count, frame := none }, { p1 with snk := s.snk })
    | some .enomem =>
      let raw := cs.blk.getD []
      let s := send_early_response c p.snk (raw.take RP_HEADER_SIZE) 4
      (s.rc, { err := some .enomem, framesize := cs.count, frame := some { raw := raw } }, { p1 with snk := s.snk })
    | some _ => (some .einval, { err := cs.err, framesize := cs.count, frame := cs.blk.map ({ raw := · }) }, p1)
    | none =>
      match cs.blk with
      | none =>
        let s := regp_resp_meta c p.snk 1
        (s.rc, { err := some .ebadmsg }, { p1 with snk := s.snk })
      | some raw =>
        match parse_frame raw with
        | (.ok _, h) => (none, { frame := some { raw := raw, hdr := h } }, p1)
        | (.error e, h) =>
          let mf : MaybeFrame := { err := some e, frame := some { raw := raw, hdr := h } }
          if e = .ebadmsg then
            let s := regp_resp_meta c p.snk 1
            (s.rc, mf, { p1 with snk := s.snk })
          else if e = .eilseq then
            let s := regp_resp_meta c p.snk 2
            (s.rc, mf, { p1 with snk := s.snk })
          else (none, mf, p1)

/-- `regp_free(p, mf->frame)` -/
def regp_free (p : Inst) (mf : MaybeFrame) : Inst × MaybeFrame :=
  match mf.frame with
  | some _ => ({ p with al := { p.al with live := p.al.live - 1 } }, { mf with frame := none })
  | none => (p, mf)

/-! ### processing -/

/-- one call of the memory backend -/
structure Call where
  write   : Bool
  sem16   : Bool
  addr    : Nat
  bsize   : Nat
  room    : Nat            -- octets between the buffer handed over and the end of its memory object
  payload : List Octet     -- write: the octets handed over
  deriving Repr, DecidableEq

/-- the backend's behaviour: verdict, reported address, octets it stores for a read of n octets -/
structure Backend where
  status  : Nat
  address : Nat
  data    : Nat → List Octet

/-- `regp_process(p, mf)`: return code, backend calls, sink afterwards -/
def regp_process (c : Cfg) (snk : Snk) (mf : MaybeFrame) (be : Backend) : Sent × List Call :=
  match mf.frame with
  | none => (⟨none, snk⟩, [])
  | some blk =>
    let early (code : Nat) : Sent × List Call :=
      match blk.hdr with
      | some (h, _) => if is_request h then (send_resp_0 c snk h code .s8, []) else (⟨none, snk⟩, [])
      | none => (⟨none, snk⟩, [])
    match mf.err with
    | some .eproto => early 2
    | some .efault => early 3
    | some _ => (⟨none, snk⟩, [])
    | none =>
      match blk.hdr with
      | none => (⟨none, snk⟩, [])
      | some (h, off) =>
        if !is_request h then (⟨none, snk⟩, []) else
        if c.mem16 != decide (h.opts &&& 1 ≠ 0) then (send_resp_0 c snk h 1 .s8, []) else
        let unit := if c.mem16 then 2 else 1
        let room := c.B - (c.F + 2 * off)
        let (status, calls, buf) : Nat × List Call × Option (List Octet) :=
          if h.type = 0 then
            if room / unit < h.bsize then (5, [], none)
            else
              let d := be.data (h.bsize * unit)
              (be.status, [{ write := false, sem16 := c.mem16, addr := h.addr, bsize := h.bsize, room := room, payload := [] }],
               some d)
          else
            let pl := blk.raw.drop (2 * off)
            (be.status, [{ write := true, sem16 := c.mem16, addr := h.addr, bsize := h.bsize,
                           room := room, payload := pl }], none)
        let trx := (c.B - c.F) % 2 ^ 32
        let sent : Sent :=
          if status = 0 then regp_resp_ack c snk h buf (if buf.isSome then h.bsize else 0)
          else if status = 1 ∨ status = 2 ∨ status = 3 ∨ status = 6 ∨ status = 11 then send_resp_0 c snk h status .s8
          else if status = 4 ∨ status = 5 then send_resp_32 c snk h status trx .s8
          else if 7 ≤ status ∧ status ≤ 10 then send_resp_32 c snk h status be.address .s8
          else ⟨some .einval, snk⟩
        (sent, calls)

end Ufw.Model.Regp
