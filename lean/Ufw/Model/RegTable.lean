/-
Model of the typed register table, src/registers/core.c (properties C01–C05).

A table description is a list of areas and a list of entries (the C sentinels
`REGISTER_AREA_END` / `REGISTER_ENTRY_END` are the ends of the lists).  Storage of every area –
memory backed (`reg_mem_read/write`) or behind read/write callbacks – is a list of 16-bit atoms;
`hasRead/hasWrite` say whether the callbacks exist, `memBacked` whether `register_init` clears it.
Values are (type, bit pattern); floats are their IEEE-754 patterns.  Serialisation goes through the
arithmetic endian spec (C15) and the host's (little-endian) packing of two octets into an atom.
Addresses, offsets and counts are `Nat`: the model's domain is address + size < 2^32 (no wrap).
User validator callbacks are a parameter `cb : Nat → Value → Bool` indexed by an id.
-/
import Ufw.Common
import Ufw.Spec.Endian

namespace Ufw.Model.RegTable
open Ufw

abbrev Atom := Nat          -- RegisterAtom (uint16_t), always < 65536

inductive RType | u16 | u32 | u64 | s16 | s32 | s64 | f32 | f64
  deriving Repr, DecidableEq

/-- `rds_size[type]` in atoms -/
def RType.size : RType → Nat
  | .u16 | .s16 => 1
  | .u32 | .s32 | .f32 => 2
  | .u64 | .s64 | .f64 => 4

def RType.bits (t : RType) : Nat := 16 * t.size

structure Value where
  type : RType
  bits : Nat              -- pattern, < 2^type.bits
  deriving Repr, DecidableEq

inductive Validator
  | trivial | fail
  | min (lim : Nat) | max (lim : Nat) | range (lo hi : Nat)
  | callback (id : Nat)
  deriving Repr, DecidableEq

inductive Code
  | success | failure | uninitialised | noentry | range | invalid | readonly | ioError
  deriving Repr, DecidableEq

structure Access where
  code : Code
  address : Nat := 0
  deriving Repr, DecidableEq

structure Area where
  base : Nat
  size : Nat
  readable : Bool := true          -- REG_AF_READABLE
  writeable : Bool := true         -- REG_AF_WRITEABLE
  skipDefaults : Bool := false     -- REG_AF_SKIP_DEFAULTS
  hasRead : Bool := true           -- read callback present
  hasWrite : Bool := true          -- write callback present
  memBacked : Bool := true         -- mem != NULL (cleared by register_init)
  mem : List Atom                  -- storage, `size` atoms
  first : Nat := 0
  last : Nat := 0
  count : Nat := 0
  deriving Repr, DecidableEq

structure Entry where
  type : RType
  default : Nat
  address : Nat
  check : Validator := .trivial
  area : Nat := 0                  -- index of the area it lives in (set by init)
  offset : Nat := 0
  touched : Bool := false
  deriving Repr, DecidableEq

structure Table where
  areas : List Area
  entries : List Entry
  bigEndian : Bool := false
  initialised : Bool := false
  duringInit : Bool := false
  deriving Repr, DecidableEq

/-! ### values -/

def signedOf (bits w : Nat) : Int := if bits < 2 ^ (w - 1) then (bits : Int) else (bits : Int) - 2 ^ w

/-- IEEE-754 fields of a pattern with `e` exponent and `m` mantissa bits -/
def fExp (e m bits : Nat) : Nat := (bits / 2 ^ m) % 2 ^ e
def fMan (m bits : Nat) : Nat := bits % 2 ^ m
def fSign (e m bits : Nat) : Bool := (bits / 2 ^ (e + m)) % 2 == 1
def fIsNaN (e m bits : Nat) : Bool := fExp e m bits == 2 ^ e - 1 && fMan m bits != 0
def fIsZero (e m bits : Nat) : Bool := fExp e m bits == 0 && fMan m bits == 0
/-- `isnormal` -/
def fIsNormal (e m bits : Nat) : Bool := fExp e m bits != 0 && fExp e m bits != 2 ^ e - 1
/-- value order of non-NaN patterns: sign-magnitude -/
def fKey (e m bits : Nat) : Int :=
  let mag : Int := (bits % 2 ^ (e + m) : Nat)
  if fSign e m bits then -mag else mag
/-- IEEE `a <= b` -/
def fLe (e m a b : Nat) : Bool := !fIsNaN e m a && !fIsNaN e m b && fKey e m a ≤ fKey e m b

def floatOk (t : RType) (bits : Nat) : Bool :=
  match t with
  | .f32 => fIsZero 8 23 bits || fIsNormal 8 23 bits
  | .f64 => fIsZero 11 52 bits || fIsNormal 11 52 bits
  | _ => true

/-- `a <= b` in the type's own order -/
def leOf (t : RType) (a b : Nat) : Bool :=
  match t with
  | .u16 | .u32 | .u64 => a ≤ b
  | .s16 | .s32 | .s64 => signedOf a t.bits ≤ signedOf b t.bits
  | .f32 => fLe 8 23 a b
  | .f64 => fLe 11 52 a b

/-- `rv_validate` (the type test is done by the caller of `checkOk`) -/
def checkOk (cb : Nat → Value → Bool) (duringInit : Bool) (e : Entry) (v : Value) : Bool :=
  match e.check with
  | .trivial => true
  | .fail => duringInit
  | .min lim => leOf e.type lim v.bits
  | .max lim => leOf e.type v.bits lim
  | .range lo hi => leOf e.type lo v.bits && leOf e.type v.bits hi
  | .callback id => cb id v

def rv_validate (cb : Nat → Value → Bool) (t : Table) (e : Entry) (v : Value) : Bool :=
  e.type == v.type && checkOk cb t.duringInit e v

/-! ### serialisation -/

def atomsOfOctets : List Octet → List Atom
  | a :: b :: rest => (a.toNat + 256 * b.toNat) :: atomsOfOctets rest
  | _ => []

def octetsOfAtoms : List Atom → List Octet
  | [] => []
  | a :: rest => BitVec.ofNat 8 (a % 256) :: BitVec.ofNat 8 (a / 256) :: octetsOfAtoms rest

/-- `rds_*_ser`: none = refused (non-finite / subnormal float) -/
def ser (be : Bool) (t : RType) (bits : Nat) : Option (List Atom) :=
  if floatOk t bits then some (atomsOfOctets (Ufw.Spec.Endian.store be (2 * t.size) bits)) else none

/-- `rds_*_des`: value and whether the deserialiser accepts it -/
def des (be : Bool) (t : RType) (raw : List Atom) : Value × Bool :=
  let bits := Ufw.Spec.Endian.loadU be (octetsOfAtoms (raw.take t.size))
  (⟨t, bits⟩, floatOk t bits)

/-! ### area access -/

/-- `a->read(a, buf, offset, n)`: the atoms, `none` when the range is not inside the storage -/
def Area.read (a : Area) (offset n : Nat) : Option (List Atom) :=
  if offset + n ≤ a.mem.length then some ((a.mem.drop offset).take n) else none

def Area.write (a : Area) (offset : Nat) (d : List Atom) : Option Area :=
  if offset + d.length ≤ a.mem.length then
    some { a with mem := a.mem.take offset ++ (d ++ a.mem.drop (offset + d.length)) }
  else none

def ra_addr_is_part_of (a : Area) (addr : Nat) : Bool := a.base ≤ addr && addr < a.base + a.size

/-- `ra_find_area_by_addr`: index, = number of areas when unmapped -/
def ra_find_area_by_addr (t : Table) (addr : Nat) : Nat :=
  (t.areas.findIdx? fun a => ra_addr_is_part_of a addr).getD t.areas.length

def oob : Access := ⟨.ioError, 0xdead⟩      -- marks an access outside an area's storage (never on the clean tree)

/-! ### typed access -/

def register_setx (cb : Nat → Value → Bool) (t : Table) (idx : Nat) (v : Value) (withValidator : Bool) :
    Access × Table :=
  if !t.initialised then (⟨.uninitialised, idx⟩, t)
  else match t.entries[idx]? with
    | none => (⟨.noentry, idx⟩, t)
    | some e =>
      if withValidator && !rv_validate cb t e v then (⟨.range, e.address⟩, t)
      else match t.areas[e.area]? with
        | none => (oob, t)
        | some a =>
          if !a.hasWrite then (⟨.readonly, e.address⟩, t)
          else match ser t.bigEndian e.type v.bits with
            | none => (⟨.invalid, e.address⟩, t)
            | some raw =>
              match a.write e.offset raw with
              | none => (oob, t)
              | some a' => (⟨.success, 0⟩, { t with areas := t.areas.set e.area a' })

def register_set (cb : Nat → Value → Bool) (t : Table) (idx : Nat) (v : Value) := register_setx cb t idx v true
def register_set_unsafe (cb : Nat → Value → Bool) (t : Table) (idx : Nat) (v : Value) := register_setx cb t idx v false

def register_get (t : Table) (idx : Nat) : Access × Option Value :=
  if !t.initialised then (⟨.uninitialised, idx⟩, none)
  else match t.entries[idx]? with
    | none => (⟨.noentry, idx⟩, none)
    | some e =>
      match t.areas[e.area]? with
      | none => (oob, none)
      | some a =>
        match a.read e.offset e.type.size with
        | none => (oob, none)
        | some raw =>
          let (v, ok) := des t.bigEndian e.type raw
          if ok then (⟨.success, 0⟩, some v) else (⟨.invalid, idx⟩, some v)

def register_default (t : Table) (idx : Nat) : Access × Option Value :=
  if !t.initialised then (⟨.uninitialised, idx⟩, none)
  else match t.entries[idx]? with
    | none => (⟨.noentry, idx⟩, none)
    | some e => (⟨.success, 0⟩, some ⟨e.type, e.default⟩)

/-- `register_bit_set` (set = true) / `register_bit_clear` -/
def register_bit_op (cb : Nat → Value → Bool) (t : Table) (idx : Nat) (v : Value) (set : Bool) : Access × Table :=
  match register_get t idx with
  | (⟨.success, _⟩, some reg) =>
    if reg.type != v.type then (⟨.invalid, idx⟩, t)
    else match reg.type with
      | .u16 | .u32 | .u64 =>
        let nb := if set then reg.bits ||| v.bits else reg.bits &&& (2 ^ reg.type.bits - 1 - v.bits % 2 ^ reg.type.bits)
        register_set cb t idx ⟨reg.type, nb⟩
      | _ => (⟨.invalid, idx⟩, t)
  | (a, _) => (a, t)

/-! ### block access -/

/-- `register_block_touches_hole`: none = fully mapped, some a = first unmapped address -/
def touchesHole (t : Table) : (fuel : Nat) → (addr rest : Nat) → Option Nat
  | _, _, 0 => none
  | 0, addr, _ + 1 => some addr
  | fuel + 1, addr, rest + 1 =>
    match t.areas[ra_find_area_by_addr t addr]? with
    | none => some addr
    | some a =>
      let used := min (a.base + a.size - addr) (rest + 1)
      if used = 0 then some addr else touchesHole t fuel (addr + used) (rest + 1 - used)

def register_block_touches_hole (t : Table) (addr n : Nat) : Access :=
  match touchesHole t n addr n with
  | none => ⟨.success, 0⟩
  | some a => ⟨.noentry, a⟩

/-- `register_block_read_unsafe` on a mapped range -/
def blockReadLoop (t : Table) : (fuel : Nat) → (addr rest : Nat) → Option (List Atom)
  | _, _, 0 => some []
  | 0, _, _ + 1 => none
  | fuel + 1, addr, rest + 1 =>
    match t.areas[ra_find_area_by_addr t addr]? with
    | none => none
    | some a =>
      let readn := min (a.base + a.size - addr) (rest + 1)
      if readn = 0 then none else
      let part : Option (List Atom) :=
        if a.hasRead && a.readable then a.read (addr - a.base) readn else some (List.replicate readn 0)
      match part, blockReadLoop t fuel (addr + readn) (rest + 1 - readn) with
      | some p, some r => some (p ++ r)
      | _, _ => none

def register_block_read (t : Table) (addr n : Nat) : Access × List Atom :=
  if !t.initialised then (⟨.uninitialised, addr⟩, [])
  else if n = 0 then (⟨.success, 0⟩, [])
  else match register_block_touches_hole t addr n with
    | ⟨.success, _⟩ =>
      (match blockReadLoop t n addr n with
       | some d => (⟨.success, 0⟩, d)
       | none => (oob, []))
    | r => (r, [])

/-- `ra_writeable` -/
def ra_writeable (t : Table) (addr n : Nat) : Access :=
  let rec go : List Area → Access
    | [] => ⟨.success, 0⟩
    | a :: rest =>
      if a.base + a.size ≤ addr then go rest
      else if addr + n ≤ a.base then ⟨.success, 0⟩
      else if !(a.hasWrite && a.writeable) then ⟨.readonly, max a.base addr⟩
      else go rest
  go t.areas

/-- `ra_malformed_write`: overlay the block on every overlapped entry and check it -/
def ra_malformed_write (cb : Nat → Value → Bool) (t : Table) (addr : Nat) (buf : List Atom) : Access :=
  let n := buf.length
  let rec go : List Entry → Access
    | [] => ⟨.success, 0⟩
    | e :: rest =>
      let size := e.type.size
      if e.address + size ≤ addr then go rest            -- entry before the block
      else if addr + n ≤ e.address then ⟨.success, 0⟩    -- entries behind the block
      else
        let ostart := max addr e.address
        let oend := min (addr + n) (e.address + size)
        match t.areas[e.area]? with
        | none => oob
        | some a =>
          match a.read e.offset size with
          | none => oob
          | some raw =>
            let rs := ostart - e.address
            let bs := ostart - addr
            let rlen := oend - ostart
            let raw' := raw.take rs ++ ((buf.drop bs).take rlen ++ raw.drop (rs + rlen))
            let (v, ok) := des t.bigEndian e.type raw'
            if !ok then ⟨.invalid, addr + bs⟩
            else if !rv_validate cb t e v then ⟨.range, addr + bs⟩
            else go rest
  go t.entries

/-- `register_block_write_unsafe` on a mapped range -/
def blockWriteLoop : (fuel : Nat) → Table → (addr : Nat) → (buf : List Atom) → Option Table
  | _, t, _, [] => some t
  | 0, _, _, _ :: _ => none
  | fuel + 1, t, addr, b :: bs =>
    let an := ra_find_area_by_addr t addr
    match t.areas[an]? with
    | none => none
    | some a =>
      let writen := min (a.base + a.size - addr) (bs.length + 1)
      if writen = 0 then none else
      match a.write (addr - a.base) ((b :: bs).take writen) with
      | none => none
      | some a' => blockWriteLoop fuel { t with areas := t.areas.set an a' } (addr + writen) ((b :: bs).drop writen)

/-- `reg_taint_in_range` -/
def reg_taint_in_range (t : Table) (addr n : Nat) : Table :=
  { t with entries := t.entries.map fun e =>
      if e.address + e.type.size ≤ addr ∨ addr + n ≤ e.address then e else { e with touched := true } }

def register_block_write (cb : Nat → Value → Bool) (t : Table) (addr : Nat) (buf : List Atom) : Access × Table :=
  let n := buf.length
  if !t.initialised then (⟨.uninitialised, addr⟩, t)
  else if n = 0 then (⟨.success, 0⟩, t)
  else match ra_writeable t addr n with
    | ⟨.success, _⟩ =>
      (match register_block_touches_hole t addr n with
       | ⟨.success, _⟩ =>
         (match ra_malformed_write cb t addr buf with
          | ⟨.success, _⟩ =>
            (match blockWriteLoop n t addr buf with
             | some t' => (⟨.success, 0⟩, reg_taint_in_range t' addr n)
             | none => (oob, t))
          | r => (r, t))
       | r => (r, t))
    | r => (r, t)

/-! ### sanitise, iteration -/

def reg_entry_sane (cb : Nat → Value → Bool) (t : Table) (idx : Nat) : Access :=
  match register_get t idx, t.entries[idx]? with
  | (⟨.success, _⟩, some v), some e => if rv_validate cb t e v then ⟨.success, 0⟩ else ⟨.range, idx⟩
  | (a, _), _ => a

def register_sanitise (cb : Nat → Value → Bool) (t : Table) : Access × Table :=
  if !t.initialised then (⟨.uninitialised, 0⟩, t)
  else
    let rec go : (todo : Nat) → (i : Nat) → Table → Access × Table
      | 0, _, t => (⟨.success, 0⟩, t)
      | todo + 1, i, t =>
        let untouch (t : Table) : Table :=
          { t with entries := t.entries.modify i fun e => { e with touched := false } }
        match reg_entry_sane cb t i with
        | ⟨.success, _⟩ => go todo (i + 1) (untouch t)
        | ⟨.invalid, _⟩ | ⟨.range, _⟩ =>
          (match t.entries[i]? with
           | none => (oob, t)
           | some e =>
             match register_set cb t i ⟨e.type, e.default⟩ with
             | (⟨.success, _⟩, t') => go todo (i + 1) (untouch t')
             | (a, t') => (a, t'))
        | a => (a, t)
    go t.entries.length 0 t

/-- `register_foreach_in`: the callback is a script of return values (exhausted = 0); returns the
    result and the handles visited -/
def register_foreach_in (t : Table) (addr off : Nat) (script : List Int) : Access × List Nat :=
  if !t.initialised then (⟨.uninitialised, 0⟩, [])
  else if off = 0 ∨ t.entries.length = 0 then (⟨.success, 0⟩, [])
  else
    let overlaps (e : Entry) : Bool := !(e.address + e.type.size ≤ addr) && !(addr + off ≤ e.address)
    match t.entries.findIdx? overlaps with
    | none => (⟨.success, 0⟩, [])
    | some start =>
      let endA := addr + off - 1
      let rec go : List Entry → Nat → List Int → List Nat → Access × List Nat
        | [], _, _, acc => (⟨.success, 0⟩, acc)
        | e :: rest, h, script, acc =>
          if e.address ≤ endA then
            let r := script.headD 0
            if r = 0 then go rest (h + 1) script.tail (acc ++ [h])
            else if r < 0 then (⟨.failure, e.address⟩, acc ++ [h])
            else (⟨.success, 0⟩, acc ++ [h])
          else (⟨.success, 0⟩, acc)
      go (t.entries.drop start) start script []

/-! ### initialisation -/

inductive InitCode
  | success | tableInvalid | noAreas | tooManyAreas | areaInvalidOrder | areaAddressOverlap
  | tooManyEntries | entryInvalidOrder | entryAddressOverlap | entryInMemoryHole | entryInvalidDefault
  deriving Repr, DecidableEq

structure InitRes where
  code : InitCode
  pos : Nat := 0
  deriving Repr, DecidableEq

/-- first index i ≥ 1 at which the order/overlap rule between item i-1 and i fails -/
def orderCheck (addrs sizes : List Nat) : Option (Bool × Nat) :=
  let rec go : (i prev prevSize : Nat) → List (Nat × Nat) → Option (Bool × Nat)
    | _, _, _, [] => none
    | i, prev, prevSize, (cur, sz) :: rest =>
      if cur < prev then some (false, i)
      else if cur < prev + prevSize then some (true, i)
      else go (i + 1) cur sz rest
  match addrs.zip sizes with
  | [] => none
  | (a0, s0) :: rest => go 1 a0 s0 rest

/-- `reg_entry_is_in_memory`: area index and offset -/
def reg_entry_is_in_memory (t : Table) (e : Entry) : Option (Nat × Nat) :=
  match t.areas.findIdx? fun a => ra_addr_is_part_of a e.address with
  | none => none
  | some i =>
    match t.areas[i]? with
    | none => none
    | some a => if e.address + e.type.size ≤ a.base + a.size then some (i, e.address - a.base) else none

def need_to_load_default (a : Area) : Bool := a.hasWrite && !a.skipDefaults

/-- area → (first, last, count): the run of entries located in it, from `entry` on -/
def linkAreas (entries : List Entry) : List Area → Nat → List Area
  | [], _ => []
  | a :: rest, entry =>
    match entries[entry]? with
    | some e =>
      if ra_addr_is_part_of a e.address then
        let run := ((entries.drop (entry + 1)).takeWhile fun x => ra_addr_is_part_of a x.address).length
        let next := entry + 1 + run
        { a with first := entry, last := next - 1, count := next - entry } :: linkAreas entries rest next
      else { a with first := 0, last := 0, count := 0 } :: linkAreas entries rest entry
    | none => { a with first := 0, last := 0, count := 0 } :: linkAreas entries rest entry

def register_init (cb : Nat → Value → Bool) (t0 : Table) : InitRes × Table :=
  let t := { t0 with initialised := false, duringInit := true }
  let failWith (c : InitCode) (p : Nat) (t : Table) : InitRes × Table :=
    (⟨c, p⟩, { t with initialised := false, duringInit := false })
  if t.areas.length = 0 then failWith .noAreas 0 t
  else match orderCheck (t.areas.map (·.base)) (t.areas.map (·.size)) with
    | some (false, i) => failWith .areaInvalidOrder i t
    | some (true, i) => failWith .areaAddressOverlap i t
    | none =>
      match orderCheck (t.entries.map (·.address)) (t.entries.map (·.type.size)) with
      | some (false, i) => failWith .entryInvalidOrder i t
      | some (true, i) => failWith .entryAddressOverlap i t
      | none =>
        let cleared := t.areas.map fun a =>
          if a.memBacked then { a with mem := List.replicate a.mem.length 0 } else a
        let t := { t with areas := cleared, initialised := true }
        let rec load : (todo i : Nat) → Table → InitRes × Table
          | 0, _, t => (⟨.success, 0⟩, t)
          | todo + 1, i, t =>
            match t.entries[i]? with
            | none => (⟨.success, 0⟩, t)
            | some e =>
              match reg_entry_is_in_memory t e with
              | none => failWith .entryInMemoryHole i t
              | some (ai, off) =>
                let e' := { e with area := ai, offset := off }
                let t := { t with entries := t.entries.set i e' }
                match t.areas[ai]? with
                | none => failWith .entryInMemoryHole i t
                | some a =>
                  if need_to_load_default a then
                    match register_set cb t i ⟨e.type, e.default⟩ with
                    | (⟨.success, _⟩, t') => load todo (i + 1) t'
                    | (_, t') => failWith .entryInvalidDefault i t'
                  else load todo (i + 1) t
        match load t.entries.length 0 t with
        | (⟨.success, _⟩, t) =>
          (⟨.success, 0⟩, { t with areas := linkAreas t.entries t.areas 0, duringInit := false })
        | r => r

end Ufw.Model.RegTable
