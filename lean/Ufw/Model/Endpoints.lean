/-
Model of src/endpoints/core.c (property C17): octet/chunk access to sources and
sinks and source-to-sink plumbing, for endpoints WITHOUT the getbuffer extension
(no endpoint of the library provides it).

Drivers are scripts.  A source driver owns the `stream` of octets it will still
deliver and a `script` saying how its next calls behave: transfer at most k octets,
return 0, fail with EINTR/EAGAIN, or fail hard.  When the script is used up the
driver transfers whatever is asked; a source whose stream is used up answers
-ENODATA.  An octet-style driver moves one octet per successful call.

Loops that the C code runs "until done" take fuel; running out of fuel is the outcome
`diverge`.  `C17.terminates` shows that fuel = script length + count + 1 suffices.
-/
import Ufw.Common

namespace Ufw.Model.Endpoints
open Ufw

def SSIZE_MAX : Nat := 2 ^ 63 - 1

inductive Kind | octet | chunk
  deriving Repr, DecidableEq

inductive Step
  | xfer (k : Nat)      -- transfer up to k octets (k ≥ 1)
  | zero                -- return 0
  | eintr | eagain      -- interrupted / try again
  | hard (e : Err)      -- any other error
  deriving Repr, DecidableEq

/-- result of a call: count, error, or loop ran out of fuel -/
inductive R
  | ok (n : Nat)
  | err (e : Err)
  | diverge
  deriving Repr, DecidableEq

structure Src where
  kind   : Kind
  stream : List Octet
  script : List Step
  calls  : Nat := 0
  deriving Repr, DecidableEq

structure Snk where
  kind   : Kind
  got    : List Octet := []
  script : List Step
  calls  : Nat := 0
  deriving Repr, DecidableEq

/-- one call of a source driver asked for `n` octets (n = 1 for octet drivers) -/
def Src.call (s : Src) (n : Nat) : R × List Octet × Src :=
  let s1 := { s with script := s.script.tail, calls := s.calls + 1 }
  let deliver (m : Nat) : R × List Octet × Src :=
    if s.stream.isEmpty then (.err .enodata, [], s1)
    else (.ok (min m s.stream.length), s.stream.take m, { s1 with stream := s.stream.drop m })
  match s.script.head? with
  | some .zero => (.ok 0, [], s1)
  | some .eintr => (.err .eintr, [], s1)
  | some .eagain => (.err .eagain, [], s1)
  | some (.hard e) => (.err e, [], s1)
  | some (.xfer k) => deliver (min k n)
  | none => deliver n

/-- one call of a sink driver offered `d` -/
def Snk.call (s : Snk) (d : List Octet) : R × Snk :=
  let s1 := { s with script := s.script.tail, calls := s.calls + 1 }
  match s.script.head? with
  | some .zero => (.ok 0, s1)
  | some .eintr => (.err .eintr, s1)
  | some .eagain => (.err .eagain, s1)
  | some (.hard e) => (.err e, s1)
  | some (.xfer k) => (.ok (min k d.length), { s1 with got := s.got ++ d.take k })
  | none => (.ok d.length, { s1 with got := s.got ++ d })

/-- EINTR and EAGAIN make the loops try again -/
def isRetry (e : Err) : Bool := e == .eintr || e == .eagain

/-! ### octet access -/

/-- `source_get_octet`: one driver call asking for one octet -/
def source_get_octet (s : Src) : R × List Octet × Src := s.call 1

/-- `sink_put_octet` -/
def sink_put_octet (s : Snk) (o : Octet) : R × Snk := s.call [o]

/-! ### chunk access -/

/-- `source_adapt`: read `rest` more octets from an octet driver -/
def source_adapt : (fuel : Nat) → Src → (rest : Nat) → (acc : List Octet) → R × List Octet × Src
  | _, s, 0, acc => (.ok acc.length, acc, s)
  | 0, s, _ + 1, acc => (.diverge, acc, s)
  | fuel + 1, s, rest + 1, acc =>
    match s.call 1 with
    | (.err e, _, s') =>
      if isRetry e then source_adapt fuel s' (rest + 1) acc
      -- ran dry: a partial chunk is reported as such, the next call reports -ENODATA
      else if e = .enodata ∧ ¬ acc.isEmpty then (.ok acc.length, acc, s')
      else (.err e, acc, s')
    | (.diverge, _, s') => (.diverge, acc, s')
    | (.ok k, d, s') => source_adapt fuel s' (rest + 1 - k) (acc ++ d)

def once_source_get_chunk (fuel : Nat) (s : Src) (n : Nat) : R × List Octet × Src :=
  match s.kind with
  | .octet => source_adapt fuel s n []
  | .chunk => s.call n

/-- loop of `source_get_chunk` -/
def getLoop : (fuel : Nat) → Src → (rest : Nat) → (acc : List Octet) → R × List Octet × Src
  | _, s, 0, acc => (.ok acc.length, acc, s)
  | 0, s, _ + 1, acc => (.diverge, acc, s)
  | fuel + 1, s, rest + 1, acc =>
    match once_source_get_chunk (fuel + 1) s (rest + 1) with
    | (.err e, _, s') => if isRetry e then getLoop fuel s' (rest + 1) acc else (.err e, acc, s')
    | (.diverge, _, s') => (.diverge, acc, s')
    | (.ok k, d, s') => getLoop fuel s' (rest + 1 - k) (acc ++ d)

/-- `source_get_chunk(source, buf, n)`; the second component is buf[0 .. moved) -/
def source_get_chunk (fuel : Nat) (s : Src) (n : Nat) : R × List Octet × Src :=
  if n = 0 ∨ n > SSIZE_MAX then (.err .einval, [], s) else getLoop fuel s n []

def source_get_chunk_atmost (fuel : Nat) (s : Src) (n : Nat) : R × List Octet × Src :=
  once_source_get_chunk fuel s n

/-- `sink_adapt`: write `d` octet by octet -/
def sink_adapt : (fuel : Nat) → Snk → (d : List Octet) → (done : Nat) → R × Snk
  | _, s, [], done => (.ok done, s)
  | 0, s, _ :: _, _ => (.diverge, s)
  | fuel + 1, s, o :: os, done =>
    match s.call [o] with
    | (.err e, s') => if isRetry e then sink_adapt fuel s' (o :: os) done else (.err e, s')
    | (.diverge, s') => (.diverge, s')
    | (.ok k, s') => sink_adapt fuel s' ((o :: os).drop k) (done + k)

def once_sink_put_chunk (fuel : Nat) (s : Snk) (d : List Octet) : R × Snk :=
  match s.kind with
  | .octet => sink_adapt fuel s d 0
  | .chunk => s.call d

def putLoop : (fuel : Nat) → Snk → (d : List Octet) → (total : Nat) → R × Snk
  | _, s, [], total => (.ok total, s)
  | 0, s, _ :: _, _ => (.diverge, s)
  | fuel + 1, s, o :: os, total =>
    match once_sink_put_chunk (fuel + 1) s (o :: os) with
    | (.err e, s') => if isRetry e then putLoop fuel s' (o :: os) total else (.err e, s')
    | (.diverge, s') => (.diverge, s')
    | (.ok k, s') => putLoop fuel s' ((o :: os).drop k) total

/-- `sink_put_chunk(sink, buf, n)` with buf[0..n) = d -/
def sink_put_chunk (fuel : Nat) (s : Snk) (d : List Octet) : R × Snk :=
  if d.length = 0 ∨ d.length > SSIZE_MAX then (.err .einval, s) else putLoop fuel s d d.length

def sink_put_chunk_atmost (fuel : Nat) (s : Snk) (d : List Octet) : R × Snk :=
  once_sink_put_chunk fuel s d

/-! ### plumbing (no getbuffer extension) -/

/-- the sink is asked again while it takes nothing (answers 0); every such answer uses up one step of its
    script, so `script.length + 1` rounds always suffice -/
def putRetry : (fuel : Nat) → Snk → Octet → R × Snk
  | 0, s, _ => (.diverge, s)
  | fuel + 1, s, o =>
    match sink_put_octet s o with
    | (.ok 0, s') => putRetry fuel s' o
    | r => r

/-- `sts_cbc`: one octet from the source into the sink; 0 when the source delivered nothing -/
def sts_cbc (src : Src) (snk : Snk) : R × Src × Snk :=
  match source_get_octet src with
  | (.err e, _, src') => (.err e, src', snk)
  | (.diverge, _, src') => (.diverge, src', snk)
  | (.ok _, d, src') =>
    match d with
    | [] => (.ok 0, src', snk)     -- the driver answered 0: nothing to hand on
    | o :: _ => let (r, snk') := putRetry (snk.script.length + 1) snk o; (r, src', snk')

def sts_drain_cbc : (fuel : Nat) → Src → Snk → R × Src × Snk
  | 0, src, snk => (.diverge, src, snk)
  | fuel + 1, src, snk =>
    match sts_cbc src snk with
    | (.ok _, src', snk') => sts_drain_cbc fuel src' snk'
    | (r, src', snk') => (r, src', snk')

/-- `sts_n` without buffer extension: `sts_atmost` = `sts_cbc`; a sink answering -ENOMEM ends it -/
def sts_n : (fuel : Nat) → Src → Snk → (rest total : Nat) → R × Src × Snk
  | _, src, snk, 0, total => (.ok total, src, snk)
  | 0, src, snk, _ + 1, _ => (.diverge, src, snk)
  | fuel + 1, src, snk, rest + 1, total =>
    match sts_cbc src snk with
    | (.ok k, src', snk') => sts_n fuel src' snk' (rest + 1 - k) total
    | (r, src', snk') => (r, src', snk')

/-- `sts_n_cbc`: counts what was moved (a round that moved nothing does not count) - the same loop as `sts_n`
    when no endpoint has the buffer extension -/
def sts_n_cbc (fuel n : Nat) (src : Src) (snk : Snk) (total : Nat) : R × Src × Snk := sts_n fuel src snk n total

/-- `sts_drain` without buffer extension: a sink answering -ENOMEM makes it try the source's
    buffer, which does not exist: -EPIPE -/
def sts_drain : (fuel : Nat) → Src → Snk → R × Src × Snk
  | 0, src, snk => (.diverge, src, snk)
  | fuel + 1, src, snk =>
    match sts_cbc src snk with
    | (.ok _, src', snk') => sts_drain fuel src' snk'
    | (.err e, src', snk') => ((if e = .enomem then .err .epipe else .err e), src', snk')
    | (r, src', snk') => (r, src', snk')

/-- auxiliary buffer as far as the plumbing is concerned: its memory and the designated
    region [offset, used) -/
structure Aux where
  mem : List Octet
  used : Nat
  offset : Nat
  deriving Repr, DecidableEq

def Aux.write (a : Aux) (d : List Octet) : Aux :=
  { a with mem := a.mem.take a.offset ++ (d ++ a.mem.drop (a.offset + d.length)) }

/-- `sts_some_aux`: at most `region` octets through the auxiliary buffer -/
def sts_some_aux (fuel : Nat) (src : Src) (snk : Snk) (a : Aux) (region : Nat) : R × Src × Snk × Aux :=
  if region = 0 then (.err .einval, src, snk, a) else
  match source_get_chunk_atmost fuel src region with
  | (.err e, _, src') => (.err e, src', snk, a)
  | (.diverge, _, src') => (.diverge, src', snk, a)
  | (.ok 0, _, src') => (.ok 0, src', snk, a)
  | (.ok _, d, src') =>
    let (r, snk') := sink_put_chunk fuel snk d
    (r, src', snk', a.write d)

/-- `sts_atmost_aux`: the region is cut down to n octets -/
def sts_atmost_aux (fuel : Nat) (src : Src) (snk : Snk) (a : Aux) (n : Nat) : R × Src × Snk × Aux :=
  sts_some_aux fuel src snk a (min (a.used - a.offset) n)

/-- `byte_buffer_rewind` on the auxiliary buffer -/
def Aux.rewind (a : Aux) : Aux :=
  if a.offset = 0 then a else
  { mem := (a.mem.drop a.offset).take (a.used - a.offset) ++ a.mem.drop (a.used - a.offset),
    used := a.used - a.offset, offset := 0 }

def sts_n_aux : (fuel : Nat) → Src → Snk → Aux → (rest total : Nat) → R × Src × Snk × Aux
  | _, src, snk, a, 0, total => (.ok total, src, snk, a)
  | 0, src, snk, a, _ + 1, _ => (.diverge, src, snk, a)
  | fuel + 1, src, snk, a, rest + 1, total =>
    match sts_atmost_aux (fuel + 1) src snk a.rewind (rest + 1) with
    | (.ok k, src', snk', a') => sts_n_aux fuel src' snk' a' (rest + 1 - k) total
    | (r, src', snk', a') => (r, src', snk', a')

def sts_drain_aux : (fuel : Nat) → Src → Snk → Aux → (size : Nat) → R × Src × Snk × Aux
  | 0, src, snk, a, _ => (.diverge, src, snk, a)
  | fuel + 1, src, snk, a, size =>
    match sts_atmost_aux (fuel + 1) src snk a.rewind size with
    | (.ok _, src', snk', a') => sts_drain_aux fuel src' snk' a' size
    | (r, src', snk', a') => (r, src', snk', a')

end Ufw.Model.Endpoints
