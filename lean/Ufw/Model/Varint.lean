/-
Model of src/variable-length-integer.c (property C14).

Values are `Nat`; every place where the C code works in `uint64_t` reduces
modulo 2^64 here (`<<` in the decoders), the 32-bit wrappers mask with
UINT32_MAX exactly where the C code does.  Signed values are mapped through
their two's complement bit pattern (the `union varint32/64` of the C file).
The buffer decoder works on a memory object of `size = mem.length` octets
starting at `off`; the source decoder on the octets a source still has to
deliver (an exhausted source answers with an error).
-/
import Ufw.Common
import Ufw.Model.ByteBuffer

namespace Ufw.Model.Varint
open Ufw

def CONT : Nat := 0x80      -- VARINT_CONTINUATION_MASK
def DMASK : Nat := 0x7f     -- VARINT_DATA_MASK
def DBITS : Nat := 7        -- VARINT_DATA_BITS
def MAX32 : Nat := 5        -- VARINT_32BIT_MAX_OCTETS
def MAX64 : Nat := 10       -- VARINT_64BIT_MAX_OCTETS

/-- the octets `varint_encode` writes for `n` (loop of the C function) -/
def encode (n : Nat) : List Octet :=
  if h : n / 128 = 0 then [BitVec.ofNat 8 (n % 128)]
  else BitVec.ofNat 8 (n % 128 + 128) :: encode (n / 128)
termination_by n
decreasing_by omega

/-- `varint_u64_length` -/
def varint_u64_length (n : Nat) : Nat :=
  if h : n / 128 = 0 then 1 else 1 + varint_u64_length (n / 128)
termination_by n
decreasing_by omega

inductive Dec
  | ok (value consumed : Nat)
  | err (e : Err)
  | oob
  deriving Repr, DecidableEq

def varint_done (d : Octet) : Bool := d.toNat &&& CONT == 0

/-- loop of `varint_decode`: `fuel = maxoctets - i`.  The buffer's memory has
    `mem.length` octets; `off` is the buffer's read mark. -/
def decodeLoop (mem : List Octet) (off : Nat) : (fuel i acc : Nat) → Dec
  | 0, _, _ => .err .eilseq
  | fuel + 1, i, acc =>
    if off + i ≥ mem.length then .err .enodata     -- varint cut off by the end of the buffer
    else match mem[off + i]? with
      | none => .oob
      | some d =>
        let acc' := acc ||| ((d.toNat &&& DMASK) <<< (i * DBITS)) % 2 ^ 64
        if varint_done d then .ok acc' (i + 1) else decodeLoop mem off fuel (i + 1) acc'

def varint_decode (mem : List Octet) (off maxoctets : Nat) : Dec := decodeLoop mem off maxoctets 0 0

/-- loop of `varint_from_source`; `input` = octets the source will still deliver,
    an exhausted source returns the error `eos`. -/
def sourceLoop (eos : Err) : (input : List Octet) → (fuel i acc : Nat) → Dec
  | _, 0, _, _ => .err .eilseq
  | [], _ + 1, _, _ => .err eos
  | d :: rest, fuel + 1, i, acc =>
    let acc' := acc ||| ((d.toNat &&& DMASK) <<< (i * DBITS)) % 2 ^ 64
    if varint_done d then .ok acc' (i + 1) else sourceLoop eos rest fuel (i + 1) acc'

def varint_from_source (eos : Err) (input : List Octet) (maxoctets : Nat) : Dec :=
  sourceLoop eos input maxoctets 0 0

/-! ### typed wrappers -/

def u32 (v : Nat) : Nat := v % 2 ^ 32
def toS32 (v : Nat) : Int := (BitVec.ofNat 32 v).toInt
def toS64 (v : Nat) : Int := (BitVec.ofNat 64 v).toInt
def ofS32 (x : Int) : Nat := (BitVec.ofInt 32 x).toNat
def ofS64 (x : Int) : Nat := (BitVec.ofInt 64 x).toNat

def Dec.map (f : Nat → Nat) : Dec → Dec
  | .ok v c => .ok (f v) c
  | d => d

def varint_decode_u32 (mem : List Octet) (off : Nat) : Dec := (varint_decode mem off MAX32).map u32
def varint_decode_u64 (mem : List Octet) (off : Nat) : Dec := varint_decode mem off MAX64
def varint_u32_from_source (eos : Err) (input : List Octet) : Dec := (varint_from_source eos input MAX32).map u32
def varint_u64_from_source (eos : Err) (input : List Octet) : Dec := varint_from_source eos input MAX64

/-! ### encoding into a byte buffer -/

open Ufw.Model.ByteBuffer (ByteBuffer Rc writeAt byte_buffer_avail)

/-- `varint_encode_u32/u64` (`maxo` = 5 / 10, `n` already masked by the caller):
    refuses when fewer than `maxo` octets are available, writes at the read mark
    and sets the fill mark just past the encoding – as the C code does. -/
def varint_encode_buf (b : ByteBuffer) (maxo n : Nat) : Rc × ByteBuffer :=
  if byte_buffer_avail b < maxo then (.err .einval, b)
  else match writeAt b.mem b.offset (encode n) with
    | none => (.oob, b)
    | some m => (.ok (encode n).length, { b with mem := m, used := b.offset + (encode n).length })

def varint_encode_u32 (b : ByteBuffer) (n : Nat) := varint_encode_buf b MAX32 (u32 n)
def varint_encode_u64 (b : ByteBuffer) (n : Nat) := varint_encode_buf b MAX64 (n % 2 ^ 64)
def varint_encode_s32 (b : ByteBuffer) (x : Int) := varint_encode_buf b MAX32 (ofS32 x)
def varint_encode_s64 (b : ByteBuffer) (x : Int) := varint_encode_buf b MAX64 (ofS64 x)

end Ufw.Model.Varint
