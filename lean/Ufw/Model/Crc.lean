/-
Model of src/crc-16-arc.c (property C16).  `crc16_table`, `crc16_octet` and
`CRC16_ARC_INITIAL` are regenerated from the source (Ufw/Gen/CrcTable.lean);
the loops are transcribed here.
-/
import Ufw.Common
import Ufw.Gen.CrcTable

namespace Ufw.Model.Crc
open Ufw Ufw.Gen.CrcTable

/-- `ufw_crc16_arc(crc, buffer, n)` -/
def ufw_crc16_arc (crc : BitVec 16) (buffer : List Octet) : BitVec 16 :=
  buffer.foldl crc16_octet crc

def ufw_buffer_crc16_arc (buffer : List Octet) : BitVec 16 :=
  ufw_crc16_arc CRC16_ARC_INITIAL buffer

/-- one word of `ufw_crc16_arc_u16`, `SYSTEM_ENDIANNESS_LITTLE` branch -/
def wordStepLE (crc : BitVec 16) (w : BitVec 16) : BitVec 16 :=
  crc16_octet (crc16_octet crc ((w &&& 0xff#16).truncate 8)) (((w >>> 8) &&& 0xff#16).truncate 8)

/-- one word, `SYSTEM_ENDIANNESS_BIG` branch -/
def wordStepBE (crc : BitVec 16) (w : BitVec 16) : BitVec 16 :=
  crc16_octet (crc16_octet crc (((w >>> 8) &&& 0xff#16).truncate 8)) ((w &&& 0xff#16).truncate 8)

def ufw_crc16_arc_u16 (bigEndian : Bool) (crc : BitVec 16) (buffer : List (BitVec 16)) : BitVec 16 :=
  buffer.foldl (if bigEndian then wordStepBE else wordStepLE) crc

/-- in-memory octet image of a word on a little- or big-endian host -/
def wordImage (bigEndian : Bool) (w : BitVec 16) : List Octet :=
  if bigEndian then [(w >>> 8).truncate 8, w.truncate 8] else [w.truncate 8, (w >>> 8).truncate 8]

end Ufw.Model.Crc
