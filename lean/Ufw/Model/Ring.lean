/-
Model of the RING_BUFFER macro family (include/ufw/ring-buffer.h), the iterator
(include/ufw/ring-buffer-iter.h, src/ring-buffer-iter.c) and thereby
src/octet-ring.c (property C19).

Elements are `Nat` (any unsigned TYPE; the model never does arithmetic on
them).  `data[i]` outside the array is the outcome `none` (out of bounds).
-/
import Ufw.Common

namespace Ufw.Model.Ring

structure Ring where
  data : List Nat
  head : Nat
  tail : Nat
  cap  : Nat           -- datasize
  ovr  : Bool          -- override_if_full
  deriving Repr, DecidableEq

def init (size : Nat) : Ring :=
  { data := List.replicate size 0, head := 0, tail := size, cap := size, ovr := false }

def advance_head (c : Ring) : Ring := { c with head := (c.head + 1) % c.cap }

def advance_tail (c : Ring) : Ring :=
  let t := (c.tail + 1) % c.cap
  if t = c.head then { c with tail := c.cap } else { c with tail := t }

def empty (c : Ring) : Bool := c.tail == c.cap
def full (c : Ring) : Bool := c.head == c.tail

def size (c : Ring) : Nat :=
  if empty c then 0
  else if c.tail < c.head then c.head - c.tail
  else (c.cap - c.tail) + c.head

/-- `none` = the C code would index outside `data` -/
def get (c : Ring) : Option (Nat × Ring) :=
  if empty c then some (0, c)
  else match c.data[c.tail]? with
    | none => none
    | some x => some (x, advance_tail c)

/-- the part of `put` after the fullness test: claim the slot at `head` -/
def push (c : Ring) (item : Nat) : Option Ring :=
  let c := if empty c then { c with tail := c.head } else c
  if c.head < c.data.length then
    some (advance_head { c with data := c.data.set c.head item })
  else none

def put (c : Ring) (item : Nat) : Option Ring :=
  if full c then
    if c.ovr then push (advance_tail c) item else some c
  else push c item

def clear (c : Ring) : Ring := { c with tail := c.cap }
def override_if_full (c : Ring) (s : Bool) : Ring := { c with ovr := s }

/-! ### iterators -/

inductive Mode | oldToNew | newToOld
  deriving Repr, DecidableEq

structure Iter where
  steps : Nat
  index : Nat
  size  : Nat
  mode  : Mode
  deriving Repr, DecidableEq

def iter (c : Ring) (mode : Mode) : Iter :=
  { size := c.cap, mode := mode, steps := size c,
    index := match mode with
      | .oldToNew => c.tail
      | .newToOld => if c.head = 0 then c.cap - 1 else c.head - 1 }

def rb_iter_done (it : Iter) : Bool := it.steps == 0

def rb_iter_advance (it : Iter) : Iter :=
  { it with
    index := match it.mode with
      | .oldToNew => (it.index + 1) % it.size
      | .newToOld => if it.index = 0 then it.size - 1 else it.index - 1
    steps := it.steps - 1 }

def inspect (c : Ring) (it : Iter) : Option Nat := c.data[it.index]?

/-- `for (iter(&it, c, mode); !rb_iter_done(&it); rb_iter_advance(&it)) inspect(c, &it)`;
    the recursion is on `steps`, exactly the loop variant of the C loop. -/
def collectFrom (c : Ring) (it : Iter) : Nat → Option (List Nat)
  | 0 => some []
  | n + 1 =>
    match inspect c it with
    | none => none
    | some x =>
      match collectFrom c (rb_iter_advance it) n with
      | none => none
      | some xs => some (x :: xs)

def iterate (c : Ring) (mode : Mode) : Option (List Nat) :=
  let it := iter c mode
  collectFrom c it it.steps

/-! ### operations as data -/

inductive Op
  | put (x : Nat) | get | clear | override (s : Bool)
  deriving Repr, DecidableEq

/-- observable result: value returned by get (none for the others); `oob` flag -/
inductive Out
  | unit | val (x : Nat) | oob
  deriving Repr, DecidableEq

def step (c : Ring) : Op → Ring × Out
  | .put x => match put c x with
    | some c' => (c', .unit)
    | none => (c, .oob)
  | .get => match get c with
    | some (x, c') => (c', .val x)
    | none => (c, .oob)
  | .clear => (clear c, .unit)
  | .override s => (override_if_full c s, .unit)

def run (c : Ring) : List Op → Ring × List Out
  | [] => (c, [])
  | op :: ops =>
    let (c', o) := step c op
    let (c'', os) := run c' ops
    (c'', o :: os)

end Ufw.Model.Ring
