/-
Model of src/byte-buffer.c (property C18).

A `ByteBuffer` is the C struct: `mem` is the memory object `data` points to
(`null = true` stands for `data == NULL`), `size/used/offset` are the three
fields.  Every `memcpy/memmove/memset` is modelled by `readAt`/`writeAt`, which
fail (`none` → outcome `oob`) when the range is not inside the object.

Index arithmetic is on `Nat`.  The C code computes `used - offset` and
`used + size` in `size_t`; under the invariant `offset ≤ used ≤ size` (which the
set-up functions enforce and every operation preserves – theorem `inv_run`)
and for operand lengths below 2^63 neither expression wraps, so `Nat` and
`size_t` agree on the whole domain the property speaks about.
-/
import Ufw.Common

namespace Ufw.Model.ByteBuffer
open Ufw

structure ByteBuffer where
  null   : Bool := false
  mem    : List Octet
  size   : Nat
  used   : Nat
  offset : Nat
  deriving Repr, DecidableEq

/-- return code of an operation -/
inductive Rc
  | ok (n : Nat)        -- 0, or the count for consume_at_most
  | err (e : Err)
  | oob                 -- the C code would access memory outside `mem`
  deriving Repr, DecidableEq

/-- `memcpy(mem + pos, src, |src|)` -/
def writeAt (mem : List Octet) (pos : Nat) (src : List Octet) : Option (List Octet) :=
  if pos + src.length ≤ mem.length then
    some (mem.take pos ++ (src ++ mem.drop (pos + src.length)))
  else none

/-- `memcpy(dst, mem + pos, n)` -/
def readAt (mem : List Octet) (pos n : Nat) : Option (List Octet) :=
  if pos + n ≤ mem.length then some ((mem.drop pos).take n) else none

def byte_buffer_null : ByteBuffer :=
  { null := true, mem := [], size := 0, used := 0, offset := 0 }

/-- `data = none` is a NULL pointer; otherwise the object handed in. -/
def byte_buffer_set (b : ByteBuffer) (data : Option (List Octet)) (size used offset : Nat) :
    Rc × ByteBuffer :=
  match data with
  | none => (.err .einval, b)
  | some m =>
    if size = 0 ∨ used > size ∨ offset > used then (.err .einval, b)
    else (.ok 0, { null := false, mem := m, size := size, used := used, offset := offset })

def byte_buffer_use (b : ByteBuffer) (data : Option (List Octet)) (size : Nat) :=
  byte_buffer_set b data size size 0

def byte_buffer_space (b : ByteBuffer) (data : Option (List Octet)) (size : Nat) :=
  byte_buffer_set b data size 0 0

def byte_buffer_avail (b : ByteBuffer) : Nat := b.size - b.used
def byte_buffer_rest (b : ByteBuffer) : Nat := b.used - b.offset

def byte_buffer_add (b : ByteBuffer) (data : List Octet) : Rc × ByteBuffer :=
  if b.size < b.used + data.length then (.err .enomem, b)
  else match writeAt b.mem b.used data with
    | none => (.oob, b)
    | some m => (.ok 0, { b with mem := m, used := b.used + data.length })

def byte_buffer_consume (b : ByteBuffer) (n : Nat) : Rc × ByteBuffer × List Octet :=
  if n > b.used - b.offset then (.err .enodata, b, [])
  else match readAt b.mem b.offset n with
    | none => (.oob, b, [])
    | some out => (.ok 0, { b with offset := b.offset + n }, out)

def byte_buffer_consume_at_most (b : ByteBuffer) (n : Nat) : Rc × ByteBuffer × List Octet :=
  let rest := b.used - b.offset
  if rest = 0 then (.err .enodata, b, [])
  else
    let k := if n > rest then rest else n
    match readAt b.mem b.offset k with
    | none => (.oob, b, [])
    | some out => (.ok k, { b with offset := b.offset + k }, out)

def byte_buffer_rewind (b : ByteBuffer) : Rc × ByteBuffer :=
  if b.null then (.err .einval, b)
  else if b.offset = 0 then (.ok 0, b)
  else
    let rest := b.used - b.offset
    match readAt b.mem b.offset rest with
    | none => (.oob, b)
    | some unread =>
      match writeAt b.mem 0 unread with
      | none => (.oob, b)
      | some m => (.ok 0, { b with mem := m, used := rest, offset := 0 })

def byte_buffer_clear (b : ByteBuffer) : Rc × ByteBuffer :=
  match writeAt b.mem 0 (List.replicate b.size 0#8) with
  | none => (.oob, b)
  | some m => (.ok 0, { b with mem := m, used := 0, offset := 0 })

def byte_buffer_reset (b : ByteBuffer) : ByteBuffer := { b with used := 0, offset := 0 }
def byte_buffer_repeat (b : ByteBuffer) : ByteBuffer := { b with offset := 0 }

/-! ### operations as data, for histories -/

inductive Op
  | add (d : List Octet)
  | consume (n : Nat)
  | atMost (n : Nat)
  | rewind | clear | reset | repeat_
  deriving Repr, DecidableEq

/-- what the caller observes of one operation: return code and delivered octets -/
structure Out where
  rc  : Rc
  out : List Octet := []
  deriving Repr, DecidableEq

def step (b : ByteBuffer) : Op → ByteBuffer × Out
  | .add d => let (rc, b') := byte_buffer_add b d; (b', ⟨rc, []⟩)
  | .consume n => let (rc, b', o) := byte_buffer_consume b n; (b', ⟨rc, o⟩)
  | .atMost n => let (rc, b', o) := byte_buffer_consume_at_most b n; (b', ⟨rc, o⟩)
  | .rewind => let (rc, b') := byte_buffer_rewind b; (b', ⟨rc, []⟩)
  | .clear => let (rc, b') := byte_buffer_clear b; (b', ⟨rc, []⟩)
  | .reset => (byte_buffer_reset b, ⟨.ok 0, []⟩)
  | .repeat_ => (byte_buffer_repeat b, ⟨.ok 0, []⟩)

def run (b : ByteBuffer) : List Op → ByteBuffer × List Out
  | [] => (b, [])
  | op :: ops =>
    let (b', o) := step b op
    let (b'', os) := run b' ops
    (b'', o :: os)

end Ufw.Model.ByteBuffer
