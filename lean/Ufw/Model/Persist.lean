/-
Model of src/persistent-storage.c (properties C10, C11).

The medium is a list of octets behind the read/write callbacks.  Every callback invocation is
logged (write?, address, length) and consumes one entry of a fault script: `none` = the
transfer behaves, `some k` = only the first k octets are transferred (k = 0: the call fails;
a write torn after k octets).  An access that is not inside the medium transfers nothing.
`faulted` records whether any transfer so far was short.

The checksum function is a parameter `f : List Octet → Nat → Nat` (data, previous value);
its result is truncated to the checksum width where the C code stores it in a uint16_t /
uint32_t.  The checksum is kept on the medium in host byte order (`hostBig`).
Addresses are `Nat`: the C code computes them in uint32_t; the model's domain is
placement + sizes < 2^32 (stated as a hypothesis where it matters).
-/
import Ufw.Common
import Ufw.Spec.Endian

namespace Ufw.Model.Persist
open Ufw

inductive Access | success | invalidData | ioError | outOfRange
  deriving Repr, DecidableEq

structure Medium where
  cells   : List Octet
  log     : List (Bool × Nat × Nat) := []
  faults  : List (Option Nat) := []
  faulted : Bool := false
  deriving Repr, DecidableEq

/-- `block.read(dst, address, n)`: number of octets transferred, the octets, the medium afterwards -/
def Medium.read (m : Medium) (addr n : Nat) : Nat × List Octet × Medium :=
  let m1 := { m with log := m.log ++ [(false, addr, n)], faults := m.faults.tail }
  let full : List Octet := if addr + n ≤ m.cells.length then (m.cells.drop addr).take n else []
  match m.faults.head? with
  | some (some k) =>
    let d := full.take k
    (d.length, d, { m1 with faulted := m.faulted || decide (d.length ≠ n) })
  | _ => (full.length, full, { m1 with faulted := m.faulted || decide (full.length ≠ n) })

/-- `block.write(address, src, n)` -/
def Medium.write (m : Medium) (addr : Nat) (d : List Octet) : Nat × Medium :=
  let m1 := { m with log := m.log ++ [(true, addr, d.length)], faults := m.faults.tail }
  let inRange := addr + d.length ≤ m.cells.length
  let put (w : List Octet) : List Octet := m.cells.take addr ++ (w ++ m.cells.drop (addr + w.length))
  match m.faults.head? with
  | some (some k) =>
    let w := if inRange then d.take k else []
    (w.length, { m1 with cells := if inRange then put w else m.cells,
                         faulted := m.faulted || decide (w.length ≠ d.length) })
  | _ =>
    if inRange then (d.length, { m1 with cells := put d })
    else (0, { m1 with faulted := m.faulted || decide (d.length ≠ 0) })

structure Store where
  sumAddr  : Nat           -- checksum.address
  width    : Nat           -- checksum.size: 2 or 4
  init     : Nat           -- checksum.initial
  dataSize : Nat           -- data.size
  buf      : Option Nat    -- auxiliary buffer size, none = no buffer
  hostBig  : Bool := false
  deriving Repr, DecidableEq

def Store.dataAddr (s : Store) : Nat := s.sumAddr + s.width

/-- chunk size used by the checksum and reset loops -/
def Store.bsize (s : Store) : Nat :=
  match s.buf with
  | some n => if n = 0 then 1 else n
  | none => 1

def trunc (s : Store) (v : Nat) : Nat := v % 2 ^ (8 * s.width)

/-- loop of `persistent_calculate_checksum`; `fuel` ≥ number of rounds -/
def calcLoop (f : List Octet → Nat → Nat) (s : Store) :
    (fuel : Nat) → Medium → (rest addr acc : Nat) → Access × Nat × Medium
  | _, m, 0, _, acc => (.success, acc, m)
  | 0, m, _ + 1, _, acc => (.ioError, acc, m)          -- not reached with fuel ≥ rest
  | fuel + 1, m, rest + 1, addr, acc =>
    let toget := if rest + 1 > s.bsize then s.bsize else rest + 1
    let (n, d, m') := m.read addr toget
    if n ≠ toget then (.ioError, acc, m')
    else calcLoop f s fuel m' (rest + 1 - toget) (addr + toget) (trunc s (f d acc))

def persistent_calculate_checksum (f : List Octet → Nat → Nat) (s : Store) (m : Medium) : Access × Nat × Medium :=
  calcLoop f s s.dataSize m s.dataSize s.dataAddr (trunc s s.init)

def sumImage (s : Store) (v : Nat) : List Octet := Ufw.Spec.Endian.store s.hostBig s.width v

def persistent_store_checksum (s : Store) (m : Medium) (sum : Nat) : Access × Medium :=
  let (n, m') := m.write s.sumAddr (sumImage s sum)
  ((if n ≠ s.width then .ioError else .success), m')

def persistent_fetch_checksum (s : Store) (m : Medium) : Access × Nat × Medium :=
  let (n, d, m') := m.read s.sumAddr s.width
  ((if n ≠ s.width then .ioError else .success), Ufw.Spec.Endian.loadU s.hostBig d, m')

def persistent_validate (f : List Octet → Nat → Nat) (s : Store) (m : Medium) : Access × Medium :=
  match persistent_fetch_checksum s m with
  | (.success, stored, m1) =>
    (match persistent_calculate_checksum f s m1 with
     | (.success, computed, m2) => ((if stored = computed then .success else .invalidData), m2)
     | (a, _, m2) => (a, m2))
  | (a, _, m1) => (a, m1)

def persistent_fetch_part (s : Store) (m : Medium) (offset n : Nat) : Access × List Octet × Medium :=
  if n > s.dataSize ∨ offset > s.dataSize - n then (.outOfRange, [], m)
  else
    let (k, d, m') := m.read (s.dataAddr + offset) n
    ((if k = n then .success else .ioError), d, m')

def persistent_fetch (s : Store) (m : Medium) := persistent_fetch_part s m 0 s.dataSize

/-- `persistent_store_part(store, src, offset, n)` with src[0..n) = `src` -/
def persistent_store_part (f : List Octet → Nat → Nat) (s : Store) (m : Medium) (src : List Octet) (offset : Nat) :
    Access × Medium :=
  let n := src.length
  if n > s.dataSize ∨ offset > s.dataSize - n then (.outOfRange, m)
  else
    let (k, m1) := m.write (s.dataAddr + offset) src
    if k ≠ n then (.ioError, m1)
    else if offset = 0 ∧ n = s.dataSize then
      persistent_store_checksum s m1 (trunc s (f src (trunc s s.init)))
    else match persistent_calculate_checksum f s m1 with
      | (.success, sum, m2) => persistent_store_checksum s m2 sum
      | (a, _, m2) => (a, m2)

def persistent_store (f : List Octet → Nat → Nat) (s : Store) (m : Medium) (src : List Octet) :=
  persistent_store_part f s m src 0

/-- `persistent_writen` -/
def writenLoop (s : Store) (item : Octet) : (fuel : Nat) → Medium → (rest addr : Nat) → Access × Medium
  | _, m, 0, _ => (.success, m)
  | 0, m, _ + 1, _ => (.ioError, m)
  | fuel + 1, m, rest + 1, addr =>
    let toput := if rest + 1 > s.bsize then s.bsize else rest + 1
    let (n, m') := m.write addr (List.replicate toput item)
    if n ≠ toput then (.ioError, m')
    else writenLoop s item fuel m' (rest + 1 - toput) (addr + toput)

def persistent_reset (s : Store) (m : Medium) (item : Octet) : Access × Medium :=
  match writenLoop s item s.width m s.width s.sumAddr with
  | (.success, m1) => writenLoop s item s.dataSize m1 s.dataSize s.dataAddr
  | r => r

/-! ### the checksum functions used by the harness -/

def sum16 (d : List Octet) (init : Nat) : Nat := d.foldl (fun a o => (a + o.toNat) % 65536) init   -- trivialsum
def sum32 (d : List Octet) (init : Nat) : Nat := d.foldl (fun a o => (a * 31 + o.toNat) % 4294967296) init

end Ufw.Model.Persist
