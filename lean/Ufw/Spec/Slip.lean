/-
Property-level description for C12, written from RFC 1055: a frame is the payload
with END (0xC0) replaced by ESC ESC_END (0xDB 0xDC) and ESC (0xDB) by ESC ESC_ESC
(0xDB 0xDD), followed by END; optionally preceded by END.  A receiver cuts the
stream at END octets and undoes the replacement.  No reference to the C code.
-/
import Ufw.Common

namespace Ufw.Spec.Slip
open Ufw

def END : Octet := 0xC0#8
def ESC : Octet := 0xDB#8
def ESC_END : Octet := 0xDC#8
def ESC_ESC : Octet := 0xDD#8

def stuff : List Octet → List Octet
  | [] => []
  | o :: os =>
    if o = END then ESC :: ESC_END :: stuff os
    else if o = ESC then ESC :: ESC_ESC :: stuff os
    else o :: stuff os

def frame (startDelimiter : Bool) (payload : List Octet) : List Octet :=
  (if startDelimiter then [END] else []) ++ stuff payload ++ [END]

/-- undo the replacement; `none` for an invalid escape -/
def unstuff : List Octet → Option (List Octet)
  | [] => some []
  | [o] => if o = ESC then none else some [o]
  | a :: b :: rest =>
    if a = ESC then
      if b = ESC_END then (unstuff rest).map (END :: ·)
      else if b = ESC_ESC then (unstuff rest).map (ESC :: ·)
      else none
    else (unstuff (b :: rest)).map (a :: ·)

end Ufw.Spec.Slip
