/-
Property-level description for C15, written from the statement: a value of
`n` octets is stored most significant octet first (big endian) or least
significant octet first (little endian); loading reads it back, sign-extended
for signed kinds; floats are their bit patterns.  Natural-number arithmetic
only - no reference to the C code or to the generated definitions.
-/
import Ufw.Common

namespace Ufw.Spec.Endian
open Ufw

/-- the `n` octets of `v`, least significant first -/
def octetsLE : (n : Nat) → (v : Nat) → List Octet
  | 0, _ => []
  | n + 1, v => BitVec.ofNat 8 (v % 256) :: octetsLE n (v / 256)

/-- what a store of the low `n` octets of `v` writes, in memory order -/
def store (big : Bool) (n v : Nat) : List Octet :=
  if big then (octetsLE n v).reverse else octetsLE n v

def valueLE : List Octet → Nat
  | [] => 0
  | o :: os => o.toNat + 256 * valueLE os

/-- unsigned value of octets in memory order -/
def loadU (big : Bool) (octets : List Octet) : Nat :=
  valueLE (if big then octets.reverse else octets)

/-- signed value (two's complement on `8 * length` bits) -/
def loadS (big : Bool) (octets : List Octet) : Int :=
  let u := loadU big octets
  let bits := 8 * octets.length
  if u < 2 ^ (bits - 1) then (u : Int) else (u : Int) - 2 ^ bits

/-- the pattern a `w`-bit return register holds for a signed value -/
def patternOfInt (w : Nat) (x : Int) : Nat := (x % (2 ^ w : Int)).toNat

/-- byte swap of the low `n` octets (upper octets cleared) -/
def swap (n v : Nat) : Nat := valueLE (octetsLE n v).reverse

def inRangeU (bits v : Nat) : Bool := v < 2 ^ bits
def inRangeS (bits : Nat) (x : Int) : Bool := -(2 : Int) ^ (bits - 1) ≤ x && x < 2 ^ (bits - 1)

end Ufw.Spec.Endian
