/-
Property-level description of the register protocol (C06-C09), written from
doc/regp.txt: the octets of a frame, the reading of an arbitrary octet string as a
frame, the answer a request is owed.  Uses the CRC-16/ARC, big-endian, SLIP and
LEB128 specs; no reference to the C code or to Ufw.Model.Regp.

Readings adopted where the document leaves room (see DESIGN.md, C06-C08):
* the header checksum covers the six header words and, when present, the payload
  checksum word (the document only says both checksums are part of the header);
* the block size of a response is the size of its payload (section 2), 4 in octet
  semantics for the 32-bit payload of an error response (section 3.1);
* payload atoms travel as the octet image the caller hands over.
-/
import Ufw.Common
import Ufw.Spec.Crc
import Ufw.Spec.Endian
import Ufw.Spec.Slip
import Ufw.Spec.Leb128

namespace Ufw.Spec.Regp
open Ufw

def be (n v : Nat) : List Octet := Ufw.Spec.Endian.store true n v
def unbe (l : List Octet) : Nat := Ufw.Spec.Endian.loadU true l
def crc16 (l : List Octet) : Nat := (Ufw.Spec.Crc.crc 0#16 l).toNat

/-- message types (section 2) -/
inductive MType | readRequest | readResponse | writeRequest | writeResponse | metaMessage
  deriving Repr, DecidableEq

def MType.code : MType → Nat
  | .readRequest => 0 | .readResponse => 1 | .writeRequest => 2 | .writeResponse => 3 | .metaMessage => 15

def MType.ofCode (n : Nat) : Option MType :=
  if n = 0 then some .readRequest else if n = 1 then some .readResponse else if n = 2 then some .writeRequest
  else if n = 3 then some .writeResponse else if n = 15 then some .metaMessage else none

def MType.isRequest : MType → Bool
  | .readRequest | .writeRequest => true
  | _ => false

structure Frame where
  type    : MType
  ws16    : Bool            -- WORD-SIZE-16
  hdcrc   : Bool            -- WITH-HEADER-CRC
  plcrc   : Bool            -- WITH-PAYLOAD-CRC
  code    : Nat             -- the meta field: 0 in requests, response code, meta code
  seq     : Nat
  addr    : Nat
  size    : Nat             -- block size field
  payload : List Octet
  deriving Repr, DecidableEq

def Frame.options (f : Frame) : Nat :=
  (if f.ws16 then 1 else 0) + (if f.hdcrc then 2 else 0) + (if f.plcrc then 4 else 0)

/-- first header word: meta | options | type | version(0) -/
def Frame.word0 (f : Frame) : Nat := f.code * 4096 + f.options * 256 + f.type.code * 16

/-- the octets of a frame before channel framing (section 2) -/
def Frame.octets (f : Frame) : List Octet :=
  let head := be 2 f.word0 ++ be 2 f.seq ++ be 4 f.addr ++ be 4 f.size
  let plc := if f.plcrc then be 2 (crc16 f.payload) else []
  let hdc := if f.hdcrc then be 2 (crc16 (head ++ plc)) else []
  head ++ hdc ++ plc ++ f.payload

/-- option bits a transport mandates (section 5) -/
def Frame.onTransport (serial : Bool) (f : Frame) : Frame :=
  { f with hdcrc := serial, plcrc := serial && !f.payload.isEmpty }

/-- LEB128 digits of a length (protobuf varint) -/
def leb128 (n : Nat) : List Octet :=
  if h : n < 128 then [BitVec.ofNat 8 n] else BitVec.ofNat 8 (n % 128 + 128) :: leb128 (n / 128)
termination_by n
decreasing_by omega

/-- a frame on the wire: SLIP without start delimiter on serial links, length prefix on TCP -/
def wire (serial : Bool) (f : Frame) : List Octet :=
  let o := (f.onTransport serial).octets
  if serial then Ufw.Spec.Slip.frame false o else leb128 o.length ++ o

/-! ### reading an octet string -/

inductive Verdict
  | accept (f : Frame)
  | badHeaderEncoding
  | badHeaderChecksum
  | badPayloadSize (f : Frame)
  | badPayloadChecksum (f : Frame)
  deriving Repr, DecidableEq

def bit (v i : Nat) : Bool := v / 2 ^ i % 2 = 1

/-- the meta field a type admits -/
def codeValid (t : MType) (code : Nat) : Bool :=
  match t with
  | .readRequest | .writeRequest => code = 0
  | .readResponse | .writeResponse => code ≤ 11
  | .metaMessage => code = 1 ∨ code = 2

/-- payload size rule: block size = number of atoms of the payload; read requests and meta
    messages carry none -/
def sizeValid (f : Frame) : Bool :=
  if f.ws16 ∧ f.payload.length % 2 ≠ 0 then false
  else
    let atoms := if f.ws16 then f.payload.length / 2 else f.payload.length
    match f.type with
    | .readRequest | .metaMessage => atoms = 0
    | _ => f.size = atoms

/-- reading of a string of at least twelve octets whose first header word is `w0` -/
def classifyWord (raw : List Octet) (w0 : Nat) : Verdict :=
  if w0 % 16 ≠ 0 then .badHeaderEncoding else
  match MType.ofCode (w0 / 16 % 16) with
  | none => .badHeaderEncoding
  | some t =>
    if bit w0 11 then .badHeaderEncoding else
    let code := w0 / 4096 % 16
    if !codeValid t code then .badHeaderEncoding else
    let hd := bit w0 9
    let pl := bit w0 10
    let hlen := 12 + (if hd then 2 else 0) + (if pl then 2 else 0)
    if raw.length < hlen then .badHeaderEncoding else
    let plcWord := if pl then (raw.drop (hlen - 2)).take 2 else []
    if hd ∧ unbe ((raw.drop 12).take 2) ≠ crc16 (raw.take 12 ++ plcWord) then .badHeaderChecksum else
    let f : Frame := { type := t, ws16 := bit w0 8, hdcrc := hd, plcrc := pl, code := code,
                       seq := unbe ((raw.drop 2).take 2), addr := unbe ((raw.drop 4).take 4),
                       size := unbe ((raw.drop 8).take 4), payload := raw.drop hlen }
    if !sizeValid f then .badPayloadSize f
    else if pl ∧ !f.payload.isEmpty ∧ unbe plcWord ≠ crc16 f.payload then .badPayloadChecksum f
    else .accept f

def classify (raw : List Octet) : Verdict :=
  if raw.length < 12 then .badHeaderEncoding else classifyWord raw (unbe (raw.take 2))

/-! ### the answer a request is owed (sections 2.1, 3.1) -/

def responseType : MType → MType
  | .readRequest => .readResponse
  | .writeRequest => .writeResponse
  | _ => .metaMessage

/-- response codes that carry a 32-bit value -/
def carriesValue (code : Nat) : Bool := code = 4 ∨ code = 5 ∨ (7 ≤ code ∧ code ≤ 10)

/-- error response (code ≠ 0) to `req`, octet semantics; `value` = reported address or buffer size -/
def errorResponse (req : Frame) (code value : Nat) : Frame :=
  let pl := if carriesValue code then be 4 value else []
  { type := responseType req.type, ws16 := false, hdcrc := false, plcrc := false, code := code,
    seq := req.seq, addr := req.addr, size := pl.length, payload := pl }

/-- acknowledgement: the delivered atoms for a read, nothing for a write -/
def ackResponse (req : Frame) (mem16 : Bool) (data : List Octet) : Frame :=
  { type := responseType req.type, ws16 := mem16, hdcrc := false, plcrc := false, code := 0,
    seq := req.seq, addr := req.addr,
    size := if mem16 then data.length / 2 else data.length, payload := data }

def metaFrame (code : Nat) : Frame :=
  { type := .metaMessage, ws16 := false, hdcrc := false, plcrc := false, code := code,
    seq := 0, addr := 0, size := 0, payload := [] }

def request (write ws16 : Bool) (seq addr size : Nat) (payload : List Octet) : Frame :=
  { type := if write then .writeRequest else .readRequest, ws16 := ws16, hdcrc := false, plcrc := false,
    code := 0, seq := seq, addr := addr, size := size, payload := payload }

end Ufw.Spec.Regp
