/-
Property-level description of a byte buffer (C18), written from the statement:
a bounded FIFO of octets.  `filled` are the octets added since the last
reset/rewind, `off` of them have been consumed already, `cap` is the capacity.
No memory, no indices into memory.
-/
import Ufw.Common
import Ufw.Model.ByteBuffer   -- only for the shared `Op`, `Out`, `Rc` vocabulary

namespace Ufw.Spec.ByteBuffer
open Ufw
open Ufw.Model.ByteBuffer (Op Out Rc)

structure Fifo where
  cap    : Nat
  filled : List Octet
  off    : Nat
  deriving Repr, DecidableEq

def Fifo.unread (f : Fifo) : List Octet := f.filled.drop f.off

def step (f : Fifo) : Op → Fifo × Out
  | .add d =>
    if f.filled.length + d.length ≤ f.cap then ({ f with filled := f.filled ++ d }, ⟨.ok 0, []⟩)
    else (f, ⟨.err .enomem, []⟩)
  | .consume n =>
    if n ≤ f.unread.length then ({ f with off := f.off + n }, ⟨.ok 0, f.unread.take n⟩)
    else (f, ⟨.err .enodata, []⟩)
  | .atMost n =>
    if f.unread.length = 0 then (f, ⟨.err .enodata, []⟩)
    else
      let k := min n f.unread.length
      ({ f with off := f.off + k }, ⟨.ok k, f.unread.take k⟩)
  | .rewind => ({ f with filled := f.unread, off := 0 }, ⟨.ok 0, []⟩)
  | .clear => ({ f with filled := [], off := 0 }, ⟨.ok 0, []⟩)
  | .reset => ({ f with filled := [], off := 0 }, ⟨.ok 0, []⟩)
  | .repeat_ => ({ f with off := 0 }, ⟨.ok 0, []⟩)

def run (f : Fifo) : List Op → Fifo × List Out
  | [] => (f, [])
  | op :: ops =>
    let (f', o) := step f op
    let (f'', os) := run f' ops
    (f'', o :: os)

end Ufw.Spec.ByteBuffer
