/-
Property-level description of the ring buffer (C19): a queue of at most `cap`
elements, optionally evicting the oldest element when full.
-/
import Ufw.Model.Ring    -- shared vocabulary `Op`, `Out` only

namespace Ufw.Spec.Queue
open Ufw.Model.Ring (Op Out)

structure Q where
  cap   : Nat
  items : List Nat      -- oldest first
  ovr   : Bool
  deriving Repr, DecidableEq

def step (q : Q) : Op → Q × Out
  | .put x =>
    if q.items.length < q.cap then ({ q with items := q.items ++ [x] }, .unit)
    else if q.ovr then ({ q with items := q.items.tail ++ [x] }, .unit)
    else (q, .unit)
  | .get =>
    match q.items with
    | [] => (q, .val 0)
    | x :: rest => ({ q with items := rest }, .val x)
  | .clear => ({ q with items := [] }, .unit)
  | .override s => ({ q with ovr := s }, .unit)

def run (q : Q) : List Op → Q × List Out
  | [] => (q, [])
  | op :: ops =>
    let (q', o) := step q op
    let (q'', os) := run q' ops
    (q'', o :: os)

/-! ### representation invariant and abstraction function of the C layout -/
open Ufw.Model.Ring (Ring)

/-- `head` is a valid slot, `tail` is a valid slot or `cap` (= empty) -/
def Wf (c : Ring) : Prop := 0 < c.cap ∧ c.data.length = c.cap ∧ c.head < c.cap ∧ c.tail ≤ c.cap

/-- the queued elements, oldest first: the slots from `tail` up to (excluding) `head`, cyclically;
    `head = tail` means full, `tail = cap` means empty -/
def absItems (c : Ring) : List Nat :=
  if c.tail = c.cap then [] else if c.tail < c.head then (c.data.take c.head).drop c.tail
  else c.data.drop c.tail ++ c.data.take c.head

def abs (c : Ring) : Q := ⟨c.cap, absItems c, c.ovr⟩

end Ufw.Spec.Queue
