/-
Property-level description of the textual form of s-expressions (C20), written from the
statement: trees are built from symbols, unsigned integers (decimal, or `#x` hexadecimal in
either letter case) and nested proper lists (including empty ones), with arbitrary white space
between tokens.

`Expr t r` says "the octet string r is a rendering of the tree t".  It is a relation, not a
function, because one tree has many renderings: any amount of white space in front of every
list item and in front of the closing parenthesis, none needed next to a parenthesis, any number
of leading zeros, either case for every single hexadecimal digit.  The character classes are
written out here; that they coincide with what the reader's model uses is a lemma
(Lemmas/SxRender), not a definition.
-/
import Ufw.Common
import Ufw.Model.Sx      -- only for the shared `Tree`

namespace Ufw.Spec.Sx
open Ufw
open Ufw.Model.Sx (Tree)

/-- blank, `\t \n \v \f \r` -/
def isWs (c : Octet) : Bool := c == 32#8 || c == 9#8 || c == 10#8 || c == 11#8 || c == 12#8 || c == 13#8
def isDec (c : Octet) : Bool := 48 ≤ c.toNat && c.toNat ≤ 57
def isLowerHex (c : Octet) : Bool := 97 ≤ c.toNat && c.toNat ≤ 102
def isUpperHex (c : Octet) : Bool := 65 ≤ c.toNat && c.toNat ≤ 70
def isHex (c : Octet) : Bool := isDec c || isLowerHex c || isUpperHex c
def isLetter (c : Octet) : Bool := (97 ≤ c.toNat && c.toNat ≤ 122) || (65 ≤ c.toNat && c.toNat ≤ 90)

/-- `+ % | / _ : ; . ! ? $ & = * < > ~` -/
def punct : List Octet :=
  [43#8, 37#8, 124#8, 47#8, 95#8, 58#8, 59#8, 46#8, 33#8, 63#8, 36#8, 38#8, 61#8, 42#8, 60#8, 62#8, 126#8]

/-- first character of a symbol: a letter or one of the punctuation characters -/
def symInit (c : Octet) : Bool := isLetter c || punct.contains c
/-- further characters: additionally digits and `-` -/
def symChar (c : Octet) : Bool := symInit c || isDec c || c == 45#8

/-- value of one digit character -/
def digitVal (c : Octet) : Nat :=
  if isDec c then c.toNat - 48 else if isLowerHex c then c.toNat - 97 + 10 else if isUpperHex c then c.toNat - 65 + 10 else 0

/-- positional value of a digit string, most significant digit first -/
def value (base : Nat) : List Octet → Nat := List.foldl (fun acc d => acc * base + digitVal d) 0

def AllWs (w : List Octet) : Prop := ∀ c ∈ w, isWs c = true

/-- `(`, `)` or white space: what ends a symbol or a number -/
def isDelim (c : Octet) : Bool := c == 40#8 || c == 41#8 || isWs c

/-- nothing, or something that starts with a delimiter: what may stand behind a symbol or number -/
def AtomEnd : List Octet → Prop
  | [] => True
  | c :: _ => isDelim c = true

/-- renderings of the leaves -/
inductive Atom : Tree → List Octet → Prop
  | sym (c : Octet) (r : List Octet) (h0 : symInit c = true) (h : ∀ x ∈ r, symChar x = true) : Atom (.sym (c :: r)) (c :: r)
  | dec (ds : List Octet) (hne : ds ≠ []) (h : ∀ d ∈ ds, isDec d = true) (hv : value 10 ds < 2 ^ 64) :
      Atom (.int (value 10 ds)) ds
  | hex (ds : List Octet) (hne : ds ≠ []) (h : ∀ d ∈ ds, isHex d = true) (hv : value 16 ds < 2 ^ 64) :
      Atom (.int (value 16 ds)) (35#8 :: 120#8 :: ds)

/-- `Items t r`: r is what follows an opening parenthesis up to and including the matching closing
    one, for the proper list t -/
inductive Items : Tree → List Octet → Prop
  | close (ws : List Octet) (hw : AllWs ws) : Items .nil (ws ++ [41#8])
  | atom (ws : List Octet) (a : Tree) (ra : List Octet) (d : Tree) (rd : List Octet) (hw : AllWs ws)
      (ha : Atom a ra) (hd : Items d rd) (hsep : AtomEnd rd) : Items (.cons a d) (ws ++ ra ++ rd)
  | list (ws : List Octet) (a : Tree) (ra : List Octet) (d : Tree) (rd : List Octet) (hw : AllWs ws)
      (ha : Items a ra) (hd : Items d rd) : Items (.cons a d) (ws ++ 40#8 :: ra ++ rd)

/-- renderings of a whole expression (no white space in front) -/
inductive Expr : Tree → List Octet → Prop
  | atom (t : Tree) (r : List Octet) (h : Atom t r) : Expr t r
  | list (t : Tree) (r : List Octet) (h : Items t r) : Expr t (40#8 :: r)

/-! ### a canonical rendering: every tree of the statement has at least one -/

/-- decimal digits, most significant first -/
def decDigits (n : Nat) : List Octet :=
  if n < 10 then [BitVec.ofNat 8 (48 + n)] else decDigits (n / 10) ++ [BitVec.ofNat 8 (48 + n % 10)]
decreasing_by omega

/-- `d` is a proper list -/
def IsList : Tree → Prop
  | .nil => True
  | .cons _ d => IsList d
  | _ => False

/-- the trees of the statement: symbols are non-empty words over the symbol alphabet, integers fit
    64 bits, every list is proper -/
def Proper : Tree → Prop
  | .sym s => ∃ c r, s = c :: r ∧ symInit c = true ∧ ∀ x ∈ r, symChar x = true
  | .int n => n < 2 ^ 64
  | .nil => True
  | .cons a d => Proper a ∧ Proper d ∧ IsList d

mutual
/-- one blank between items, none next to a parenthesis, decimal integers -/
def render : Tree → List Octet
  | .sym s => s
  | .int n => decDigits n
  | .nil => [40#8, 41#8]
  | .cons a d => 40#8 :: (render a ++ renderTail d)
/-- the items behind the first one, and the closing parenthesis -/
def renderTail : Tree → List Octet
  | .cons a d => 32#8 :: (render a ++ renderTail d)
  | _ => [41#8]
end

end Ufw.Spec.Sx
