/-
Property-level description for C16: CRC-16/ARC as a bitwise, LSB-first
(reflected) shift register with polynomial 0x8005 (reflected: 0xA001), no final
xor.  Written from the CRC catalogue definition, no reference to the C code.
-/
import Ufw.Common

namespace Ufw.Spec.Crc
open Ufw

/-- one input bit -/
def stepBit (s : BitVec 16) (b : Bool) : BitVec 16 :=
  let x := s ^^^ (if b then 1#16 else 0#16)
  (x >>> 1) ^^^ (if x.getLsbD 0 then 0xA001#16 else 0#16)

/-- one octet, least significant bit first -/
def step8 (s : BitVec 16) (d : BitVec 8) : BitVec 16 :=
  let s := stepBit s (d.getLsbD 0)
  let s := stepBit s (d.getLsbD 1)
  let s := stepBit s (d.getLsbD 2)
  let s := stepBit s (d.getLsbD 3)
  let s := stepBit s (d.getLsbD 4)
  let s := stepBit s (d.getLsbD 5)
  let s := stepBit s (d.getLsbD 6)
  stepBit s (d.getLsbD 7)

/-- the remainder after shifting a whole octet string through the register -/
def crc (init : BitVec 16) (octets : List Octet) : BitVec 16 := octets.foldl step8 init

end Ufw.Spec.Crc
