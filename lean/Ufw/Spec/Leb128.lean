/-
Property-level vocabulary for C14, written from the definition of unsigned
LEB128 (little-endian base-128): the value an octet string denotes, and what
makes an encoding canonical.  No reference to the C code.
-/
import Ufw.Common

namespace Ufw.Spec.Leb128
open Ufw

/-- value denoted by a digit string: Σ (oᵢ mod 128) · 128^i -/
def valueOf : List Octet → Nat
  | [] => 0
  | o :: os => o.toNat % 128 + 128 * valueOf os

/-- canonical (minimal) form: non-empty, every octet but the last carries the
    continuation bit, the last does not, and the last is non-zero unless the
    string is the single octet 00 -/
def Canonical (e : List Octet) : Prop :=
  ∃ (init : List Octet) (last : Octet), e = init ++ [last] ∧
    (∀ o ∈ init, o.toNat ≥ 128) ∧ last.toNat < 128 ∧ (init ≠ [] → last ≠ 0#8)

end Ufw.Spec.Leb128
