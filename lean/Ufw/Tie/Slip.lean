/-
Tie A (C12): the SLIP control octets and the worst-case formula as the current source defines
them (Ufw.Gen.Constants, regenerated on every run) are the ones of the model and of RFC 1055.
-/
import Ufw.Gen.Constants
import Ufw.Model.Slip
import Ufw.Spec.Slip
namespace Ufw.Tie.Slip
open Ufw.Gen.Constants

theorem const_model_octets :
    Ufw.Model.Slip.RAW_EOF.toNat = RAW_EOF ∧ Ufw.Model.Slip.RAW_ESC.toNat = RAW_ESC ∧
    Ufw.Model.Slip.ESC_EOF.toNat = ESC_EOF ∧ Ufw.Model.Slip.ESC_ESC.toNat = ESC_ESC := by decide

theorem const_rfc1055_octets :
    Ufw.Spec.Slip.END.toNat = RAW_EOF ∧ Ufw.Spec.Slip.ESC.toNat = RAW_ESC ∧
    Ufw.Spec.Slip.ESC_END.toNat = ESC_EOF ∧ Ufw.Spec.Slip.ESC_ESC.toNat = ESC_ESC := by decide

/-- the escape codes are not themselves control octets, and all four are distinct -/
theorem const_octets_distinct :
    RAW_EOF ≠ RAW_ESC ∧ ESC_EOF ≠ RAW_EOF ∧ ESC_EOF ≠ RAW_ESC ∧ ESC_ESC ≠ RAW_EOF ∧ ESC_ESC ≠ RAW_ESC ∧
    ESC_EOF ≠ ESC_ESC := by decide

/-- `RFC1055_WORST_CASE(n, sof)` is 2n+1 resp. 2n+2 (evaluated at n = 7), the with-SOF flag is bit 0 -/
theorem const_worst_case : RFC1055_WORST_CLASSIC_7 = 2 * 7 + 1 ∧ RFC1055_WORST_WITHSOF_7 = 2 * 7 + 2 ∧
    RFC1055_WITH_SOF = 1 ∧ RFC1055_DEFAULT = 0 := by decide

end Ufw.Tie.Slip
