/-
Prelude of the loop translator (tools/gen/cloops.py): what the generated definitions are written in.
`Res` is the outcome of running a piece of C: a value, an access outside a block, or the fuel of a loop used up.
-/
namespace Ufw.Tie.CPre

inductive Res (α : Type) where
  | val (a : α)
  | oob
  | nofuel
  deriving Repr, DecidableEq

def Res.bind {α β : Type} : Res α → (α → Res β) → Res β
  | .val a, k => k a
  | .oob, _ => .oob
  | .nofuel, _ => .nofuel

@[simp] theorem Res.bind_val {α β : Type} (a : α) (k : α → Res β) : Res.bind (.val a) k = k a := rfl

/-- `*(block + i)`: outside the block the run ends in `oob` -/
def load {α : Type} {w : Nat} (mem : List (BitVec w)) (i : Nat) (k : BitVec w → Res α) : Res α :=
  match mem[i]? with
  | some v => k v
  | none => .oob

theorem load_some {α : Type} {w : Nat} (mem : List (BitVec w)) (i : Nat) (k : BitVec w → Res α) (v : BitVec w)
    (h : mem[i]? = some v) : load mem i k = k v := by
  unfold load; rw [h]

theorem load_none {α : Type} {w : Nat} (mem : List (BitVec w)) (i : Nat) (k : BitVec w → Res α)
    (h : mem.length ≤ i) : load mem i k = .oob := by
  unfold load; rw [List.getElem?_eq_none h]

/-- `*(block + i) = v`: outside the block the run ends in `oob` -/
def store {α : Type} {w : Nat} (mem : List (BitVec w)) (i : Nat) (v : BitVec w) (k : List (BitVec w) → Res α) : Res α :=
  if i < mem.length then k (mem.set i v) else .oob

theorem store_in {α : Type} {w : Nat} (mem : List (BitVec w)) (i : Nat) (v : BitVec w) (k : List (BitVec w) → Res α)
    (h : i < mem.length) : store mem i v k = k (mem.set i v) := by
  unfold store; rw [if_pos h]

/-- what a callee left in the one-cell block `[x]` it was handed for `&x` -/
def cellOf {w : Nat} (blk : List (BitVec w)) (old : BitVec w) : BitVec w := blk.headD old

/-- the block after a callee that was handed its tail from `i` on gave that tail back -/
def splice {w : Nat} (blk : List (BitVec w)) (i : Nat) (tail : List (BitVec w)) : List (BitVec w) := blk.take i ++ tail

/-- conversion of an unsigned value to a wider type -/
def zx {w : Nat} (w' : Nat) (x : BitVec w) : BitVec w' := x.setWidth w'
/-- conversion of a signed value to a wider type -/
def sx {w : Nat} (w' : Nat) (x : BitVec w) : BitVec w' := x.signExtend w'
/-- conversion to a narrower type -/
def tr {w : Nat} (w' : Nat) (x : BitVec w) : BitVec w' := x.setWidth w'
/-- the `int` a comparison yields -/
def b2bv32 (p : Prop) [Decidable p] : BitVec 32 := if p then 1#32 else 0#32

/-- `p - q` for two pointers into one block (element indices) -/
def ptrdiff (w : Nat) (i j : Nat) : BitVec w := BitVec.ofInt w ((i : Int) - (j : Int))

/-- the `_Bool` a conversion to bool yields -/
def b2bv8 (p : Prop) [Decidable p] : BitVec 8 := if p then 1#8 else 0#8

/-! ### external functions -/

/-- what an octet source will do when asked the next times: deliver an octet, or answer a (negative) code and leave
    the caller's cell alone.  An exhausted source answers `-ENODATA`. -/
inductive SrcEv where
  | octet (v : BitVec 8)
  | fail (rc : BitVec 32)
  deriving Repr, DecidableEq

abbrev Src := List SrcEv

/-- `-ENODATA` (61 on the target) as an `int` -/
def NEG_ENODATA : BitVec 32 := -(61#32)

/-- `int source_get_octet(Source *source, void *data)`: value, the source afterwards, the caller's cell afterwards -/
def source_get_octet (s : Src) (cell : List (BitVec 8)) : Res (BitVec 32 × Src × List (BitVec 8)) :=
  match s with
  | [] => .val (NEG_ENODATA, [], cell)
  | .octet v :: r => .val (1#32, r, cell.set 0 v)
  | .fail rc :: r => .val (rc, r, cell)

/-- a sink that accepts `room` more octets and answers the (negative) code `full` from then on -/
structure Snk where
  got : List (BitVec 8) := []
  room : Nat
  full : BitVec 32
  deriving Repr, DecidableEq

/-- `int sink_put_octet(Sink *sink, unsigned char data)`: 1 for the octet taken -/
def sink_put_octet (s : Snk) (o : BitVec 8) : Res (BitVec 32 × Snk) :=
  match s.room with
  | 0 => .val (s.full, s)
  | n + 1 => .val (1#32, { s with got := s.got ++ [o], room := n })

/-- octets one by one until the sink refuses (what it took stays taken) -/
def putAll (s : Snk) : List (BitVec 8) → Option (BitVec 32) × Snk
  | [] => (none, s)
  | o :: os => match s.room with
    | 0 => (some s.full, s)
    | n + 1 => putAll { s with got := s.got ++ [o], room := n } os

/-- `ssize_t sink_put_chunk(Sink *sink, const void *buf, size_t n)`: all `n` octets or the sink's code;
    `-EINVAL` for an empty chunk; a chunk longer than the block behind `buf` is an access outside it -/
def sink_put_chunk (s : Snk) (blk : List (BitVec 8)) (n : BitVec 64) : Res (BitVec 64 × Snk) :=
  if n = 0#64 then .val (-(22#64), s)
  else if blk.length < n.toNat then .oob
  else match putAll s (blk.take n.toNat) with
    | (none, s') => .val (n, s')
    | (some e, s') => .val (e.signExtend 64, s')

/-! ### endpoint drivers (the callbacks behind a `Source` / `Sink`)

A driver is a script: how its next calls behave - move up to `k` octets, or answer a code (zero or negative) and
move nothing.  When the script is used up it moves whatever it is asked to.  A source driver owns the octets it will
still deliver and answers `-ENODATA` once they are gone; an octet-style call moves one octet at most. -/

inductive DStep where
  | xfer (k : Nat)
  | ret (rc : BitVec 32)
  deriving Repr, DecidableEq

structure SrcDrv where
  stream : List (BitVec 8)
  script : List DStep
  calls : Nat := 0
  deriving Repr, DecidableEq

structure SnkDrv where
  got : List (BitVec 8) := []
  script : List DStep
  calls : Nat := 0
  deriving Repr, DecidableEq

/-- a source driver asked for up to `m` octets, to be put at the front of `blk` -/
def SrcDrv.deliver (d1 : SrcDrv) (blk : List (BitVec 8)) (m : Nat) : Res (Nat × SrcDrv × List (BitVec 8)) :=
  let moved := min m d1.stream.length
  if blk.length < moved then .oob
  else .val (moved, { d1 with stream := d1.stream.drop m }, d1.stream.take m ++ blk.drop moved)

/-- `ssize_t (*ChunkSource)(void *driver, void *buf, size_t n)` -/
def drvSrcChunk (d : SrcDrv) (blk : List (BitVec 8)) (n : BitVec 64) : Res (BitVec 64 × SrcDrv × List (BitVec 8)) :=
  let d1 := { d with script := d.script.tail, calls := d.calls + 1 }
  match d.script.head? with
  | some (.ret rc) => .val (rc.signExtend 64, d1, blk)
  | step =>
    let m := match step with | some (.xfer k) => min k n.toNat | _ => n.toNat
    if d.stream.isEmpty then .val ((NEG_ENODATA).signExtend 64, d1, blk)
    else Res.bind (d1.deliver blk m) fun (k, d2, blk') => .val (BitVec.ofNat 64 k, d2, blk')

/-- `int (*ByteSource)(void *driver, void *data)` -/
def drvSrcOctet (d : SrcDrv) (cell : List (BitVec 8)) : Res (BitVec 32 × SrcDrv × List (BitVec 8)) :=
  let d1 := { d with script := d.script.tail, calls := d.calls + 1 }
  match d.script.head? with
  | some (.ret rc) => .val (rc, d1, cell)
  | step =>
    let m := match step with | some (.xfer k) => min k 1 | _ => 1
    if d.stream.isEmpty then .val (NEG_ENODATA, d1, cell)
    else Res.bind (d1.deliver cell m) fun (k, d2, cell') => .val (BitVec.ofNat 32 k, d2, cell')

/-- `ssize_t (*ChunkSink)(void *driver, const void *buf, size_t n)` -/
def drvSnkChunk (d : SnkDrv) (blk : List (BitVec 8)) (n : BitVec 64) : Res (BitVec 64 × SnkDrv) :=
  let d1 := { d with script := d.script.tail, calls := d.calls + 1 }
  if blk.length < n.toNat then .oob
  else
    let data := blk.take n.toNat
    match d.script.head? with
    | some (.ret rc) => .val (rc.signExtend 64, d1)
    | some (.xfer k) => .val (BitVec.ofNat 64 (min k data.length), { d1 with got := d.got ++ data.take k })
    | none => .val (BitVec.ofNat 64 data.length, { d1 with got := d.got ++ data })

/-- `int (*ByteSink)(void *driver, unsigned char data)` -/
def drvSnkOctet (d : SnkDrv) (o : BitVec 8) : Res (BitVec 32 × SnkDrv) :=
  let d1 := { d with script := d.script.tail, calls := d.calls + 1 }
  match d.script.head? with
  | some (.ret rc) => .val (rc, d1)
  | some (.xfer k) => .val (BitVec.ofNat 32 (min k 1), { d1 with got := d.got ++ [o].take k })
  | none => .val (1#32, { d1 with got := d.got ++ [o] })

end Ufw.Tie.CPre
