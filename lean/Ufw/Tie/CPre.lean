/-
Prelude of the loop translator (tools/gen/cloops.py): what the generated definitions are written in.
`Res` is the outcome of running a piece of C: a value, an access outside a block, or the fuel of a loop used up.
-/
namespace Ufw.Tie.CPre

inductive Res (α : Type) where
  | val (a : α)
  | oob
  | nofuel
  deriving Repr, DecidableEq

def Res.bind {α β : Type} : Res α → (α → Res β) → Res β
  | .val a, k => k a
  | .oob, _ => .oob
  | .nofuel, _ => .nofuel

@[simp] theorem Res.bind_val {α β : Type} (a : α) (k : α → Res β) : Res.bind (.val a) k = k a := rfl

/-- `*(block + i)`: outside the block the run ends in `oob` -/
def load {α : Type} {w : Nat} (mem : List (BitVec w)) (i : Nat) (k : BitVec w → Res α) : Res α :=
  match mem[i]? with
  | some v => k v
  | none => .oob

theorem load_some {α : Type} {w : Nat} (mem : List (BitVec w)) (i : Nat) (k : BitVec w → Res α) (v : BitVec w)
    (h : mem[i]? = some v) : load mem i k = k v := by
  unfold load; rw [h]

theorem load_none {α : Type} {w : Nat} (mem : List (BitVec w)) (i : Nat) (k : BitVec w → Res α)
    (h : mem.length ≤ i) : load mem i k = .oob := by
  unfold load; rw [List.getElem?_eq_none h]

/-- conversion of an unsigned value to a wider type -/
def zx {w : Nat} (w' : Nat) (x : BitVec w) : BitVec w' := x.setWidth w'
/-- conversion of a signed value to a wider type -/
def sx {w : Nat} (w' : Nat) (x : BitVec w) : BitVec w' := x.signExtend w'
/-- conversion to a narrower type -/
def tr {w : Nat} (w' : Nat) (x : BitVec w) : BitVec w' := x.setWidth w'
/-- the `int` a comparison yields -/
def b2bv32 (p : Prop) [Decidable p] : BitVec 32 := if p then 1#32 else 0#32

end Ufw.Tie.CPre
