/-
Prelude of the generated translation of the ring-buffer functions (Gen/Ring.lean): the meaning the translator
gives to array accesses and to calls of sibling functions.  `size_t` arithmetic is that of Tie/ByteBufPre.
Hand-written, part of the trusted base of tie A for C19.
-/
import Ufw.Model.Ring
import Ufw.Tie.ByteBufPre

namespace Ufw.Tie.RingPre
open Ufw Ufw.Model.Ring

/-- `x = c->data[i]`: outside the array the C code would read foreign memory - `none` -/
def arrGet {α : Type} (c : Ring) (i : Nat) (k : Nat → Option α) : Option α :=
  match c.data[i]? with
  | none => none
  | some x => k x

/-- `c->data[i] = v` -/
def arrSet {α : Type} (c : Ring) (i v : Nat) (k : Ring → Option α) : Option α :=
  if i < c.data.length then k { c with data := c.data.set i v } else none

/-- a call of a sibling function for its effect on the object -/
def call {σ α : Type} (r : Option (Nat × σ)) (k : σ → Option α) : Option α :=
  match r with
  | none => none
  | some (_, c) => k c

end Ufw.Tie.RingPre
