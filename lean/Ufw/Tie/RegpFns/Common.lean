/-
Tie A (C07, C06, C08): facts shared by the obligations over the helper functions of src/register-protocol.c
(nothing here mentions a generated definition).
-/
import Ufw.Tie.CPre
import Ufw.Model.Regp
namespace Ufw.Tie.RegpFns
open Ufw Ufw.Tie.CPre Ufw.Model.Regp

/-- the `int` a verdict of the model travels as -/
def rcOf : Option Err → BitVec 32
  | none => 0#32
  | some .efault => -(14#32)
  | some .einval => -(22#32)
  | some _ => 1#32

theorem opt16_iff : ∀ o : BitVec 8,
    (((zx 32 o) &&& ((1#32) <<< ((0#32)).toNat)) = ((1#32) <<< ((0#32)).toNat)) ↔ (o.toNat &&& 1 ≠ 0) := by
  decide +kernel

theorem lit_iff (t : BitVec 32) (k : Nat) (hk : k < 2 ^ 32) : t = BitVec.ofNat 32 k ↔ t.toNat = k := by
  constructor
  · intro h; rw [h]; simp; omega
  · intro h; apply BitVec.eq_of_toNat_eq; rw [h]; simp; omega

theorem two64 : (zx 64 (2#32)) = 2#64 := by decide
theorem stwo64 : (sx 64 (2#32)) = 2#64 := by decide
theorem zero64 : (zx 64 (0#32)) = 0#64 := by decide
theorem szero64 : (sx 64 (0#32)) = 0#64 := by decide


theorem b2bv8_true (p : Prop) [Decidable p] (h : p) : b2bv8 ((b2bv32 p) ≠ 0) = 1#8 := by
  unfold b2bv8 b2bv32; rw [if_pos h]; decide

theorem b2bv8_false (p : Prop) [Decidable p] (h : ¬ p) : b2bv8 ((b2bv32 p) ≠ 0) = 0#8 := by
  unfold b2bv8 b2bv32; rw [if_neg h]; decide

/-- a `bool` of the C code as the model's `Bool` -/
def ofBool (b : Bool) : BitVec 8 := if b then 1#8 else 0#8

end Ufw.Tie.RegpFns
