/-
Tie A (C07): `payload_plausible` as clang reads it (the frame as the four fields it looks at) gives the model's verdict.
-/
import Ufw.Gen.RegpFns
import Ufw.Tie.RegpFns.Common
namespace Ufw.Tie.RegpFns
open Ufw Ufw.Tie.CPre Ufw.Model.Regp

theorem tail_eq (ty bs : BitVec 32) (atoms : BitVec 64) :
    (if (ty = (0#32) ∨ ty = (15#32)) then
        Res.val (if (atoms = (sx 64 (0#32))) then (0#32) else (- (14#32)))
      else
        if (ty = (1#32) ∨ ty = (3#32) ∨ ty = (2#32)) then
          Res.val (if ((zx 64 bs) = atoms) then (0#32) else (- (14#32)))
        else
          Res.val (- (22#32)))
    = Res.val (rcOf (if ty.toNat = 0 ∨ ty.toNat = 15 then (if atoms.toNat = 0 then none else some .efault)
        else if ty.toNat = 1 ∨ ty.toNat = 2 ∨ ty.toNat = 3 then (if bs.toNat = atoms.toNat then none else some .efault)
        else some .einval)) := by
  have h0 : ty = 0#32 ↔ ty.toNat = 0 := lit_iff ty 0 (by omega)
  have h15 : ty = 15#32 ↔ ty.toNat = 15 := lit_iff ty 15 (by omega)
  have h1 : ty = 1#32 ↔ ty.toNat = 1 := lit_iff ty 1 (by omega)
  have h2 : ty = 2#32 ↔ ty.toNat = 2 := lit_iff ty 2 (by omega)
  have h3 : ty = 3#32 ↔ ty.toNat = 3 := lit_iff ty 3 (by omega)
  have ha : atoms = (sx 64 (0#32)) ↔ atoms.toNat = 0 := by
    rw [szero64]; constructor
    · intro h; rw [h]; rfl
    · intro h; apply BitVec.eq_of_toNat_eq; rw [h]; rfl
  have hb : (zx 64 bs) = atoms ↔ bs.toNat = atoms.toNat := by
    constructor
    · intro h; rw [← h]; have := bs.isLt; simp [zx]; omega
    · intro h; apply BitVec.eq_of_toNat_eq; rw [← h]; have := bs.isLt; simp [zx]; omega
  simp only [h0, h15, h1, h2, h3, ha, hb]
  by_cases c1 : ty.toNat = 0 ∨ ty.toNat = 15
  · simp only [c1, if_true]
    by_cases ca : atoms.toNat = 0 <;> simp [ca, rcOf]
  · simp only [c1, if_false]
    by_cases c2 : ty.toNat = 1 ∨ ty.toNat = 2 ∨ ty.toNat = 3
    · have c2' : ty.toNat = 1 ∨ ty.toNat = 3 ∨ ty.toNat = 2 := by omega
      simp only [c2, c2', if_true]
      by_cases cb : bs.toNat = atoms.toNat <;> simp [cb, rcOf]
    · have c2' : ¬ (ty.toNat = 1 ∨ ty.toNat = 3 ∨ ty.toNat = 2) := by omega
      simp only [c2, c2', if_false]
      rfl

/-- `payload_plausible(f)`: the model's verdict on the same four fields -/
theorem gen_payload_plausible (fuel : Nat) (ty : BitVec 32) (o : BitVec 8) (bs : BitVec 32) (sz : BitVec 64) :
    Ufw.Gen.RegpFns.payload_plausible fuel ty o bs sz
      = Res.val (rcOf (Ufw.Model.Regp.payload_plausible
          { type := ty.toNat, opts := o.toNat, mcode := 0, seq := 0, addr := 0, bsize := bs.toNat, hdcrc := 0, plcrc := 0 } sz.toNat)) := by
  unfold Ufw.Gen.RegpFns.payload_plausible Ufw.Model.Regp.payload_plausible
  dsimp only
  by_cases ho : o.toNat &&& 1 ≠ 0
  · rw [if_pos ((opt16_iff o).mpr ho)]
    have hm : ((sz % (zx 64 (2#32))) ≠ (zx 64 (0#32))) ↔ sz.toNat % 2 ≠ 0 := by
      rw [two64, zero64]
      constructor
      · intro h c; apply h; apply BitVec.eq_of_toNat_eq; rw [BitVec.toNat_umod]; simpa using c
      · intro h c; apply h; have := congrArg BitVec.toNat c; rw [BitVec.toNat_umod] at this; simpa using this
    by_cases hodd : sz.toNat % 2 ≠ 0
    · rw [if_pos (hm.mpr hodd), if_pos ⟨ho, hodd⟩]; rfl
    · rw [if_neg (fun h => hodd (hm.mp h)), if_neg (show ¬ (o.toNat &&& 1 ≠ 0 ∧ sz.toNat % 2 ≠ 0) from fun h => hodd h.2), if_pos ho]
      have hd : (sz / (sx 64 (2#32))).toNat = sz.toNat / 2 := by rw [stwo64, BitVec.toNat_udiv]; rfl
      rw [tail_eq, hd]
  · rw [if_neg (fun h => ho ((opt16_iff o).mp h)), if_neg (show ¬ (o.toNat &&& 1 ≠ 0 ∧ sz.toNat % 2 ≠ 0) from fun h => ho h.1), if_neg ho]
    rw [tail_eq]

end Ufw.Tie.RegpFns
