/-
Tie A (C06): `memtype_valid` as clang reads it: the frame's word-size option must be the instance's memory type
(the model's `c.mem16 != decide (h.opts &&& 1 ≠ 0)` refusal).
-/
import Ufw.Gen.RegpFns
import Ufw.Tie.RegpFns.Common
namespace Ufw.Tie.RegpFns
open Ufw Ufw.Tie.CPre Ufw.Model.Regp

theorem opt16_b8 : ∀ o : BitVec 8,
    (zx 32 (b2bv8 ((b2bv32 (((zx 32 o) &&& ((1#32) <<< ((0#32)).toNat)) = ((1#32) <<< ((0#32)).toNat))) ≠ 0)) ≠ 0)
      ↔ (o.toNat &&& 1 ≠ 0) := by decide +kernel

theorem opt16_b8' : ∀ o : BitVec 8,
    (zx 32 (b2bv8 ((b2bv32 (((zx 32 o) &&& ((1#32) <<< ((0#32)).toNat)) = ((1#32) <<< ((0#32)).toNat))) ≠ 0)) = (0#32))
      ↔ ¬ (o.toNat &&& 1 ≠ 0) := by decide +kernel

/-- for an instance whose memory type is 8 bit (0) or 16 bit (1) -/
theorem gen_memtype_valid (fuel : Nat) (memtype : BitVec 32) (o : BitVec 8) (mem16 : Bool)
    (hm : memtype = (if mem16 then 1#32 else 0#32)) :
    Ufw.Gen.RegpFns.memtype_valid fuel memtype o
      = Res.val (ofBool (mem16 == decide (o.toNat &&& 1 ≠ 0))) := by
  unfold Ufw.Gen.RegpFns.memtype_valid
  dsimp only
  subst hm
  have hmod := Nat.and_one_is_mod o.toNat
  by_cases ho : o.toNat &&& 1 ≠ 0
  · have ho' : o.toNat % 2 = 1 := by omega
    cases mem16 with
    | true =>
      rw [b2bv8_true _ (Or.inl ⟨rfl, (opt16_b8 o).mpr ho⟩)]
      simp [ofBool, ho']
    | false =>
      rw [b2bv8_false _ (by
        intro h; rcases h with ⟨h, _⟩ | ⟨_, h⟩
        · exact absurd h (by decide)
        · exact ((opt16_b8' o).mp h) ho)]
      simp [ofBool, ho']
  · have ho' : o.toNat % 2 = 0 := by omega
    cases mem16 with
    | true =>
      rw [b2bv8_false _ (by
        intro h; rcases h with ⟨_, h⟩ | ⟨h, _⟩
        · exact ho ((opt16_b8 o).mp h)
        · exact absurd h (by decide))]
      simp [ofBool, ho']
    | false =>
      rw [b2bv8_true _ (Or.inr ⟨rfl, (opt16_b8' o).mpr ho⟩)]
      simp [ofBool, ho']

end Ufw.Tie.RegpFns
