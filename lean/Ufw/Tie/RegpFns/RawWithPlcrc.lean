/-
Tie A (C07, C08): `raw_with_plcrc` as clang reads it is the model's test of bit 10 of the first header word.
-/
import Std.Tactic.BVDecide
import Ufw.Gen.RegpFns
import Ufw.Tie.RegpFns.Common
namespace Ufw.Tie.RegpFns
open Ufw Ufw.Tie.CPre Ufw.Model.Regp

theorem pl_mask : (((1#32) <<< ((2#32)).toNat) <<< ((8#32)).toNat) = 0x400#32 := by decide

theorem gen_raw_with_plcrc (fuel : Nat) (motv : BitVec 16) :
    Ufw.Gen.RegpFns.raw_with_plcrc fuel motv = Res.val (ofBool (Ufw.Model.Regp.raw_with_plcrc motv.toNat)) := by
  unfold Ufw.Gen.RegpFns.raw_with_plcrc Ufw.Model.Regp.raw_with_plcrc
  rw [pl_mask]
  have hn : motv.toNat &&& 0x400 = (motv &&& 0x400#16).toNat := by rw [BitVec.toNat_and]; rfl
  by_cases h : (motv &&& 0x400#16) = 0#16
  · have hg : ¬ ((zx 32 motv) &&& 0x400#32) = 0x400#32 := by
      simp only [zx]; revert h; bv_decide
    rw [b2bv8_false _ hg, hn, h]; rfl
  · have hg : ((zx 32 motv) &&& 0x400#32) = 0x400#32 := by
      simp only [zx]; revert h; bv_decide
    rw [b2bv8_true _ hg]
    have : (motv &&& 0x400#16).toNat ≠ 0 := fun c => h (BitVec.eq_of_toNat_eq (by simpa using c))
    have hne : motv.toNat &&& 0x400 ≠ 0 := by rw [hn]; exact this
    simp [ofBool, hne]

end Ufw.Tie.RegpFns
