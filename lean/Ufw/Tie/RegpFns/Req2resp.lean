/-
Tie A (C06, C08): `req2resp` as clang reads it is the model's function.
-/
import Ufw.Gen.RegpFns
import Ufw.Tie.RegpFns.Common
namespace Ufw.Tie.RegpFns
open Ufw Ufw.Tie.CPre Ufw.Model.Regp

theorem gen_req2resp (fuel : Nat) (ty : BitVec 32) :
    Ufw.Gen.RegpFns.req2resp fuel ty = Res.val (BitVec.ofNat 32 (Ufw.Model.Regp.req2resp ty.toNat)) := by
  unfold Ufw.Gen.RegpFns.req2resp Ufw.Model.Regp.req2resp
  dsimp only
  have h0 : ty = 0#32 ↔ ty.toNat = 0 := lit_iff ty 0 (by omega)
  have h2 : ty = 2#32 ↔ ty.toNat = 2 := lit_iff ty 2 (by omega)
  simp only [h0, h2]
  by_cases c0 : ty.toNat = 0
  · simp [c0]
  · by_cases c2 : ty.toNat = 2 <;> simp [c0, c2]

end Ufw.Tie.RegpFns
