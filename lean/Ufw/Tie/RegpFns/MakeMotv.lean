/-
Tie A (C08): `make_motv` as clang reads it - the first header word of every frame the library emits (frame type, the
three option bits word-size / header checksum / payload checksum, the meta code) - is the model's, for every
configuration, semantics argument, type, code and block size.  The bit work is discharged by `bv_decide` once the
three option conditions are booleans; the model's `Nat` expression is carried into bit vectors by the `ofNat`
homomorphisms.
-/
import Std.Tactic.BVDecide
import Ufw.Gen.RegpFns
import Ufw.Tie.RegpFns.Common
namespace Ufw.Tie.RegpFns
open Ufw Ufw.Tie.CPre Ufw.Model.Regp

/-- the bit work of `make_motv` with the three option bits given -/
theorem motv_bits (ty : BitVec 32) (m : BitVec 8) (o0 o1 o2 : Bool) :
    tr 16 ((zx 32 (tr 16 ((zx 32 (tr 16 ((zx 32 (tr 16 ((0#32) &&& (15#32)) : BitVec 16)) ||| ((ty &&& (15#32)) <<< 4)) : BitVec 16)) |||
        ((((if o0 then 1#32 else 0#32) ||| (if o1 then 2#32 else 0#32)) ||| (if o2 then 4#32 else 0#32)) <<< 8)) : BitVec 16)) ||| ((zx 32 m) <<< 12))
      = (((BitVec.setWidth 16 ty &&& 15#16) <<< 4) ||| ((((if o0 then 1#16 else 0#16) ||| (if o1 then 2#16 else 0#16)) ||| (if o2 then 4#16 else 0#16)) <<< 8))
          ||| (BitVec.setWidth 16 m <<< 12) := by
  simp only [tr, zx]
  cases o0 <;> cases o1 <;> cases o2 <;> simp only [if_true, if_false, Bool.false_eq_true] <;> bv_decide


theorem ofNat_shl (w a k : Nat) : BitVec.ofNat w (a <<< k) = BitVec.ofNat w a <<< k := by
  apply BitVec.eq_of_toNat_eq
  simp [BitVec.toNat_shiftLeft, Nat.shiftLeft_eq]

theorem ofNat_mod16 (x : Nat) : BitVec.ofNat 16 (x % 65536) = BitVec.ofNat 16 x := by
  apply BitVec.eq_of_toNat_eq; simp

/-- the model's word as a bit-vector expression -/
theorem model_motv (c : Cfg) (ms : Msem) (mc ty n : Nat) :
    BitVec.ofNat 16 (Ufw.Model.Regp.make_motv c ms mc ty n)
      = (((BitVec.ofNat 16 ty &&& 15#16) <<< 4) |||
          ((((if ((ms = .auto ∧ c.mem16 = true) ∨ ms = .s16) then 1#16 else 0#16) ||| (if c.serial = true then 2#16 else 0#16)) |||
            (if (c.serial = true ∧ n > 0 ∧ ty ≠ 0) then 4#16 else 0#16)) <<< 8))
          ||| (BitVec.ofNat 16 mc <<< 12) := by
  unfold Ufw.Model.Regp.make_motv
  simp only []
  rw [ofNat_mod16, BitVec.ofNat_or, BitVec.ofNat_or, ofNat_shl, ofNat_shl, ofNat_shl, BitVec.ofNat_and,
    BitVec.ofNat_or, BitVec.ofNat_or]
  congr 2
  · congr 1
    congr 1
    · congr 1
      · split <;> rfl
      · split <;> rfl
    · split <;> rfl


def msemCode : Msem → BitVec 32
  | .auto => 0#32
  | .s8 => 1#32
  | .s16 => 2#32

/-- `make_motv`: the first header word (type, option bits, meta code) is the model's, for every configuration -/
theorem gen_make_motv (fuel : Nat) (memtype eptype : BitVec 32) (ms : Msem) (m : BitVec 8) (ty : BitVec 32) (n : BitVec 64)
    (c : Cfg) (hm : memtype = 1#32 ↔ c.mem16 = true) (he : eptype = 0#32 ↔ c.serial = true) :
    Ufw.Gen.RegpFns.make_motv fuel memtype eptype (msemCode ms) m ty n
      = Res.val (BitVec.ofNat 16 (Ufw.Model.Regp.make_motv c ms m.toNat ty.toNat n.toNat)) := by
  unfold Ufw.Gen.RegpFns.make_motv
  dsimp only
  rw [model_motv]
  have s0 : ((1#32) <<< ((0#32)).toNat) = 1#32 := by decide
  have s1 : ((1#32) <<< ((1#32)).toNat) = 2#32 := by decide
  have s2 : ((1#32) <<< ((2#32)).toNat) = 4#32 := by decide
  have k4 : (4#32).toNat = 4 := by decide
  have k8 : (8#32).toNat = 8 := by decide
  have k12 : (12#32).toNat = 12 := by decide
  have z : (sx 64 (0#32)).toNat = 0 := by decide
  rw [s0, s1, s2, k4, k8, k12, z]
  have c0 : (((msemCode ms = (0#32)) ∧ (memtype = (1#32))) ∨ (msemCode ms = (2#32))) ↔
      ((ms = .auto ∧ c.mem16 = true) ∨ ms = .s16) := by
    cases ms <;> simp [msemCode, hm]
  have c2 : (((eptype = (0#32)) ∧ (n.toNat > 0)) ∧ (ty ≠ (0#32))) ↔ (c.serial = true ∧ n.toNat > 0 ∧ ty.toNat ≠ 0) := by
    have ht : ty ≠ 0#32 ↔ ty.toNat ≠ 0 := by
      constructor
      · intro h c; apply h; apply BitVec.eq_of_toNat_eq; rw [c]; rfl
      · intro h c; apply h; rw [c]; rfl
    rw [he, ht]; exact and_assoc
  have key : ∀ (o0 o1 o2 : Bool),
      (((ms = .auto ∧ c.mem16 = true) ∨ ms = .s16) ↔ o0 = true) → (c.serial = true ↔ o1 = true) →
      ((c.serial = true ∧ n.toNat > 0 ∧ ty.toNat ≠ 0) ↔ o2 = true) →
      Res.val (tr 16 ((zx 32 (tr 16 ((zx 32 (tr 16 ((zx 32 (tr 16 ((0#32) &&& (15#32)) : BitVec 16)) ||| ((ty &&& (15#32)) <<< 4)) : BitVec 16)) |||
        ((((if (((msemCode ms = (0#32)) ∧ (memtype = (1#32))) ∨ (msemCode ms = (2#32))) then 1#32 else 0#32) |||
           (if (eptype = (0#32)) then 2#32 else 0#32)) |||
           (if (((eptype = (0#32)) ∧ (n.toNat > 0)) ∧ (ty ≠ (0#32))) then 4#32 else 0#32)) <<< 8)) : BitVec 16)) ||| ((zx 32 m) <<< 12)) : BitVec 16)
      = Res.val ((((BitVec.ofNat 16 ty.toNat &&& 15#16) <<< 4) |||
          ((((if ((ms = .auto ∧ c.mem16 = true) ∨ ms = .s16) then 1#16 else 0#16) ||| (if c.serial = true then 2#16 else 0#16)) |||
            (if (c.serial = true ∧ n.toNat > 0 ∧ ty.toNat ≠ 0) then 4#16 else 0#16)) <<< 8))
          ||| (BitVec.ofNat 16 m.toNat <<< 12)) := by
    intro o0 o1 o2 h0 h1 h2
    simp only [c0, c2]
    simp only [he]
    simp only [h0, h2]
    simp only [h1]
    rw [motv_bits ty m o0 o1 o2, BitVec.ofNat_toNat, BitVec.ofNat_toNat]
  exact key (decide _) (decide _) (decide _) ⟨fun h => decide_eq_true h, fun h => of_decide_eq_true h⟩
    ⟨fun h => decide_eq_true h, fun h => of_decide_eq_true h⟩ ⟨fun h => decide_eq_true h, fun h => of_decide_eq_true h⟩

end Ufw.Tie.RegpFns
