/-
Tie A (C08): `msem_size` as clang reads it is the model's function (memory semantics 0 = as the instance, 1 = octets,
2 = words; the count in 64 bits), one statement per semantics.
-/
import Ufw.Gen.RegpFns
import Ufw.Tie.RegpFns.Common
namespace Ufw.Tie.RegpFns
open Ufw Ufw.Tie.CPre Ufw.Model.Regp

theorem mul2 (n : BitVec 64) (_hn : n.toNat * 2 < 2 ^ 64) : n * (zx 64 (2#32)) = BitVec.ofNat 64 (n.toNat * 2) := by
  have two : (zx 64 (2#32)) = 2#64 := by decide
  rw [two]; apply BitVec.eq_of_toNat_eq; rw [BitVec.toNat_mul]; simp

theorem mul1 (n : BitVec 64) : n * (zx 64 (1#32)) = BitVec.ofNat 64 (n.toNat * 1) := by
  have one : (zx 64 (1#32)) = 1#64 := by decide
  rw [one]; simp

theorem gen_msem_size_s16 (fuel : Nat) (memtype : BitVec 32) (n : BitVec 64) (c : Cfg) :
    Ufw.Gen.RegpFns.msem_size fuel memtype 2#32 n = Res.val (BitVec.ofNat 64 (Ufw.Model.Regp.msem_size c .s16 n.toNat)) := by
  unfold Ufw.Gen.RegpFns.msem_size Ufw.Model.Regp.msem_size
  dsimp only
  rw [if_pos rfl]
  simp

theorem gen_msem_size_s8 (fuel : Nat) (memtype : BitVec 32) (n : BitVec 64) (c : Cfg) (hn : n.toNat * 2 < 2 ^ 64) :
    Ufw.Gen.RegpFns.msem_size fuel memtype 1#32 n = Res.val (BitVec.ofNat 64 (Ufw.Model.Regp.msem_size c .s8 n.toNat)) := by
  unfold Ufw.Gen.RegpFns.msem_size Ufw.Model.Regp.msem_size
  dsimp only
  rw [if_neg (show ¬ (1#32 = 2#32) by decide), if_pos rfl, mul2 n hn]

theorem gen_msem_size_auto (fuel : Nat) (memtype : BitVec 32) (n : BitVec 64) (c : Cfg)
    (hm : (memtype = 1#32) ↔ c.mem16 = true) (hn : n.toNat * 2 < 2 ^ 64) :
    Ufw.Gen.RegpFns.msem_size fuel memtype 0#32 n = Res.val (BitVec.ofNat 64 (Ufw.Model.Regp.msem_size c .auto n.toNat)) := by
  unfold Ufw.Gen.RegpFns.msem_size Ufw.Model.Regp.msem_size
  dsimp only
  rw [if_neg (show ¬ (0#32 = 2#32) by decide), if_neg (show ¬ (0#32 = 1#32) by decide)]
  by_cases h16 : c.mem16 = true
  · rw [if_pos (hm.mpr h16), if_pos h16, mul1]
  · rw [if_neg (fun h => h16 (hm.mp h)), if_neg h16, mul2 n hn]

end Ufw.Tie.RegpFns
