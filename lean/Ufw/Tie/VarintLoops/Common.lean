/-
Tie A (C14): facts about the prelude's conversions and the model that the obligations of several functions share
(nothing here mentions a generated definition).
-/
import Ufw.Tie.CPre
import Ufw.Model.Varint
import Ufw.Lemmas.Varint
namespace Ufw.Tie.VarintLoops
open Ufw.Tie.CPre Ufw.Model.Varint

theorem seven : (zx 64 (7#32)) = 7#64 := by decide
theorem one64 : (zx 64 (1#32)) = 1#64 := by decide
theorem zero64 : (zx 64 (0#32)) = 0#64 := by decide
theorem sone64 : (sx 64 (1#32)) = 1#64 := by decide
theorem sx0' : (sx 64 (0#32)) = 0#64 := by decide
theorem zero_toInt : (0#32).toInt = 0 := by decide

theorem shr7 (n : BitVec 64) : (n >>> ((7#32)).toNat).toNat = n.toNat / 128 := by
  have h7 : (7#32).toNat = 7 := by decide
  rw [h7, BitVec.toNat_ushiftRight, Nat.shiftRight_eq_div_pow]

end Ufw.Tie.VarintLoops
