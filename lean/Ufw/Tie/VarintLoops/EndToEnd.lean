/-
C14 stated over the translated C itself: the round trip of the property theorems (`roundtrip_u64`) carried through the
tie (`gen_varint_encode`, `gen_varint_decode`) to `Ufw.Gen.VarintLoops.varint_encode` / `varint_decode` - the text clang
read from src/variable-length-integer.c on this run.
-/
import Ufw.Tie.VarintLoops.Encode
import Ufw.Tie.VarintLoops.Decode
import Ufw.Props.C14
namespace Ufw.Tie.VarintLoops
open Ufw.Tie.CPre Ufw.Model.Varint

/-- what the translated encoder wrote into a buffer's memory at its read mark, the translated decoder reads back from
    there: the same 64-bit value, exactly the octets written consumed - for every value, every memory, every mark
    where the encoding fits -/
theorem c_roundtrip_u64 (fuel : Nat) (n used off cell : BitVec 64) (mem : List (BitVec 8)) (hf : 11 ≤ fuel)
    (hfit : off.toNat + (encode n.toNat).length ≤ mem.length) (hsmall : mem.length < 2 ^ 63) :
    ∃ m, Ufw.Gen.VarintLoops.varint_encode fuel n mem used off
          = Res.val (BitVec.ofNat 32 (encode n.toNat).length, m, BitVec.ofNat 64 (off.toNat + (encode n.toNat).length)) ∧
      m.length = mem.length ∧
      Ufw.Gen.VarintLoops.varint_decode fuel m (BitVec.ofNat 64 m.length) off 10#64 [cell]
          = Res.val (BitVec.ofNat 32 (encode n.toNat).length, off + BitVec.ofNat 64 (encode n.toNat).length, [n]) := by
  obtain ⟨m, hw, hg⟩ := gen_varint_encode fuel n used off mem (by omega) hfit hsmall
  have hm : m = mem.take off.toNat ++ (encode n.toNat ++ mem.drop (off.toNat + (encode n.toNat).length)) := by
    unfold Ufw.Model.ByteBuffer.writeAt at hw
    rw [if_pos hfit] at hw
    exact (Option.some.inj hw).symm
  have hlen : m.length = mem.length := by
    rw [hm]; simp; omega
  refine ⟨m, hg, hlen, ?_⟩
  have hsize : (BitVec.ofNat 64 m.length).toNat = m.length := by
    simp; omega
  have hag := gen_varint_decode fuel m (BitVec.ofNat 64 m.length) off 10#64 cell hsize (by decide) (by
    have : (10#64).toNat = 10 := by decide
    omega)
  have hpre : (mem.take off.toNat).length = off.toNat := by simp; omega
  have hrt := Ufw.Props.C14.roundtrip_u64 n.toNat n.isLt (mem.take off.toNat)
    (mem.drop (off.toNat + (encode n.toNat).length))
  rw [hpre, ← hm] at hrt
  have h10 : (10#64).toNat = MAX64 := by decide
  unfold varint_decode_u64 at hrt
  rw [h10, hrt] at hag
  unfold Agrees at hag
  simp only [] at hag
  rw [hag, BitVec.ofNat_toNat, BitVec.setWidth_eq]

end Ufw.Tie.VarintLoops
