/-
Tie A (C14): the loop of `varint_from_source` as clang reads it, run against an octet source that delivers `input`
and then runs dry or answers a negative code, agrees with the model's `sourceLoop`: same verdict, value and octet
count, the source left exactly behind the octets taken; a failing source's code is handed on.
-/
import Ufw.Tie.VarintLoops.Done
namespace Ufw.Tie.VarintLoops
open Ufw.Tie.CPre Ufw.Model.Varint

/-- what follows the octets: nothing (the source runs dry) or a failing call with a negative code -/
def TailOk (tail : Src) : Prop := tail = [] ∨ ∃ rc rest, tail = SrcEv.fail rc :: rest ∧ rc.toInt < 0

def tailRc : Src → BitVec 32
  | SrcEv.fail rc :: _ => rc
  | _ => NEG_ENODATA

def tailRest : Src → Src
  | SrcEv.fail _ :: r => r
  | _ => []

def octets (l : List (BitVec 8)) : Src := l.map SrcEv.octet

/-- what the C function hands back for a verdict of the model (`i` octets were taken before) -/
def AgreesS (tail : Src) (input : List (BitVec 8)) (i : Nat) (maxo : Nat) (d : Dec)
    (r : Res (BitVec 32 × Src × List (BitVec 64))) : Prop :=
  match d with
  | .ok v c => r = Res.val (BitVec.ofNat 32 c, octets (input.drop (c - i)) ++ tail, [BitVec.ofNat 64 v])
  | .err .eilseq => ∃ j, r = Res.val (-(84#32), octets (input.drop (maxo - i)) ++ tail, [j])
  | .err .enodata => ∃ j, r = Res.val (tailRc tail, tailRest tail, [j])
  | _ => False

theorem sourceLoop_ok_gt (e : Err) : ∀ (input : List (BitVec 8)) (fuel i acc v c : Nat),
    sourceLoop e input fuel i acc = .ok v c → i + 1 ≤ c := by
  intro input
  induction input with
  | nil => intro fuel i acc v c h; cases fuel <;> simp [sourceLoop] at h
  | cons d rest ih =>
    intro fuel i acc v c h
    cases fuel with
    | zero => simp [sourceLoop] at h
    | succ fuel =>
      unfold sourceLoop at h
      simp only [] at h
      by_cases hd : varint_done d = true
      · rw [if_pos hd] at h; cases h; omega
      · rw [if_neg hd] at h; have := ih _ _ _ _ _ h; omega

theorem agrees_cons (tail : Src) (d : BitVec 8) (rest : List (BitVec 8)) (i maxo : Nat) (dres : Dec)
    (r : Res (BitVec 32 × Src × List (BitVec 64))) (hi : i < maxo) (hc : ∀ v c, dres = .ok v c → i + 1 + 1 ≤ c)
    (h : AgreesS tail rest (i + 1) maxo dres r) : AgreesS tail (d :: rest) i maxo dres r := by
  cases dres with
  | ok v c =>
    have := hc v c rfl
    unfold AgreesS at h ⊢
    simp only [] at h ⊢
    have e : c - i = (c - (i + 1)) + 1 := by omega
    rw [e, List.drop_succ_cons]; exact h
  | err e =>
    cases e <;> first
      | exact h
      | (unfold AgreesS at h ⊢
         simp only [] at h ⊢
         have e : maxo - i = (maxo - (i + 1)) + 1 := by omega
         rw [e, List.drop_succ_cons]; exact h)
  | oob => exact h

theorem data_bits' : ∀ d : BitVec 8, (zx 64 (tr 8 ((zx 32 d) &&& (127#32)))).toNat = d.toNat &&& DMASK := by
  decide +kernel

theorem acc_step' (acc : BitVec 64) (d : BitVec 8) (i : BitVec 64) (hi : i.toNat < 10) :
    (acc ||| ((zx 64 (tr 8 ((zx 32 d) &&& (127#32)))) <<< ((i * (zx 64 (7#32)))).toNat)).toNat
      = acc.toNat ||| ((d.toNat &&& DMASK) <<< (i.toNat * DBITS)) % 2 ^ 64 := by
  have hm : (i * (zx 64 (7#32))).toNat = i.toNat * 7 := by
    rw [seven, BitVec.toNat_mul]; simp; omega
  rw [BitVec.toNat_or, BitVec.toNat_shiftLeft, hm, data_bits']
  rfl

theorem neg_enodata : NEG_ENODATA.toInt < (0#32).toInt := by decide
theorem one_nonneg : ¬ (1#32).toInt < (0#32).toInt := by decide

theorem source_loop (undef : Nat → BitVec 64) (tail : Src) (ht : TailOk tail) (maxo : BitVec 64) (hmax : maxo.toNat ≤ 10) :
    ∀ (fuel : Nat) (input : List (BitVec 8)) (i acc : BitVec 64), i.toNat ≤ maxo.toNat → maxo.toNat - i.toNat < fuel →
      AgreesS tail input i.toNat maxo.toNat (sourceLoop .enodata input (maxo.toNat - i.toNat) i.toNat acc.toNat)
        (Ufw.Gen.VarintLoops.varint_from_source.loop1 undef fuel maxo 0 i [acc] (octets input ++ tail)) := by
  intro fuel
  induction fuel with
  | zero => intro _ _ _ _ h; omega
  | succ fuel ih =>
    intro input i acc hi hf
    unfold Ufw.Gen.VarintLoops.varint_from_source.loop1
    by_cases hlt : i.toNat < maxo.toNat
    · rw [if_pos hlt]
      obtain ⟨f', hf'⟩ : ∃ f', maxo.toNat - i.toNat = f' + 1 := ⟨maxo.toNat - i.toNat - 1, by omega⟩
      rw [hf']
      cases input with
      | nil =>
        unfold sourceLoop
        simp only [octets, List.map_nil, List.nil_append]
        rcases ht with h0 | ⟨rc, rest, h1, hneg⟩
        · subst h0
          simp only [source_get_octet, Res.bind_val, cellOf, List.headD_cons]
          rw [load_some [acc] 0 _ acc rfl, store_in [acc] 0 _ _ (by simp), if_pos neg_enodata]
          exact ⟨_, rfl⟩
        · subst h1
          simp only [source_get_octet, Res.bind_val, cellOf, List.headD_cons]
          rw [load_some [acc] 0 _ acc rfl, store_in [acc] 0 _ _ (by simp), if_pos (by rw [zero_toInt]; exact hneg)]
          exact ⟨_, rfl⟩
      | cons d rest =>
        unfold sourceLoop
        simp only [octets, List.map_cons, List.cons_append, source_get_octet, Res.bind_val, cellOf,
          List.set_cons_zero, List.headD_cons]
        rw [load_some [acc] 0 _ acc rfl, store_in [acc] 0 _ _ (by simp), if_neg one_nonneg, gen_varint_done, Res.bind_val]
        simp only [List.set_cons_zero]
        have hstep := acc_step' acc d i (by omega)
        by_cases hd : varint_done d = true
        · rw [if_pos ((done_ne_zero _).mpr hd), if_pos hd]
          unfold AgreesS
          simp only []
          rw [sone64, ← hstep]
          have h1 : (i + 1#64) = BitVec.ofNat 64 (i.toNat + 1) := by
            apply BitVec.eq_of_toNat_eq; rw [BitVec.toNat_add]; simp
          rw [h1]
          have h2 : tr 32 (BitVec.ofNat 64 (i.toNat + 1)) = BitVec.ofNat 32 (i.toNat + 1) := by
            apply BitVec.eq_of_toNat_eq; simp [tr]
          have h3 : i.toNat + 1 - i.toNat = 1 := by omega
          rw [h2, BitVec.ofNat_toNat, BitVec.setWidth_eq, h3]
          rfl
        · rw [if_neg (fun h => hd ((done_ne_zero _).mp h)), if_neg hd]
          have hi1 : (i + 1#64).toNat = i.toNat + 1 := by
            rw [BitVec.toNat_add]; have := i.isLt; simp; omega
          have := ih rest (i + 1#64) (acc ||| ((zx 64 (tr 8 ((zx 32 d) &&& (127#32)))) <<< ((i * (zx 64 (7#32)))).toNat)) (by omega) (by omega)
          rw [hi1, hstep] at this
          have hf2 : maxo.toNat - (i.toNat + 1) = f' := by omega
          rw [hf2] at this
          exact agrees_cons tail d rest i.toNat maxo.toNat _ _ hlt (fun v c h => sourceLoop_ok_gt _ _ _ _ _ _ _ h) this
    · rw [if_neg hlt]
      have : maxo.toNat - i.toNat = 0 := by omega
      rw [this]
      unfold sourceLoop
      unfold AgreesS
      simp only []
      rw [this, List.drop_zero]
      exact ⟨acc, rfl⟩

/-- `varint_from_source(source, maxoctets, n)` against a source that delivers `input` and then `tail` -/
theorem gen_varint_from_source (fuel : Nat) (undef : Nat → BitVec 64) (tail : Src) (ht : TailOk tail)
    (input : List (BitVec 8)) (maxo cell : BitVec 64) (hmax : maxo.toNat ≤ 10) (hf : maxo.toNat < fuel) :
    AgreesS tail input 0 maxo.toNat (varint_from_source .enodata input maxo.toNat)
      (Ufw.Gen.VarintLoops.varint_from_source fuel undef (octets input ++ tail) maxo [cell]) := by
  unfold Ufw.Gen.VarintLoops.varint_from_source varint_from_source
  simp only []
  rw [store_in [cell] 0 _ _ (by simp), zero64]
  simp only [List.set_cons_zero]
  have := source_loop undef tail ht maxo hmax fuel input 0#64 0#64 (by simp) (by simpa using hf)
  simpa using this

/-- non-vacuity: a source that delivers `ac 02 55` and runs dry: value 300 from two octets, `55` left -/
example : Ufw.Gen.VarintLoops.varint_from_source 6 (fun _ => 0) (octets [0xac#8, 0x02#8, 0x55#8]) 5#64 [7#64]
    = Res.val (2#32, octets [0x55#8], [300#64]) := by decide

/-- a source that answers -EAGAIN (11) in the middle of a varint: the code is handed on, nothing is made up -/
example : ∃ j, Ufw.Gen.VarintLoops.varint_from_source 6 (fun _ => 0) (octets [0xac#8] ++ [SrcEv.fail (-(11#32)), SrcEv.octet 0x02#8]) 5#64 [7#64]
    = Res.val (-(11#32), [SrcEv.octet 0x02#8], [j]) := ⟨44#64, by decide⟩

end Ufw.Tie.VarintLoops
