/-
Tie A (C14): the endless `for` of `varint_u64_length` as clang reads it ends within ten rounds with the model's length.
-/
import Ufw.Gen.VarintLoops
import Ufw.Tie.VarintLoops.Common
namespace Ufw.Tie.VarintLoops
open Ufw.Tie.CPre

theorem length_loop : ∀ (k : Nat) (fuel : Nat) (n octets : BitVec 64),
    n.toNat < 128 ^ k → k ≤ fuel → 0 < k →
    Ufw.Gen.VarintLoops.varint_u64_length.loop1 fuel n octets
      = Res.val (octets + BitVec.ofNat 64 (Ufw.Model.Varint.varint_u64_length n.toNat - 1)) := by
  intro k
  induction k with
  | zero => intro _ _ _ _ _ h; omega
  | succ k ih =>
    intro fuel n octets hn hf _
    cases fuel with
    | zero => omega
    | succ fuel =>
      unfold Ufw.Gen.VarintLoops.varint_u64_length.loop1
      simp only []
      rw [sx0']
      unfold Ufw.Model.Varint.varint_u64_length
      by_cases hz : n.toNat / 128 = 0
      · have : (n >>> ((7#32)).toNat) = 0#64 := by
          apply BitVec.eq_of_toNat_eq; rw [shr7, hz]; rfl
        rw [if_pos this, dif_pos hz]
        simp
      · have hne : ¬ (n >>> ((7#32)).toNat) = 0#64 := by
          intro h; apply hz; rw [← shr7, h]; rfl
        rw [if_neg hne, dif_neg hz]
        have hk : 0 < k := by
          rcases Nat.eq_zero_or_pos k with h0 | h0
          · subst h0; simp at hn; omega
          · exact h0
        have hlt : (n >>> ((7#32)).toNat).toNat < 128 ^ k := by
          rw [shr7]; rw [Nat.pow_succ] at hn; omega
        rw [ih fuel _ _ hlt (by omega) hk, shr7]
        congr 1
        have hpos : 0 < Ufw.Model.Varint.varint_u64_length (n.toNat / 128) := by
          unfold Ufw.Model.Varint.varint_u64_length; split <;> omega
        have : 1 + Ufw.Model.Varint.varint_u64_length (n.toNat / 128) - 1
            = 1 + (Ufw.Model.Varint.varint_u64_length (n.toNat / 128) - 1) := by omega
        rw [this, Nat.add_comm 1, BitVec.ofNat_add]
        rw [BitVec.add_assoc, BitVec.add_comm (1#64)]

/-- `varint_u64_length(n)`: ten rounds of fuel are enough for every 64-bit value -/
theorem gen_varint_u64_length (fuel : Nat) (n : BitVec 64) (hf : 10 ≤ fuel) :
    Ufw.Gen.VarintLoops.varint_u64_length fuel n
      = Res.val (BitVec.ofNat 64 (Ufw.Model.Varint.varint_u64_length n.toNat)) := by
  unfold Ufw.Gen.VarintLoops.varint_u64_length
  simp only []
  have hn : n.toNat < 128 ^ 10 := by have := n.isLt; omega
  rw [length_loop 10 fuel n _ hn hf (by omega)]
  have hpos : 0 < Ufw.Model.Varint.varint_u64_length n.toNat := by
    unfold Ufw.Model.Varint.varint_u64_length; split <;> omega
  have h1 : (zx 64 (1#32)) = 1#64 := by decide
  rw [h1]
  have : Ufw.Model.Varint.varint_u64_length n.toNat = 1 + (Ufw.Model.Varint.varint_u64_length n.toNat - 1) := by omega
  conv => rhs; rw [this, BitVec.ofNat_add]

end Ufw.Tie.VarintLoops
