/-
Tie A (C14): `varint_done` as clang reads it is the model's predicate.
-/
import Ufw.Gen.VarintLoops
import Ufw.Tie.VarintLoops.Common
namespace Ufw.Tie.VarintLoops
open Ufw.Tie.CPre

theorem done_all : ∀ o : BitVec 8,
    b2bv8 ((b2bv32 (((zx 32 o) &&& (128#32)) = (0#32))) ≠ 0) = (if Ufw.Model.Varint.varint_done o then 1#8 else 0#8) := by
  decide +kernel

theorem gen_varint_done (fuel : Nat) (o : BitVec 8) :
    Ufw.Gen.VarintLoops.varint_done fuel o = Res.val (if Ufw.Model.Varint.varint_done o then 1#8 else 0#8) := by
  unfold Ufw.Gen.VarintLoops.varint_done
  rw [done_all]

/-- as a condition: the call's value is non-zero exactly when the model says done -/
theorem done_ne_zero (o : BitVec 8) :
    ((if Ufw.Model.Varint.varint_done o then 1#8 else 0#8) ≠ 0) ↔ Ufw.Model.Varint.varint_done o = true := by
  cases Ufw.Model.Varint.varint_done o <;> simp

end Ufw.Tie.VarintLoops
