/-
Tie A (C14): the `for` loop of `varint_decode` as clang reads it (buffer structure as its fields, the value
accumulated in the caller's 64-bit cell) agrees with the model's `decodeLoop`: same verdict, value, octet count and
read mark, and no access outside the buffer's memory.
-/
import Ufw.Tie.VarintLoops.Done
import Ufw.Lemmas.Varint
namespace Ufw.Tie.VarintLoops
open Ufw.Tie.CPre Ufw.Model.Varint

/-- what the C function hands back for a verdict of the model: value, new read mark, the caller's cell -/
def Agrees (off : BitVec 64) (d : Dec) (r : Res (BitVec 32 × BitVec 64 × List (BitVec 64))) : Prop :=
  match d with
  | .ok v c => r = Res.val (BitVec.ofNat 32 c, off + BitVec.ofNat 64 c, [BitVec.ofNat 64 v])
  | .err .enodata => ∃ j, r = Res.val (-(61#32), off, [j])
  | .err .eilseq => ∃ j, r = Res.val (-(84#32), off, [j])
  | _ => False

theorem data_bits : ∀ d : BitVec 8, (zx 64 ((zx 32 d) &&& (127#32))).toNat = d.toNat &&& DMASK := by
  decide +kernel


theorem acc_step (acc : BitVec 64) (d : BitVec 8) (i : BitVec 64) (hi : i.toNat < 10) :
    (acc ||| ((zx 64 ((zx 32 d) &&& (127#32))) <<< ((i * (zx 64 (7#32)))).toNat)).toNat
      = acc.toNat ||| ((d.toNat &&& DMASK) <<< (i.toNat * DBITS)) % 2 ^ 64 := by
  have hm : (i * (zx 64 (7#32))).toNat = i.toNat * 7 := by
    rw [seven, BitVec.toNat_mul]; simp; omega
  rw [BitVec.toNat_or, BitVec.toNat_shiftLeft, hm, data_bits]
  rfl

theorem decode_loop (mem : List (BitVec 8)) (size off maxo : BitVec 64)
    (hsize : size.toNat = mem.length) (hmax : maxo.toNat ≤ 10) :
    ∀ (fuel : Nat) (i acc : BitVec 64), i.toNat ≤ maxo.toNat → maxo.toNat - i.toNat < fuel →
      Agrees off (decodeLoop mem off.toNat (maxo.toNat - i.toNat) i.toNat acc.toNat)
        (Ufw.Gen.VarintLoops.varint_decode.loop1 mem fuel size off maxo 0 (0 + off.toNat) i [acc]) := by
  intro fuel
  induction fuel with
  | zero => intro _ _ _ h; omega
  | succ fuel ih =>
    intro i acc hi hf
    unfold Ufw.Gen.VarintLoops.varint_decode.loop1
    by_cases hlt : i.toNat < maxo.toNat
    · rw [if_pos hlt]
      obtain ⟨f', hf'⟩ : ∃ f', maxo.toNat - i.toNat = f' + 1 := ⟨maxo.toNat - i.toNat - 1, by omega⟩
      rw [hf']
      unfold decodeLoop
      have hcond : ((off.toNat ≥ size.toNat) ∨ (i.toNat ≥ (size - off).toNat)) ↔ off.toNat + i.toNat ≥ mem.length := by
        by_cases ho : off.toNat ≥ size.toNat
        · constructor
          · intro _; omega
          · intro _; exact Or.inl ho
        · have hsub : (size - off).toNat = size.toNat - off.toNat := by
            rw [BitVec.toNat_sub]; have := size.isLt; have := off.isLt; simp; omega
          rw [hsub]; constructor
          · intro h; rcases h with h | h <;> omega
          · intro h; exact Or.inr (by omega)
      by_cases hend : off.toNat + i.toNat ≥ mem.length
      · rw [if_pos (hcond.mpr hend), if_pos hend]
        exact ⟨acc, rfl⟩
      · rw [if_neg (fun h => hend (hcond.mp h)), if_neg hend]
        have hidx : 0 + off.toNat + i.toNat = off.toNat + i.toNat := by omega
        have hin : off.toNat + i.toNat < mem.length := by omega
        rw [hidx, load_some mem _ _ mem[off.toNat + i.toNat] (List.getElem?_eq_getElem hin)]
        rw [List.getElem?_eq_getElem hin]
        simp only []
        rw [load_some [acc] 0 _ acc rfl, store_in [acc] 0 _ _ (by simp), gen_varint_done, Res.bind_val]
        simp only [List.set_cons_zero]
        have hstep := acc_step acc mem[off.toNat + i.toNat] i (by omega)
        by_cases hd : varint_done mem[off.toNat + i.toNat] = true
        · rw [if_pos ((done_ne_zero _).mpr hd), if_pos hd]
          unfold Agrees
          simp only []
          rw [one64, ← hstep]
          have h1 : (i + 1#64) = BitVec.ofNat 64 (i.toNat + 1) := by
            apply BitVec.eq_of_toNat_eq; rw [BitVec.toNat_add]; simp
          rw [h1]
          have h2 : tr 32 (BitVec.ofNat 64 (i.toNat + 1)) = BitVec.ofNat 32 (i.toNat + 1) := by
            apply BitVec.eq_of_toNat_eq; simp [tr]
          rw [h2, BitVec.ofNat_toNat, BitVec.setWidth_eq]
        · rw [if_neg (fun h => hd ((done_ne_zero _).mp h)), if_neg hd]
          have hi1 : (i + 1#64).toNat = i.toNat + 1 := by
            rw [BitVec.toNat_add]; have := i.isLt; simp; omega
          have := ih (i + 1#64) (acc ||| ((zx 64 ((zx 32 mem[off.toNat + i.toNat]) &&& (127#32))) <<< ((i * (zx 64 (7#32)))).toNat)) (by omega) (by omega)
          rw [hi1, hstep] at this
          have hf2 : maxo.toNat - (i.toNat + 1) = f' := by omega
          rw [hf2] at this
          exact this
    · rw [if_neg hlt]
      have : maxo.toNat - i.toNat = 0 := by omega
      rw [this]
      unfold decodeLoop
      exact ⟨acc, rfl⟩

/-- `varint_decode(b, maxoctets, n)` for a buffer whose `size` is the length of its memory: the model's verdict -/
theorem gen_varint_decode (fuel : Nat) (mem : List (BitVec 8)) (size off maxo : BitVec 64) (cell : BitVec 64)
    (hsize : size.toNat = mem.length) (hmax : maxo.toNat ≤ 10) (hf : maxo.toNat < fuel) :
    Agrees off (varint_decode mem off.toNat maxo.toNat)
      (Ufw.Gen.VarintLoops.varint_decode fuel mem size off maxo [cell]) := by
  unfold Ufw.Gen.VarintLoops.varint_decode varint_decode
  simp only []
  rw [store_in [cell] 0 _ _ (by simp), zero64]
  simp only [List.set_cons_zero]
  have := decode_loop mem size off maxo hsize hmax fuel 0#64 0#64 (by simp) (by simpa using hf)
  simpa using this

end Ufw.Tie.VarintLoops
