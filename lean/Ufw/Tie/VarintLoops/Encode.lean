/-
Tie A (C14): the endless `for` of `varint_encode` as clang reads it writes the octets of the model's `encode` at the
read mark, one per round, sets the fill mark just behind them and returns their number - provided they fit the memory.
-/
import Ufw.Gen.VarintLoops
import Ufw.Tie.VarintLoops.Common
namespace Ufw.Tie.VarintLoops
open Ufw.Tie.CPre Ufw.Model.Varint

theorem low7 (n : BitVec 64) : tr 8 (n &&& (zx 64 (127#32))) = BitVec.ofNat 8 (n.toNat % 128) := by
  apply BitVec.eq_of_toNat_eq
  have h : (zx 64 (127#32)) = 127#64 := by decide
  rw [h]
  simp only [tr, BitVec.toNat_setWidth, BitVec.toNat_and, BitVec.toNat_ofNat]
  have : n.toNat &&& 127 = n.toNat % 128 := Nat.and_two_pow_sub_one_eq_mod n.toNat 7
  simp [this]

theorem cont_bit : ∀ v : BitVec 8, v.toNat < 128 → tr 8 ((zx 32 v) ||| (128#32)) = BitVec.ofNat 8 (v.toNat + 128) := by
  decide +kernel

theorem set_take (mem : List (BitVec 8)) (i : Nat) (w : BitVec 8) (h : i < mem.length) :
    (mem.set i w).take (i + 1) = mem.take i ++ [w] := by
  rw [List.set_eq_take_append_cons_drop, if_pos h]
  have hl : (mem.take i).length = i := by simp; omega
  rw [List.take_append, hl]
  simp
  exact List.take_of_length_le (by omega)

theorem set_drop (mem : List (BitVec 8)) (i k : Nat) (w : BitVec 8) :
    (mem.set i w).drop (i + 1 + k) = mem.drop (i + 1 + k) := by
  rw [List.drop_set]; simp; omega

theorem encode_loop : ∀ (k : Nat) (fuel : Nat) (n used off : BitVec 64) (buf : Nat) (i : BitVec 32) (mem : List (BitVec 8)),
    n.toNat < 128 ^ k → k ≤ fuel → 0 < k → buf + (encode n.toNat).length ≤ mem.length → mem.length < 2 ^ 63 →
    Ufw.Gen.VarintLoops.varint_encode.loop1 fuel n used off buf i mem
      = Res.val (i + BitVec.ofNat 32 ((encode n.toNat).length - 1),
                 mem.take buf ++ (encode n.toNat ++ mem.drop (buf + (encode n.toNat).length)),
                 BitVec.ofNat 64 (buf + (encode n.toNat).length)) := by
  intro k
  induction k with
  | zero => intro _ _ _ _ _ _ _ _ _ h; omega
  | succ k ih =>
    intro fuel n used off buf i mem hn hf _ hfit hsmall
    cases fuel with
    | zero => omega
    | succ fuel =>
      unfold Ufw.Gen.VarintLoops.varint_encode.loop1
      have hlen : 1 ≤ (encode n.toNat).length := by
        unfold encode; split <;> simp
      have hbuf : buf < mem.length := by omega
      rw [store_in mem buf _ _ hbuf, low7]
      simp only []
      rw [sx0']
      by_cases hz : n.toNat / 128 = 0
      · have : (n >>> ((7#32)).toNat) = 0#64 := by
          apply BitVec.eq_of_toNat_eq; rw [shr7, hz]; rfl
        rw [if_pos this]
        have henc : encode n.toNat = [BitVec.ofNat 8 (n.toNat % 128)] := by
          unfold encode; rw [dif_pos hz]
        rw [henc]
        simp only [List.length_singleton, Nat.sub_self, List.singleton_append]
        have h1 : (zx 64 (1#32)) = 1#64 := by decide
        have hp : ptrdiff 64 buf 0 + 1#64 = BitVec.ofNat 64 (buf + 1) := by
          unfold ptrdiff
          apply BitVec.eq_of_toNat_eq
          simp [BitVec.toNat_add]
        rw [h1, hp]
        have hi0 : i + BitVec.ofNat 32 0 = i := by simp
        rw [hi0, List.set_eq_take_append_cons_drop, if_pos hbuf]
      · have hne : ¬ (n >>> ((7#32)).toNat) = 0#64 := by
          intro h; apply hz; rw [← shr7, h]; rfl
        rw [if_neg hne]
        have henc : encode n.toNat = BitVec.ofNat 8 (n.toNat % 128 + 128) :: encode (n.toNat / 128) := by
          conv => lhs; unfold encode
          rw [dif_neg hz]
        have hget : (mem.set buf (BitVec.ofNat 8 (n.toNat % 128)))[buf]? = some (BitVec.ofNat 8 (n.toNat % 128)) := by
          rw [List.getElem?_set_self (by simpa using hbuf)]
        rw [load_some _ buf _ _ hget, store_in _ buf _ _ (by simpa using hbuf)]
        have hv : (BitVec.ofNat 8 (n.toNat % 128)).toNat = n.toNat % 128 := by
          simp; omega
        rw [cont_bit _ (by rw [hv]; omega), hv, List.set_set]
        have hk : 0 < k := by
          rcases Nat.eq_zero_or_pos k with h0 | h0
          · subst h0; simp at hn; omega
          · exact h0
        have hlt : (n >>> ((7#32)).toNat).toNat < 128 ^ k := by
          rw [shr7]; rw [Nat.pow_succ] at hn; omega
        rw [henc] at hfit ⊢
        simp only [List.length_cons] at hfit ⊢
        rw [ih fuel _ used off (buf + 1) (i + 1#32) _ hlt (by omega) hk (by rw [shr7]; simp; omega) (by simpa using hsmall), shr7]
        have hl2 : 1 ≤ (encode (n.toNat / 128)).length := by
          unfold encode; split <;> simp
        congr 1
        · congr 1
          · rw [BitVec.add_assoc]; congr 1
            have : (encode (n.toNat / 128)).length + 1 - 1 = 1 + ((encode (n.toNat / 128)).length - 1) := by omega
            rw [this, BitVec.ofNat_add]
          · congr 1
            · rw [set_take mem buf _ hbuf]
              have : buf + 1 + (encode (n.toNat / 128)).length = buf + 1 + (encode (n.toNat / 128)).length := rfl
              rw [set_drop]
              simp [Nat.add_assoc, Nat.add_comm 1]
            · congr 1; omega

/-- `varint_encode(n, b)`: the model's octets, written where the model's `writeAt` puts them (the callers have
    checked that ten / five octets are available; what is needed here is only that the encoding itself fits) -/
theorem gen_varint_encode (fuel : Nat) (n used off : BitVec 64) (mem : List (BitVec 8)) (hf : 10 ≤ fuel)
    (hfit : off.toNat + (encode n.toNat).length ≤ mem.length) (hsmall : mem.length < 2 ^ 63) :
    ∃ m, Ufw.Model.ByteBuffer.writeAt mem off.toNat (encode n.toNat) = some m ∧
      Ufw.Gen.VarintLoops.varint_encode fuel n mem used off
        = Res.val (BitVec.ofNat 32 (encode n.toNat).length, m, BitVec.ofNat 64 (off.toNat + (encode n.toNat).length)) := by
  refine ⟨mem.take off.toNat ++ (encode n.toNat ++ mem.drop (off.toNat + (encode n.toNat).length)), ?_, ?_⟩
  · unfold Ufw.Model.ByteBuffer.writeAt; rw [if_pos hfit]
  · unfold Ufw.Gen.VarintLoops.varint_encode
    simp only [Nat.zero_add]
    have hn : n.toNat < 128 ^ 10 := by have := n.isLt; omega
    rw [encode_loop 10 fuel n used off off.toNat (1#32) mem hn hf (by omega) hfit hsmall]
    have hlen : 1 ≤ (encode n.toNat).length := by
      unfold encode; split <;> simp
    have h32 : BitVec.ofNat 32 (encode n.toNat).length = 1#32 + BitVec.ofNat 32 ((encode n.toNat).length - 1) := by
      have : (encode n.toNat).length = 1 + ((encode n.toNat).length - 1) := by omega
      conv => lhs; rw [this, BitVec.ofNat_add]
    rw [h32]

/-- non-vacuity: 300 into a six-octet memory at read mark 1 -/
example : Ufw.Gen.VarintLoops.varint_encode 10 300#64 [1#8, 2#8, 3#8, 4#8, 5#8, 6#8] 0#64 1#64
    = Res.val (2#32, [1#8, 0xac#8, 0x02#8, 4#8, 5#8, 6#8], 3#64) := by decide

end Ufw.Tie.VarintLoops
