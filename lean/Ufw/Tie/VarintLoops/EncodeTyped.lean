/-
Tie A (C14): the four typed encoders `varint_encode_u32/s32/u64/s64` as clang reads them - including their callee
`byte_buffer_avail` of src/byte-buffer.c, translated from its own source into the same module.  With fewer than 5
resp. 10 free octets behind the fill mark they refuse with -EINVAL and leave memory and fill mark alone (the model's
`varint_encode_buf`); otherwise they are `varint_encode` of the value's 32- resp. 64-bit pattern: the octets of the
model's `encode` written at the read mark, the fill mark set behind them, their number returned.
-/
import Ufw.Tie.VarintLoops.Encode
namespace Ufw.Tie.VarintLoops
open Ufw.Tie.CPre Ufw.Model.Varint

/-- what the model's `varint_encode_buf` says, over the pieces of a buffer object the C functions use -/
def encodeBufSpec (mem : List (BitVec 8)) (size used off : BitVec 64) (maxo v : Nat) : Res (BitVec 32 × List (BitVec 8) × BitVec 64) :=
  if size.toNat - used.toNat < maxo then Res.val (- (22#32), mem, used)
  else match Ufw.Model.ByteBuffer.writeAt mem off.toNat (encode v) with
    | some m => Res.val (BitVec.ofNat 32 (encode v).length, m, BitVec.ofNat 64 (off.toNat + (encode v).length))
    | none => Res.oob

theorem avail_toNat (size used : BitVec 64) (h : used.toNat ≤ size.toNat) : (size - used).toNat = size.toNat - used.toNat := by
  rw [BitVec.toNat_sub]; have := size.isLt; have := used.isLt; omega

/-- the common shape of the four functions -/
theorem typed_shape (fuel : Nat) (mem : List (BitVec 8)) (size used off v : BitVec 64) (maxo : BitVec 32)
    (hf : 10 ≤ fuel) (hused : used.toNat ≤ size.toNat)
    (hfit : off.toNat + (encode v.toNat).length ≤ mem.length) (hsmall : mem.length < 2 ^ 63) :
    (Res.bind (Ufw.Gen.VarintLoops.byte_buffer_avail fuel size used) fun t1 =>
      if ((t1).toNat < ((zx 64 maxo)).toNat) then
        Res.val ((- (22#32)), mem, used)
      else
        Res.bind (Ufw.Gen.VarintLoops.varint_encode fuel v mem used off) fun (t2, t3, t4) =>
        Res.val (t2, t3, t4))
      = encodeBufSpec mem size used off maxo.toNat v.toNat := by
  unfold Ufw.Gen.VarintLoops.byte_buffer_avail encodeBufSpec
  rw [Res.bind_val, avail_toNat size used hused]
  have hz : (zx 64 maxo).toNat = maxo.toNat := by
    simp only [zx, BitVec.toNat_setWidth]; have := maxo.isLt; omega
  rw [hz]
  by_cases h : size.toNat - used.toNat < maxo.toNat
  · simp only [h, if_true]
  · simp only [h, if_false]
    obtain ⟨m, hm, hg⟩ := gen_varint_encode fuel v used off mem hf hfit hsmall
    rw [hg, hm, Res.bind_val]

theorem gen_varint_encode_u64 (fuel : Nat) (mem : List (BitVec 8)) (size used off n : BitVec 64)
    (hf : 10 ≤ fuel) (hused : used.toNat ≤ size.toNat)
    (hfit : off.toNat + (encode n.toNat).length ≤ mem.length) (hsmall : mem.length < 2 ^ 63) :
    Ufw.Gen.VarintLoops.varint_encode_u64 fuel mem size used off n = encodeBufSpec mem size used off MAX64 n.toNat := by
  unfold Ufw.Gen.VarintLoops.varint_encode_u64
  exact typed_shape fuel mem size used off n 10#32 hf hused hfit hsmall

theorem gen_varint_encode_s64 (fuel : Nat) (undef : Nat → BitVec 64) (mem : List (BitVec 8)) (size used off n : BitVec 64)
    (hf : 10 ≤ fuel) (hused : used.toNat ≤ size.toNat)
    (hfit : off.toNat + (encode n.toNat).length ≤ mem.length) (hsmall : mem.length < 2 ^ 63) :
    Ufw.Gen.VarintLoops.varint_encode_s64 fuel undef mem size used off n = encodeBufSpec mem size used off MAX64 n.toNat := by
  unfold Ufw.Gen.VarintLoops.varint_encode_s64
  exact typed_shape fuel mem size used off n 10#32 hf hused hfit hsmall

theorem u32_pattern (n : BitVec 32) : (zx 64 (n &&& (4294967295#32))).toNat = n.toNat := by
  have h : n &&& 4294967295#32 = n := by
    apply BitVec.eq_of_toNat_eq
    rw [BitVec.toNat_and]
    exact (Nat.and_two_pow_sub_one_eq_mod n.toNat 32).trans (Nat.mod_eq_of_lt n.isLt)
  rw [h]; simp only [zx, BitVec.toNat_setWidth]; have := n.isLt; omega

theorem s32_pattern (n : BitVec 32) : ((sx 64 n) &&& (zx 64 (4294967295#32))).toNat = n.toNat := by
  have hz : (zx 64 (4294967295#32)) = 4294967295#64 := by decide
  rw [hz, BitVec.toNat_and]
  have : (4294967295#64).toNat = 2 ^ 32 - 1 := by decide
  rw [this, Nat.and_two_pow_sub_one_eq_mod]
  simp only [sx, BitVec.toNat_signExtend]
  have := n.isLt
  by_cases hm : n.msb <;> simp [hm] <;> omega

theorem gen_varint_encode_u32 (fuel : Nat) (mem : List (BitVec 8)) (size used off : BitVec 64) (n : BitVec 32)
    (hf : 10 ≤ fuel) (hused : used.toNat ≤ size.toNat)
    (hfit : off.toNat + (encode n.toNat).length ≤ mem.length) (hsmall : mem.length < 2 ^ 63) :
    Ufw.Gen.VarintLoops.varint_encode_u32 fuel mem size used off n = encodeBufSpec mem size used off MAX32 n.toNat := by
  unfold Ufw.Gen.VarintLoops.varint_encode_u32
  have := typed_shape fuel mem size used off (zx 64 (n &&& (4294967295#32))) 5#32 hf hused (by rw [u32_pattern]; exact hfit) hsmall
  rw [u32_pattern] at this
  exact this

theorem gen_varint_encode_s32 (fuel : Nat) (undef : Nat → BitVec 64) (mem : List (BitVec 8)) (size used off : BitVec 64) (n : BitVec 32)
    (hf : 10 ≤ fuel) (hused : used.toNat ≤ size.toNat)
    (hfit : off.toNat + (encode n.toNat).length ≤ mem.length) (hsmall : mem.length < 2 ^ 63) :
    Ufw.Gen.VarintLoops.varint_encode_s32 fuel undef mem size used off n = encodeBufSpec mem size used off MAX32 n.toNat := by
  unfold Ufw.Gen.VarintLoops.varint_encode_s32
  have := typed_shape fuel mem size used off ((sx 64 n) &&& (zx 64 (4294967295#32))) 5#32 hf hused (by rw [s32_pattern]; exact hfit) hsmall
  rw [s32_pattern] at this
  exact this

/-- `encodeBufSpec` is the model's `varint_encode_buf` on a buffer object with these pieces -/
theorem encodeBufSpec_model (b : Ufw.Model.ByteBuffer.ByteBuffer) (size used off : BitVec 64) (maxo v : Nat)
    (hs : b.size = size.toNat) (hu : b.used = used.toNat) (ho : b.offset = off.toNat) :
    encodeBufSpec b.mem size used off maxo v =
      match varint_encode_buf b maxo v with
      | (.err .einval, _) => Res.val (- (22#32), b.mem, used)
      | (.ok k, b') => Res.val (BitVec.ofNat 32 k, b'.mem, BitVec.ofNat 64 b'.used)
      | _ => Res.oob := by
  unfold encodeBufSpec varint_encode_buf Ufw.Model.ByteBuffer.byte_buffer_avail
  rw [hs, hu, ho]
  by_cases h : size.toNat - used.toNat < maxo
  · simp only [h, if_true]
  · simp only [h, if_false]
    cases Ufw.Model.ByteBuffer.writeAt b.mem off.toNat (encode v) <;> rfl

example : Ufw.Gen.VarintLoops.varint_encode_u64 12 (List.replicate 12 0#8) 12#64 0#64 0#64 300#64
    = Res.val (2#32, [0xac#8, 0x02#8] ++ List.replicate 10 0#8, 2#64) := by decide
example : Ufw.Gen.VarintLoops.varint_encode_u64 12 (List.replicate 12 0#8) 12#64 3#64 0#64 300#64
    = Res.val (- (22#32), List.replicate 12 0#8, 3#64) := by decide

end Ufw.Tie.VarintLoops
