/-
Tie A (C14): the typed entry points of src/variable-length-integer.c as clang reads them - the four buffer decoders,
the four source decoders, the four length queries - are the model's typed functions: the 64-bit cell of the core
function is handed to the caller whole (64-bit types) or masked to 32 bits (32-bit types; the signed variants hand on
the same bits), the return value and the read mark / the source are the core function's.
-/
import Ufw.Tie.VarintLoops.Decode
import Ufw.Tie.VarintLoops.FromSource
import Ufw.Tie.VarintLoops.Length
namespace Ufw.Tie.VarintLoops
open Ufw.Tie.CPre Ufw.Model.Varint

theorem mask32 (x : BitVec 64) : (tr 32 (x &&& (zx 64 (4294967295#32))) : BitVec 32) = BitVec.ofNat 32 x.toNat := by
  have h : (zx 64 (4294967295#32)) = 0xffffffff#64 := by decide
  rw [h]
  apply BitVec.eq_of_toNat_eq
  simp only [tr, BitVec.toNat_setWidth, BitVec.toNat_and, BitVec.toNat_ofNat]
  have : x.toNat &&& 4294967295 = x.toNat % 4294967296 := Nat.and_two_pow_sub_one_eq_mod x.toNat 32
  simp [this]

theorem five : (zx 64 (5#32)) = 5#64 := by decide
theorem ten : (zx 64 (10#32)) = 10#64 := by decide

/-- what a typed buffer decoder hands back for a verdict of the model (the value already reduced to the type) -/
def AgreesT (w : Nat) (off : BitVec 64) (d : Dec) (r : Res (BitVec 32 × BitVec 64 × List (BitVec w))) : Prop :=
  match d with
  | .ok v c => r = Res.val (BitVec.ofNat 32 c, off + BitVec.ofNat 64 c, [BitVec.ofNat w v])
  | .err .enodata => ∃ j, r = Res.val (-(61#32), off, [j])
  | .err .eilseq => ∃ j, r = Res.val (-(84#32), off, [j])
  | _ => False

/-- `varint_decode_u64(b, n)` (and, bit for bit, `varint_decode_s64`) -/
theorem gen_varint_decode_u64 (fuel : Nat) (undef : Nat → BitVec 64) (mem : List (BitVec 8)) (size off : BitVec 64)
    (cell : BitVec 64) (hsize : size.toNat = mem.length) (hf : 10 < fuel) :
    AgreesT 64 off (varint_decode_u64 mem off.toNat)
      (Ufw.Gen.VarintLoops.varint_decode_u64 fuel undef mem size off [cell]) := by
  unfold Ufw.Gen.VarintLoops.varint_decode_u64 varint_decode_u64
  simp only []
  rw [ten]
  have hag := gen_varint_decode fuel mem size off 10#64 (tr 64 (undef 0)) hsize (by decide)
    (by have : (10#64).toNat = 10 := by decide
        omega)
  have h10 : (10#64).toNat = MAX64 := by decide
  rw [h10] at hag
  cases hd : varint_decode mem off.toNat MAX64 with
  | ok v c =>
    rw [hd] at hag
    unfold Agrees at hag; simp only [] at hag
    rw [hag, Res.bind_val]
    simp only [cellOf, List.headD_cons]
    rw [store_in [cell] 0 _ _ (by simp)]
    rfl
  | err e =>
    rw [hd] at hag
    unfold Agrees at hag
    cases e <;> simp only [] at hag <;> first
      | exact hag.elim
      | (obtain ⟨j, hj⟩ := hag
         rw [hj, Res.bind_val]
         simp only [cellOf, List.headD_cons]
         rw [store_in [cell] 0 _ _ (by simp)]
         exact ⟨_, rfl⟩)
  | oob => rw [hd] at hag; exact hag.elim

theorem gen_varint_decode_s64 (fuel : Nat) (undef : Nat → BitVec 64) (mem : List (BitVec 8)) (size off : BitVec 64)
    (cell : BitVec 64) (hsize : size.toNat = mem.length) (hf : 10 < fuel) :
    AgreesT 64 off (varint_decode_u64 mem off.toNat)
      (Ufw.Gen.VarintLoops.varint_decode_s64 fuel undef mem size off [cell]) :=
  gen_varint_decode_u64 fuel undef mem size off cell hsize hf

/-- `varint_decode_u32(b, n)`: the value masked to 32 bits -/
theorem gen_varint_decode_u32 (fuel : Nat) (undef : Nat → BitVec 64) (mem : List (BitVec 8)) (size off : BitVec 64)
    (cell : BitVec 32) (hsize : size.toNat = mem.length) (hf : 10 < fuel) :
    AgreesT 32 off (varint_decode_u32 mem off.toNat)
      (Ufw.Gen.VarintLoops.varint_decode_u32 fuel undef mem size off [cell]) := by
  unfold Ufw.Gen.VarintLoops.varint_decode_u32 varint_decode_u32
  simp only []
  rw [five]
  have hag := gen_varint_decode fuel mem size off 5#64 (tr 64 (undef 0)) hsize (by decide)
    (by have : (5#64).toNat = 5 := by decide
        omega)
  have h5 : (5#64).toNat = MAX32 := by decide
  rw [h5] at hag
  cases hd : varint_decode mem off.toNat MAX32 with
  | ok v c =>
    rw [hd] at hag
    unfold Agrees at hag; simp only [] at hag
    rw [hag, Res.bind_val]
    simp only [cellOf, List.headD_cons, Dec.map]
    rw [store_in [cell] 0 _ _ (by simp), mask32]
    unfold AgreesT u32
    simp only [List.set_cons_zero]
    have : BitVec.ofNat 32 (BitVec.ofNat 64 v).toNat = BitVec.ofNat 32 (v % 2 ^ 32) := by
      apply BitVec.eq_of_toNat_eq
      simp
    rw [this]
  | err e =>
    rw [hd] at hag
    unfold Agrees at hag
    cases e <;> simp only [] at hag <;> first
      | exact hag.elim
      | (obtain ⟨j, hj⟩ := hag
         rw [hj, Res.bind_val]
         simp only [cellOf, List.headD_cons, Dec.map]
         rw [store_in [cell] 0 _ _ (by simp)]
         exact ⟨_, rfl⟩)
  | oob => rw [hd] at hag; exact hag.elim

/-- `varint_u32_length(n)`, `varint_s32_length(n)` (the same bits), `varint_s64_length(n)`: the length of the 64-bit
    pattern the value is widened to -/
theorem gen_varint_u32_length (fuel : Nat) (n : BitVec 32) (hf : 10 ≤ fuel) :
    Ufw.Gen.VarintLoops.varint_u32_length fuel n = Res.val (BitVec.ofNat 64 (varint_u64_length n.toNat)) := by
  unfold Ufw.Gen.VarintLoops.varint_u32_length
  rw [gen_varint_u64_length fuel _ hf, Res.bind_val]
  have : (zx 64 n).toNat = n.toNat := by
    have := n.isLt; simp [zx]; omega
  rw [this]

theorem gen_varint_s32_length (fuel : Nat) (undef : Nat → BitVec 64) (n : BitVec 32) (hf : 10 ≤ fuel) :
    Ufw.Gen.VarintLoops.varint_s32_length fuel undef n = Res.val (BitVec.ofNat 64 (varint_u64_length n.toNat)) := by
  unfold Ufw.Gen.VarintLoops.varint_s32_length
  simp only []
  rw [gen_varint_u64_length fuel _ hf, Res.bind_val]
  have : (zx 64 n).toNat = n.toNat := by
    have := n.isLt; simp [zx]; omega
  rw [this]

theorem gen_varint_s64_length (fuel : Nat) (undef : Nat → BitVec 64) (n : BitVec 64) (hf : 10 ≤ fuel) :
    Ufw.Gen.VarintLoops.varint_s64_length fuel undef n = Res.val (BitVec.ofNat 64 (varint_u64_length n.toNat)) := by
  unfold Ufw.Gen.VarintLoops.varint_s64_length
  simp only []
  rw [gen_varint_u64_length fuel _ hf, Res.bind_val]

/-- what a typed source decoder hands back for a verdict of the model: the caller's variable is written only on success -/
def AgreesST (w : Nat) (tail : Src) (input : List (BitVec 8)) (maxo : Nat) (cell : BitVec w) (d : Dec)
    (r : Res (BitVec 32 × Src × List (BitVec w))) : Prop :=
  match d with
  | .ok v c => r = Res.val (BitVec.ofNat 32 c, octets (input.drop c) ++ tail, [BitVec.ofNat w v])
  | .err .eilseq => r = Res.val (-(84#32), octets (input.drop maxo) ++ tail, [cell])
  | .err .enodata => r = Res.val (tailRc tail, tailRest tail, [cell])
  | _ => False

theorem ofNat32_nonneg (c : Nat) (h : c ≤ 10) : (BitVec.ofNat 32 c).toInt ≥ (0#32).toInt := by
  have : c = 0 ∨ c = 1 ∨ c = 2 ∨ c = 3 ∨ c = 4 ∨ c = 5 ∨ c = 6 ∨ c = 7 ∨ c = 8 ∨ c = 9 ∨ c = 10 := by omega
  rcases this with h | h | h | h | h | h | h | h | h | h | h <;> subst h <;> decide

theorem tailRc_neg (tail : Src) (ht : TailOk tail) : ¬ (tailRc tail).toInt ≥ (0#32).toInt := by
  have z : (0#32).toInt = 0 := by decide
  rw [z]
  rcases ht with h | ⟨rc, rest, h, hneg⟩
  · subst h; decide
  · subst h; simp only [tailRc]; omega

/-- the count the model reports never exceeds the fuel it was given -/
theorem sourceLoop_ok_le (e : Err) : ∀ (input : List (BitVec 8)) (fuel i acc v c : Nat),
    sourceLoop e input fuel i acc = .ok v c → c ≤ i + fuel := by
  intro input
  induction input with
  | nil => intro fuel i acc v c h; cases fuel <;> simp [sourceLoop] at h
  | cons d rest ih =>
    intro fuel i acc v c h
    cases fuel with
    | zero => simp [sourceLoop] at h
    | succ fuel =>
      unfold sourceLoop at h
      simp only [] at h
      by_cases hd : varint_done d = true
      · rw [if_pos hd] at h; cases h; omega
      · rw [if_neg hd] at h; have := ih _ _ _ _ _ h; omega

/-- `varint_u64_from_source(source, n)` (and, bit for bit, `varint_s64_from_source`) -/
theorem gen_varint_u64_from_source (fuel : Nat) (undef : Nat → BitVec 64) (tail : Src) (ht : TailOk tail)
    (input : List (BitVec 8)) (cell : BitVec 64) (hf : 10 < fuel) :
    AgreesST 64 tail input 10 cell (varint_u64_from_source .enodata input)
      (Ufw.Gen.VarintLoops.varint_u64_from_source fuel undef (octets input ++ tail) [cell]) := by
  unfold Ufw.Gen.VarintLoops.varint_u64_from_source varint_u64_from_source
  simp only []
  rw [ten]
  have hag := gen_varint_from_source fuel undef tail ht input 10#64 (tr 64 (undef 0)) (by decide)
    (by have : (10#64).toNat = 10 := by decide
        omega)
  have h10 : (10#64).toNat = MAX64 := by decide
  rw [h10] at hag
  cases hd : varint_from_source .enodata input MAX64 with
  | ok v c =>
    rw [hd] at hag
    unfold AgreesS at hag; simp only [] at hag
    have hc : c ≤ 10 := by
      have := sourceLoop_ok_le .enodata input MAX64 0 0 v c hd
      simpa [MAX64] using this
    rw [hag, Res.bind_val]
    simp only [cellOf, List.headD_cons, ofNat32_nonneg c hc, if_true]
    rw [store_in [cell] 0 _ _ (by simp)]
    unfold AgreesST
    simp
  | err e =>
    rw [hd] at hag
    unfold AgreesS at hag
    cases e <;> simp only [] at hag <;> first
      | exact hag.elim
      | (obtain ⟨j, hj⟩ := hag
         rw [hj, Res.bind_val]
         have n84 : ¬ (-(84#32) : BitVec 32).toInt ≥ (0#32).toInt := by decide
         simp only [cellOf, List.headD_cons, n84, tailRc_neg tail ht, if_false]
         unfold AgreesST
         simp [MAX64])
  | oob => rw [hd] at hag; exact hag.elim

/-- `varint_u32_from_source(source, n)`: the value masked to 32 bits, written only on success -/
theorem gen_varint_u32_from_source (fuel : Nat) (undef : Nat → BitVec 64) (tail : Src) (ht : TailOk tail)
    (input : List (BitVec 8)) (cell : BitVec 32) (hf : 10 < fuel) :
    AgreesST 32 tail input 5 cell (varint_u32_from_source .enodata input)
      (Ufw.Gen.VarintLoops.varint_u32_from_source fuel undef (octets input ++ tail) [cell]) := by
  unfold Ufw.Gen.VarintLoops.varint_u32_from_source varint_u32_from_source
  simp only []
  rw [five]
  have hag := gen_varint_from_source fuel undef tail ht input 5#64 (tr 64 (undef 0)) (by decide)
    (by have : (5#64).toNat = 5 := by decide
        omega)
  have h5 : (5#64).toNat = MAX32 := by decide
  rw [h5] at hag
  cases hd : varint_from_source .enodata input MAX32 with
  | ok v c =>
    rw [hd] at hag
    unfold AgreesS at hag; simp only [] at hag
    have hc : c ≤ 10 := by
      have := sourceLoop_ok_le .enodata input MAX32 0 0 v c hd
      simp [MAX32] at this; omega
    rw [hag, Res.bind_val]
    simp only [cellOf, List.headD_cons, ofNat32_nonneg c hc, if_true, Dec.map]
    rw [store_in [cell] 0 _ _ (by simp), mask32]
    unfold AgreesST u32
    have : BitVec.ofNat 32 (BitVec.ofNat 64 v).toNat = BitVec.ofNat 32 (v % 2 ^ 32) := by
      apply BitVec.eq_of_toNat_eq
      simp
    rw [this]
    simp
  | err e =>
    rw [hd] at hag
    unfold AgreesS at hag
    cases e <;> simp only [] at hag <;> first
      | exact hag.elim
      | (obtain ⟨j, hj⟩ := hag
         rw [hj, Res.bind_val]
         have n84 : ¬ (-(84#32) : BitVec 32).toInt ≥ (0#32).toInt := by decide
         simp only [cellOf, List.headD_cons, n84, tailRc_neg tail ht, if_false, Dec.map]
         unfold AgreesST
         simp [MAX32])
  | oob => rw [hd] at hag; exact hag.elim

end Ufw.Tie.VarintLoops
