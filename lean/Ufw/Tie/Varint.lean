/-
Tie A (C14): the varint masks and length limits of the current source are those of the model
and of LEB128 (7 data bits per octet, continuation bit 0x80, 5 / 10 octets at most).
-/
import Ufw.Gen.Constants
import Ufw.Model.Varint
namespace Ufw.Tie.Varint
open Ufw.Gen.Constants

theorem const_model :
    Ufw.Model.Varint.CONT = VARINT_CONTINUATION_MASK ∧ Ufw.Model.Varint.DMASK = VARINT_DATA_MASK ∧
    Ufw.Model.Varint.DBITS = VARINT_DATA_BITS ∧ Ufw.Model.Varint.MAX32 = VARINT_32BIT_MAX_OCTETS ∧
    Ufw.Model.Varint.MAX64 = VARINT_64BIT_MAX_OCTETS := by decide

/-- the limits are exactly what 32 / 64 bits need at 7 bits per octet -/
theorem const_leb128 :
    VARINT_DATA_MASK = 2 ^ VARINT_DATA_BITS - 1 ∧ VARINT_CONTINUATION_MASK = 2 ^ VARINT_DATA_BITS ∧
    VARINT_32BIT_MAX_OCTETS = (32 + VARINT_DATA_BITS - 1) / VARINT_DATA_BITS ∧
    VARINT_64BIT_MAX_OCTETS = (64 + VARINT_DATA_BITS - 1) / VARINT_DATA_BITS := by decide

end Ufw.Tie.Varint
