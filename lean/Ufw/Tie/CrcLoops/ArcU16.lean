/-
Tie A (C16): the word loop of `ufw_crc16_arc_u16` (SYSTEM_ENDIANNESS_LITTLE branch, the one clang sees with the
shipped configuration) is the model's fold of `wordStepLE`.
-/
import Ufw.Tie.CrcLoops.Octet
import Ufw.Model.Crc
namespace Ufw.Tie.CrcLoops
open Ufw.Tie.CPre

theorem low_eq (w : BitVec 16) : tr 8 ((zx 32 w) &&& (255#32)) = (w &&& 0xff#16).truncate 8 := by
  simp only [tr, zx, BitVec.truncate]; bv_decide

theorem high_eq (w : BitVec 16) :
    tr 8 ((BitVec.sshiftRight (zx 32 w) 8) &&& (255#32)) = ((w >>> 8) &&& 0xff#16).truncate 8 := by
  simp only [tr, zx, BitVec.truncate]; bv_decide

theorem loop1_u16_spec (mem : List (BitVec 16)) :
    ∀ (fuel : Nat) (crc : BitVec 16) (buffer : Nat) (len : BitVec 64),
      buffer + len.toNat = mem.length → len.toNat < fuel →
      Ufw.Gen.CrcLoops.ufw_crc16_arc_u16.loop1 mem fuel crc buffer len
        = Res.val ((mem.drop buffer).foldl Ufw.Model.Crc.wordStepLE crc) := by
  intro fuel
  induction fuel with
  | zero => intro _ _ _ _ h; omega
  | succ fuel ih =>
    intro crc buffer len hlen hfuel
    unfold Ufw.Gen.CrcLoops.ufw_crc16_arc_u16.loop1
    rw [sx0]
    by_cases hn : len.toNat > 0
    · rw [if_pos hn]
      have hb : buffer < mem.length := by omega
      have h8 : (8#32).toNat = 8 := by decide
      rw [load_some mem buffer _ mem[buffer] (List.getElem?_eq_getElem hb), gen_crc16_octet, Res.bind_val]
      rw [load_some mem buffer _ mem[buffer] (List.getElem?_eq_getElem hb), gen_crc16_octet, Res.bind_val]
      have hn1 : (len - 1#64).toNat = len.toNat - 1 := by
        rw [BitVec.toNat_sub]; have := len.isLt; simp; omega
      rw [ih _ (buffer + 1) (len - 1#64) (by omega) (by omega)]
      rw [List.drop_eq_getElem_cons hb, List.foldl_cons, h8, low_eq, high_eq]
      rfl
    · rw [if_neg hn]
      have : mem.drop buffer = [] := List.drop_eq_nil_of_le (by omega)
      rw [this]; rfl

/-- `ufw_crc16_arc_u16(crc, buffer, len)` on a block of `len` words, little-endian host -/
theorem gen_ufw_crc16_arc_u16 (fuel : Nat) (crc : BitVec 16) (mem : List (BitVec 16)) (len : BitVec 64)
    (hlen : len.toNat = mem.length) (hfuel : mem.length < fuel) :
    Ufw.Gen.CrcLoops.ufw_crc16_arc_u16 fuel crc mem len = Res.val (Ufw.Model.Crc.ufw_crc16_arc_u16 false crc mem) := by
  unfold Ufw.Gen.CrcLoops.ufw_crc16_arc_u16 Ufw.Model.Crc.ufw_crc16_arc_u16
  simp only []
  rw [loop1_u16_spec mem fuel crc 0 len (by omega) (by omega)]
  rfl

end Ufw.Tie.CrcLoops
