import Ufw.Tie.CrcLoops.ArcU16
namespace Ufw.Tie.CrcLoops
open Ufw.Tie.CPre

/-- `ufw_buffer_crc16_arc_u16(buffer, len)`: the start value is `CRC16_ARC_INITIAL` -/
theorem gen_ufw_buffer_crc16_arc_u16 (fuel : Nat) (mem : List (BitVec 16)) (len : BitVec 64)
    (hlen : len.toNat = mem.length) (hfuel : mem.length < fuel) :
    Ufw.Gen.CrcLoops.ufw_buffer_crc16_arc_u16 fuel mem len
      = Res.val (Ufw.Model.Crc.ufw_crc16_arc_u16 false Ufw.Gen.CrcTable.CRC16_ARC_INITIAL mem) := by
  unfold Ufw.Gen.CrcLoops.ufw_buffer_crc16_arc_u16
  simp only [List.drop_zero]
  rw [gen_ufw_crc16_arc_u16 fuel _ mem len hlen hfuel, Res.bind_val]
  rfl

end Ufw.Tie.CrcLoops
