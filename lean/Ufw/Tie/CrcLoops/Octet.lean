/-
Tie A (C16): `crc16_octet` and `crc16_table` as clang reads them (Gen/CrcLoops, all integer promotions explicit)
are the 16-bit definitions the model and the proofs use (Gen/CrcTable).
-/
import Std.Tactic.BVDecide
import Ufw.Gen.CrcLoops
import Ufw.Gen.CrcTable
namespace Ufw.Tie.CrcLoops
open Ufw.Tie.CPre

theorem table_eq : Ufw.Gen.CrcLoops.crc16_table = Ufw.Gen.CrcTable.table := by rfl

theorem index_eq (crc : BitVec 16) (data : BitVec 8) :
    (((zx 32 crc) ^^^ ((zx 32 data) &&& (255#32))) &&& (255#32)).toNat
      = ((crc ^^^ (BitVec.zeroExtend 16 data &&& 0xff#16)) &&& 0xff#16).toNat := by
  have h : (((zx 32 crc) ^^^ ((zx 32 data) &&& (255#32))) &&& (255#32))
      = BitVec.zeroExtend 32 ((crc ^^^ (BitVec.zeroExtend 16 data &&& 0xff#16)) &&& 0xff#16) := by
    simp only [zx]; bv_decide
  rw [h]
  generalize ((crc ^^^ (BitVec.zeroExtend 16 data &&& 0xff#16)) &&& 0xff#16) = x
  have := x.isLt
  simp only [BitVec.zeroExtend, BitVec.toNat_setWidth]
  omega

theorem index_lt (crc : BitVec 16) (data : BitVec 8) :
    ((crc ^^^ (BitVec.zeroExtend 16 data &&& 0xff#16)) &&& 0xff#16).toNat < 256 := by
  have h : ((crc ^^^ (BitVec.zeroExtend 16 data &&& 0xff#16)) &&& 0xff#16) < 256#16 := by bv_decide
  exact h

theorem combine_eq (crc t : BitVec 16) :
    tr 16 ((BitVec.sshiftRight (zx 32 crc) 8) ^^^ (zx 32 t)) = (crc >>> 8) ^^^ t := by
  simp only [tr, zx]; bv_decide

theorem sx0 : (sx 64 (0#32)).toNat = 0 := by decide

theorem gen_crc16_octet (fuel : Nat) (crc : BitVec 16) (data : BitVec 8) :
    Ufw.Gen.CrcLoops.crc16_octet fuel crc data = Res.val (Ufw.Gen.CrcTable.crc16_octet crc data) := by
  unfold Ufw.Gen.CrcLoops.crc16_octet Ufw.Gen.CrcTable.crc16_octet Ufw.Gen.CrcTable.tableAt
  have hl := index_lt crc data
  have hlen : Ufw.Gen.CrcTable.table.length = 256 := by decide +kernel
  rw [Nat.zero_add, index_eq, table_eq]
  have hs : Ufw.Gen.CrcTable.table[((crc ^^^ (BitVec.zeroExtend 16 data &&& 0xff#16)) &&& 0xff#16).toNat]?
      = some (Ufw.Gen.CrcTable.table[((crc ^^^ (BitVec.zeroExtend 16 data &&& 0xff#16)) &&& 0xff#16).toNat]'(by omega)) :=
    List.getElem?_eq_getElem (by omega)
  rw [load_some _ _ _ _ hs, hs]
  simp only [Option.getD_some]
  have h8 : (8#32).toNat = 8 := by decide
  rw [h8, combine_eq]

end Ufw.Tie.CrcLoops
