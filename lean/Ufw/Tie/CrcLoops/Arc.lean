/-
Tie A (C16): the `while (n > 0)` loop of `ufw_crc16_arc` as clang reads it, run with enough fuel on a block of
exactly `n` octets, ends with the value of the model's fold - and never leaves the block.
-/
import Ufw.Tie.CrcLoops.Octet
import Ufw.Model.Crc
namespace Ufw.Tie.CrcLoops
open Ufw.Tie.CPre

theorem loop1_spec (mem : List (BitVec 8)) :
    ∀ (fuel : Nat) (crc : BitVec 16) (buffer : Nat) (n : BitVec 64) (src : Nat),
      src + n.toNat = mem.length → n.toNat < fuel →
      Ufw.Gen.CrcLoops.ufw_crc16_arc.loop1 mem fuel crc buffer n src
        = Res.val ((mem.drop src).foldl Ufw.Gen.CrcTable.crc16_octet crc) := by
  intro fuel
  induction fuel with
  | zero => intro _ _ _ _ _ h; omega
  | succ fuel ih =>
    intro crc buffer n src hlen hfuel
    unfold Ufw.Gen.CrcLoops.ufw_crc16_arc.loop1
    rw [sx0]
    by_cases hn : n.toNat > 0
    · rw [if_pos hn]
      have hsrc : src < mem.length := by omega
      rw [load_some mem src _ mem[src] (List.getElem?_eq_getElem hsrc), gen_crc16_octet, Res.bind_val]
      have hn1 : (n - 1#64).toNat = n.toNat - 1 := by
        rw [BitVec.toNat_sub]; have := n.isLt; simp; omega
      rw [ih _ buffer (n - 1#64) (src + 1) (by omega) (by omega)]
      rw [List.drop_eq_getElem_cons hsrc, List.foldl_cons]
    · rw [if_neg hn]
      have : mem.drop src = [] := List.drop_eq_nil_of_le (by omega)
      rw [this]; rfl

/-- `ufw_crc16_arc(crc, buffer, n)` on a block of `n` octets -/
theorem gen_ufw_crc16_arc (fuel : Nat) (crc : BitVec 16) (mem : List (BitVec 8)) (n : BitVec 64)
    (hlen : n.toNat = mem.length) (hfuel : mem.length < fuel) :
    Ufw.Gen.CrcLoops.ufw_crc16_arc fuel crc mem n = Res.val (Ufw.Model.Crc.ufw_crc16_arc crc mem) := by
  unfold Ufw.Gen.CrcLoops.ufw_crc16_arc Ufw.Model.Crc.ufw_crc16_arc
  simp only []
  rw [loop1_spec mem fuel crc 0 n 0 (by omega) (by omega)]
  rfl

/-- a count beyond the block is an access outside it: the function reads exactly `n` octets -/
theorem gen_ufw_crc16_arc_oob (fuel : Nat) (crc : BitVec 16) (mem : List (BitVec 8)) (n : BitVec 64)
    (hlen : mem.length < n.toNat) (hfuel : mem.length < fuel) :
    Ufw.Gen.CrcLoops.ufw_crc16_arc fuel crc mem n = Res.oob := by
  unfold Ufw.Gen.CrcLoops.ufw_crc16_arc
  simp only []
  suffices h : ∀ (fuel : Nat) (crc : BitVec 16) (n : BitVec 64) (src : Nat), src ≤ mem.length →
      mem.length < src + n.toNat → mem.length - src < fuel →
      Ufw.Gen.CrcLoops.ufw_crc16_arc.loop1 mem fuel crc 0 n src = Res.oob from h fuel crc n 0 (by omega) (by omega) (by omega)
  intro fuel
  induction fuel with
  | zero => intro _ _ _ _ _ h; omega
  | succ fuel ih =>
    intro crc n src hs hn hf
    unfold Ufw.Gen.CrcLoops.ufw_crc16_arc.loop1
    rw [sx0, if_pos (by omega)]
    by_cases hsrc : src < mem.length
    · rw [load_some mem src _ mem[src] (List.getElem?_eq_getElem hsrc), gen_crc16_octet, Res.bind_val]
      have hn1 : (n - 1#64).toNat = n.toNat - 1 := by
        rw [BitVec.toNat_sub]; have := n.isLt; simp; omega
      exact ih _ (n - 1#64) (src + 1) (by omega) (by omega) (by omega)
    · exact load_none mem src _ (by omega)

end Ufw.Tie.CrcLoops
