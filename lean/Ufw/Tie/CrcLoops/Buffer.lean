import Ufw.Tie.CrcLoops.Arc
namespace Ufw.Tie.CrcLoops
open Ufw.Tie.CPre

/-- `ufw_buffer_crc16_arc(buffer, len)`: the start value is `CRC16_ARC_INITIAL` -/
theorem gen_ufw_buffer_crc16_arc (fuel : Nat) (mem : List (BitVec 8)) (len : BitVec 64)
    (hlen : len.toNat = mem.length) (hfuel : mem.length < fuel) :
    Ufw.Gen.CrcLoops.ufw_buffer_crc16_arc fuel mem len = Res.val (Ufw.Model.Crc.ufw_buffer_crc16_arc mem) := by
  unfold Ufw.Gen.CrcLoops.ufw_buffer_crc16_arc Ufw.Model.Crc.ufw_buffer_crc16_arc
  simp only [List.drop_zero]
  rw [gen_ufw_crc16_arc fuel _ mem len hlen hfuel, Res.bind_val]
  rfl

end Ufw.Tie.CrcLoops
