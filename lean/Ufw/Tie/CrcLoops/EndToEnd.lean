/-
C16 stated over the translated C itself: the property theorems (`crc_eq_spec`, `crc_append`, `crc_u16_eq_octets`)
carried through the tie to `Ufw.Gen.CrcLoops.ufw_crc16_arc` / `ufw_crc16_arc_u16` - the text clang read from
src/crc-16-arc.c on this run.
-/
import Ufw.Tie.CrcLoops.Arc
import Ufw.Tie.CrcLoops.ArcU16
import Ufw.Props.C16
namespace Ufw.Tie.CrcLoops
open Ufw.Tie.CPre

/-- the translated octet function computes the bit-by-bit CRC-16/ARC remainder of the spec, for every start value
    and every buffer -/
theorem c_crc_eq_spec (fuel : Nat) (crc : BitVec 16) (mem : List (BitVec 8)) (n : BitVec 64)
    (hlen : n.toNat = mem.length) (hfuel : mem.length < fuel) :
    Ufw.Gen.CrcLoops.ufw_crc16_arc fuel crc mem n = Res.val (Ufw.Spec.Crc.crc crc mem) := by
  rw [gen_ufw_crc16_arc fuel crc mem n hlen hfuel, Ufw.Props.C16.crc_eq_spec]

/-- checksumming a concatenation with the translated function = continuing its checksum of the first part over the
    second -/
theorem c_crc_append (fuel : Nat) (crc : BitVec 16) (a b : List (BitVec 8)) (n na nb : BitVec 64)
    (hn : n.toNat = (a ++ b).length) (hna : na.toNat = a.length) (hnb : nb.toNat = b.length) (hfuel : (a ++ b).length < fuel) :
    Ufw.Gen.CrcLoops.ufw_crc16_arc fuel crc (a ++ b) n
      = Res.bind (Ufw.Gen.CrcLoops.ufw_crc16_arc fuel crc a na) fun c => Ufw.Gen.CrcLoops.ufw_crc16_arc fuel c b nb := by
  have ha : a.length < fuel := by simp at hfuel; omega
  have hb : b.length < fuel := by simp at hfuel; omega
  rw [gen_ufw_crc16_arc fuel crc (a ++ b) n hn hfuel, gen_ufw_crc16_arc fuel crc a na hna ha, Res.bind_val,
    gen_ufw_crc16_arc fuel _ b nb hnb hb, Ufw.Props.C16.crc_append]

/-- the translated word function over a word buffer = the translated octet function over the words' in-memory image
    (little-endian host, the branch clang sees) -/
theorem c_crc_u16_eq_octets (fuel : Nat) (crc : BitVec 16) (ws : List (BitVec 16)) (n no : BitVec 64)
    (hn : n.toNat = ws.length) (hno : no.toNat = (ws.flatMap (Ufw.Model.Crc.wordImage false)).length)
    (hfuel : (ws.flatMap (Ufw.Model.Crc.wordImage false)).length < fuel) (hfuel2 : ws.length < fuel) :
    Ufw.Gen.CrcLoops.ufw_crc16_arc_u16 fuel crc ws n
      = Ufw.Gen.CrcLoops.ufw_crc16_arc fuel crc (ws.flatMap (Ufw.Model.Crc.wordImage false)) no := by
  rw [gen_ufw_crc16_arc_u16 fuel crc ws n hn hfuel2, gen_ufw_crc16_arc fuel crc _ no hno hfuel,
    Ufw.Props.C16.crc_u16_eq_octets]

end Ufw.Tie.CrcLoops
