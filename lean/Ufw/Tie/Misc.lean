/-
Tie A (C16, C17, C13): checksum start value, SSIZE_MAX, the length-prefix kind numbering.
-/
import Ufw.Gen.Constants
import Ufw.Model.Endpoints
namespace Ufw.Tie.Misc
open Ufw.Gen.Constants

theorem const_ssize_max : Ufw.Model.Endpoints.SSIZE_MAX = SSIZE_MAX_ ∧ SIZE_MAX_ = 2 ^ 64 - 1 ∧ UINT32_MAX_ = 2 ^ 32 - 1 := by
  decide

theorem const_crc_initial : CRC16_ARC_INITIAL = 0 := by decide

theorem const_lenp_kinds : LENP_VARIABLE = 0 ∧ LENP_OCTET = 1 ∧ LENP_LE_16BIT = 2 ∧ LENP_LE_32BIT = 3 ∧
    LENP_BE_16BIT = 4 ∧ LENP_BE_32BIT = 5 := by decide

end Ufw.Tie.Misc
