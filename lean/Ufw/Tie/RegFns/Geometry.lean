/-
Tie A (C02, C03, C04): the address arithmetic of src/registers/core.c as clang reads it - the functions every block
access, hole test, touched mark and initialisation check is built from - against the natural-number geometry the
hand model (`Ufw.Model.RegTable`) uses.  Addresses and sizes are `uint32_t`; the model's domain is areas and entries
that end inside the address space (`base + size < 2^32`, `address + size(type) < 2^32`: what `register_init`
admits), stated as hypotheses.  The requested window `[addr, addr + n)` of `reg_range_touches` is NOT restricted:
the C code compares distances so that a window reaching beyond the top of the address space is handled, and the
theorem says so.
-/
import Ufw.Gen.RegFns
import Ufw.Model.RegTable
namespace Ufw.Tie.RegFns
open Ufw.Tie.CPre
open Ufw.Model.RegTable

/-- numbering of `RegisterType` (REG_TYPE_UINT16 = 0 ... REG_TYPE_FLOAT64 = 7; REG_TYPE_INVALID = 8) -/
def typeCode : RType → BitVec 32
  | .u16 => 0#32 | .u32 => 1#32 | .u64 => 2#32 | .s16 => 3#32 | .s32 => 4#32 | .s64 => 5#32 | .f32 => 6#32 | .f64 => 7#32

/-- the table `rds_size`, entry by entry, is the model's `RType.size`; REG_TYPE_INVALID has size 0 and nothing lies behind it -/
theorem gen_rds_size (t : RType) : Ufw.Gen.RegFns.rds_size[(typeCode t).toNat]? = some (BitVec.ofNat 64 t.size) := by
  cases t <;> rfl

theorem rds_size_invalid : Ufw.Gen.RegFns.rds_size[8]? = some 0#64 ∧ Ufw.Gen.RegFns.rds_size.length = 9 := by
  exact ⟨rfl, rfl⟩

theorem size_lt (t : RType) : t.size ≤ 4 := by cases t <;> decide

/-- `register_entry_size(e)` -/
theorem gen_register_entry_size (fuel : Nat) (t : RType) :
    Ufw.Gen.RegFns.register_entry_size fuel (typeCode t) = Res.val (BitVec.ofNat 64 t.size) := by
  unfold Ufw.Gen.RegFns.register_entry_size
  rw [Nat.zero_add, load_some _ _ _ _ (gen_rds_size t)]

/-- `reg_min` -/
theorem gen_reg_min (fuel : Nat) (a b : BitVec 64) :
    ∃ r, Ufw.Gen.RegFns.reg_min fuel a b = Res.val r ∧ r.toNat = min a.toNat b.toNat := by
  unfold Ufw.Gen.RegFns.reg_min
  by_cases h : a.toNat > b.toNat
  · exact ⟨b, by simp only [h, if_true], by omega⟩
  · exact ⟨a, by simp only [h, if_false], by omega⟩

/-- `ra_addr_is_part_of(a, addr)` is the model's predicate, for every area that ends inside the address space -/
theorem gen_ra_addr_is_part_of (fuel : Nat) (base size addr : BitVec 32) (a : Area)
    (hb : a.base = base.toNat) (hs : a.size = size.toNat) (hfit : base.toNat + size.toNat < 2 ^ 32) :
    Ufw.Gen.RegFns.ra_addr_is_part_of fuel base size addr
      = Res.val (if Ufw.Model.RegTable.ra_addr_is_part_of a addr.toNat then 1#8 else 0#8) := by
  unfold Ufw.Gen.RegFns.ra_addr_is_part_of Ufw.Model.RegTable.ra_addr_is_part_of
  have hsum : (base + size).toNat = base.toNat + size.toNat := by
    rw [BitVec.toNat_add]; exact Nat.mod_eq_of_lt hfit
  rw [hsum, hb, hs]
  by_cases h1 : base.toNat > addr.toNat
  · have : ¬ (base.toNat ≤ addr.toNat) := by omega
    simp [h1, this, b2bv8]
  · by_cases h2 : base.toNat + size.toNat ≤ addr.toNat
    · have h3 : ¬ (addr.toNat < base.toNat + size.toNat) := by omega
      simp [h1, h2, h3, b2bv8]
    · have h3 : addr.toNat < base.toNat + size.toNat := by omega
      have h4 : base.toNat ≤ addr.toNat := by omega
      simp [h1, h2, h3, h4, b2bv8]

/-- `ra_reg_is_part_of(a, e)`: the entry's first address lies in the area -/
theorem gen_ra_reg_is_part_of (fuel : Nat) (base size eaddr : BitVec 32) (a : Area)
    (hb : a.base = base.toNat) (hs : a.size = size.toNat) (hfit : base.toNat + size.toNat < 2 ^ 32) :
    Ufw.Gen.RegFns.ra_reg_is_part_of fuel base size eaddr
      = Res.val (if Ufw.Model.RegTable.ra_addr_is_part_of a eaddr.toNat then 1#8 else 0#8) := by
  unfold Ufw.Gen.RegFns.ra_reg_is_part_of
  rw [gen_ra_addr_is_part_of fuel base size eaddr a hb hs hfit, Res.bind_val]

/-- `ra_reg_fits_into(a, e)`: the entry ends inside the area (the test `register_init` and the model's `locate` make) -/
theorem gen_ra_reg_fits_into (fuel : Nat) (base size eaddr : BitVec 32) (t : RType)
    (hfit : base.toNat + size.toNat < 2 ^ 32) (hefit : eaddr.toNat + t.size < 2 ^ 32) :
    Ufw.Gen.RegFns.ra_reg_fits_into fuel base size (typeCode t) eaddr
      = Res.val (if eaddr.toNat + t.size ≤ base.toNat + size.toNat then 1#8 else 0#8) := by
  unfold Ufw.Gen.RegFns.ra_reg_fits_into
  rw [Nat.zero_add, load_some _ _ _ _ (gen_rds_size t)]
  have hsum : (base + size).toNat = base.toNat + size.toNat := by
    rw [BitVec.toNat_add]; exact Nat.mod_eq_of_lt hfit
  have h4 := size_lt t
  have hend : (tr 32 ((zx 64 eaddr) + BitVec.ofNat 64 t.size)).toNat = eaddr.toNat + t.size := by
    simp only [tr, zx, BitVec.toNat_setWidth, BitVec.toNat_add, BitVec.toNat_ofNat]
    have := eaddr.isLt
    omega
  simp only [hsum, hend]
  by_cases h : eaddr.toNat + t.size ≤ base.toNat + size.toNat
  · simp [h, b2bv8, b2bv32]
  · simp [h, b2bv8, b2bv32]

/-- `reg_range_touches(e, addr, n)`: -1 when the entry lies below the window, 1 when it lies at or above its end,
    0 exactly when entry and window `[addr, addr + n)` share an address - for EVERY window, also one that reaches
    beyond the top of the 32-bit address space (`addr + n ≥ 2^32`): the comparison is made on distances. -/
theorem gen_reg_range_touches (fuel : Nat) (eaddr addr n : BitVec 32) (t : RType) (hefit : eaddr.toNat + t.size < 2 ^ 32) :
    Ufw.Gen.RegFns.reg_range_touches fuel (typeCode t) eaddr addr n
      = Res.val (if eaddr.toNat + t.size ≤ addr.toNat then - (1#32)
                 else if addr.toNat + n.toNat ≤ eaddr.toNat then 1#32 else 0#32) := by
  unfold Ufw.Gen.RegFns.reg_range_touches
  rw [Nat.zero_add, load_some _ _ _ _ (gen_rds_size t)]
  have h4 := size_lt t
  have hsz : (tr 32 (BitVec.ofNat 64 t.size)).toNat = t.size := by
    simp only [tr, BitVec.toNat_setWidth, BitVec.toNat_ofNat]; omega
  have hend : (eaddr + tr 32 (BitVec.ofNat 64 t.size)).toNat = eaddr.toNat + t.size := by
    rw [BitVec.toNat_add, hsz]; exact Nat.mod_eq_of_lt hefit
  simp only [hend]
  by_cases h1 : eaddr.toNat + t.size ≤ addr.toNat
  · simp only [h1, if_true]
  · simp only [h1, if_false]
    by_cases h2 : eaddr.toNat ≥ addr.toNat
    · have hd : (eaddr - addr).toNat = eaddr.toNat - addr.toNat := by
        rw [BitVec.toNat_sub]; have := eaddr.isLt; have := addr.isLt; omega
      rw [hd]
      by_cases h3 : addr.toNat + n.toNat ≤ eaddr.toNat
      · have : eaddr.toNat - addr.toNat ≥ n.toNat := by omega
        simp only [h2, this, and_self, if_true, h3]
      · have : ¬ (eaddr.toNat - addr.toNat ≥ n.toNat) := by omega
        simp only [h2, this, and_false, if_false, h3]
    · have h3 : ¬ (addr.toNat + n.toNat ≤ eaddr.toNat) := by omega
      simp only [h2, false_and, if_false, h3]

/-- the model's overlap test of block write / touched marks is "reg_range_touches = 0" -/
theorem overlap_iff_touches_zero (fuel : Nat) (eaddr addr n : BitVec 32) (t : RType) (hefit : eaddr.toNat + t.size < 2 ^ 32) :
    Ufw.Gen.RegFns.reg_range_touches fuel (typeCode t) eaddr addr n = Res.val 0#32 ↔
      ¬ (eaddr.toNat + t.size ≤ addr.toNat ∨ addr.toNat + n.toNat ≤ eaddr.toNat) := by
  rw [gen_reg_range_touches fuel eaddr addr n t hefit]
  by_cases h1 : eaddr.toNat + t.size ≤ addr.toNat
  · simp only [h1, if_true, true_or, not_true_eq_false, iff_false]
    intro h; injection h with h; exact absurd h (by decide)
  · by_cases h3 : addr.toNat + n.toNat ≤ eaddr.toNat
    · simp only [h1, if_false, h3, if_true, or_true, not_true_eq_false, iff_false]
      intro h; injection h with h; exact absurd h (by decide)
    · simp only [h1, if_false, h3, or_self, not_false_eq_true]

/-- `ra_range_touches(a, addr, n)` for a window that ends inside the address space -/
theorem gen_ra_range_touches (fuel : Nat) (base size addr n : BitVec 32)
    (hfit : base.toNat + size.toNat < 2 ^ 32) (hwin : addr.toNat + n.toNat < 2 ^ 32) :
    Ufw.Gen.RegFns.ra_range_touches fuel base size addr n
      = Res.val (if base.toNat + size.toNat ≤ addr.toNat then - (1#32)
                 else if addr.toNat + n.toNat ≤ base.toNat then 1#32 else 0#32) := by
  unfold Ufw.Gen.RegFns.ra_range_touches
  have hsum : (base + size).toNat = base.toNat + size.toNat := by
    rw [BitVec.toNat_add]; exact Nat.mod_eq_of_lt hfit
  have hw : (addr + n).toNat = addr.toNat + n.toNat := by
    rw [BitVec.toNat_add]; exact Nat.mod_eq_of_lt hwin
  rw [hsum, hw]
  by_cases h1 : base.toNat + size.toNat ≤ addr.toNat
  · simp only [h1, if_true]
  · by_cases h2 : addr.toNat + n.toNat ≤ base.toNat
    · simp only [h1, if_false, h2, if_true]
    · simp only [h1, if_false, h2]

example : Ufw.Gen.RegFns.reg_range_touches 1 (typeCode .u64) 0xfffffff0#32 0xffffffee#32 0x40#32 = Res.val 0#32 := by decide
example : Ufw.Gen.RegFns.ra_addr_is_part_of 1 16#32 8#32 23#32 = Res.val 1#8 := by decide
example : Ufw.Gen.RegFns.ra_addr_is_part_of 1 16#32 8#32 24#32 = Res.val 0#8 := by decide

end Ufw.Tie.RegFns
