/-
Tie A (C02, C03): statements of the hand model restated over the translated C.  The registers a block write marks
touched (`reg_taint_in_range` of the model) and the registers `register_foreach_in` starts from are selected by the
model's overlap test; here that selection is shown to be "the translated `reg_range_touches` returns 0" for every
entry of a table whose entries end inside the address space - so the model's choice of registers is the C code's.
-/
import Ufw.Tie.RegFns.Geometry
namespace Ufw.Tie.RegFns
open Ufw.Tie.CPre
open Ufw.Model.RegTable

/-- an entry as the C function sees it -/
def touchesC (fuel : Nat) (e : Entry) (addr n : BitVec 32) : Res (BitVec 32) :=
  Ufw.Gen.RegFns.reg_range_touches fuel (typeCode e.type) (BitVec.ofNat 32 e.address) addr n

theorem ofNat_address (e : Entry) (h : e.address + e.type.size < 2 ^ 32) : (BitVec.ofNat 32 e.address).toNat = e.address := by
  rw [BitVec.toNat_ofNat]; exact Nat.mod_eq_of_lt (by omega)

/-- the model marks an entry touched exactly when the C overlap test says 0 -/
theorem c_taint_selects (fuel : Nat) (t : Table) (addr n : BitVec 32)
    (hfit : ∀ e ∈ t.entries, e.address + e.type.size < 2 ^ 32) :
    (reg_taint_in_range t addr.toNat n.toNat).entries
      = t.entries.map fun e => if touchesC fuel e addr n = Res.val 0#32 then { e with touched := true } else e := by
  unfold reg_taint_in_range
  simp only []
  apply List.map_congr_left
  intro e he
  have hf := hfit e he
  have ha := ofNat_address e hf
  have hiff := overlap_iff_touches_zero fuel (BitVec.ofNat 32 e.address) addr n e.type (by rw [ha]; exact hf)
  rw [ha] at hiff
  unfold touchesC
  by_cases h : e.address + e.type.size ≤ addr.toNat ∨ addr.toNat + n.toNat ≤ e.address
  · have : ¬ (Ufw.Gen.RegFns.reg_range_touches fuel (typeCode e.type) (BitVec.ofNat 32 e.address) addr n = Res.val 0#32) :=
      fun hc => (hiff.mp hc) h
    simp only [h, if_true, this, if_false]
  · have : Ufw.Gen.RegFns.reg_range_touches fuel (typeCode e.type) (BitVec.ofNat 32 e.address) addr n = Res.val 0#32 := hiff.mpr h
    simp only [h, if_false, this, if_true]

/-- the overlap predicate `register_foreach_in` searches with is the C test as well -/
theorem c_foreach_overlap (fuel : Nat) (e : Entry) (addr off : BitVec 32) (hf : e.address + e.type.size < 2 ^ 32) :
    (!(decide (e.address + e.type.size ≤ addr.toNat)) && !(decide (addr.toNat + off.toNat ≤ e.address))) = true
      ↔ touchesC fuel e addr off = Res.val 0#32 := by
  have ha := ofNat_address e hf
  have hiff := overlap_iff_touches_zero fuel (BitVec.ofNat 32 e.address) addr off e.type (by rw [ha]; exact hf)
  rw [ha] at hiff
  unfold touchesC
  rw [hiff]
  simp only [Bool.and_eq_true, Bool.not_eq_true', decide_eq_false_iff_not, not_or]

/-- the two tests of the model's `reg_entry_is_in_memory` (initialisation: "every register lies wholly inside one area")
    are the translated `ra_reg_is_part_of` and `ra_reg_fits_into` -/
theorem c_entry_in_area (fuel : Nat) (a : Area) (e : Entry)
    (hfit : a.base + a.size < 2 ^ 32) (hef : e.address + e.type.size < 2 ^ 32) :
    Ufw.Gen.RegFns.ra_reg_is_part_of fuel (BitVec.ofNat 32 a.base) (BitVec.ofNat 32 a.size) (BitVec.ofNat 32 e.address)
        = Res.val (if Ufw.Model.RegTable.ra_addr_is_part_of a e.address then 1#8 else 0#8) ∧
    Ufw.Gen.RegFns.ra_reg_fits_into fuel (BitVec.ofNat 32 a.base) (BitVec.ofNat 32 a.size) (typeCode e.type) (BitVec.ofNat 32 e.address)
        = Res.val (if e.address + e.type.size ≤ a.base + a.size then 1#8 else 0#8) := by
  have hb : (BitVec.ofNat 32 a.base).toNat = a.base := by rw [BitVec.toNat_ofNat]; exact Nat.mod_eq_of_lt (by omega)
  have hs : (BitVec.ofNat 32 a.size).toNat = a.size := by rw [BitVec.toNat_ofNat]; exact Nat.mod_eq_of_lt (by omega)
  have ha := ofNat_address e hef
  constructor
  · have := gen_ra_reg_is_part_of fuel (BitVec.ofNat 32 a.base) (BitVec.ofNat 32 a.size) (BitVec.ofNat 32 e.address) a
      hb.symm hs.symm (by rw [hb, hs]; exact hfit)
    rw [ha] at this
    exact this
  · have := gen_ra_reg_fits_into fuel (BitVec.ofNat 32 a.base) (BitVec.ofNat 32 a.size) (BitVec.ofNat 32 e.address) e.type
      (by rw [hb, hs]; exact hfit) (by rw [ha]; exact hef)
    rw [ha, hb, hs] at this
    exact this

example : (reg_taint_in_range { areas := [], entries := [{ type := .u32, default := 0, address := 16 }, { type := .u16, default := 0, address := 18 }] } 17 1).entries.map (·.touched)
    = [true, false] := by decide

end Ufw.Tie.RegFns
