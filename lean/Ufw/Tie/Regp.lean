/-
Tie A (C06-C09): header sizes, option bits, frame type and response code numbering of the
current source are those of doc/regp.txt (Ufw.Spec.Regp) and of the model.
-/
import Ufw.Gen.Constants
import Ufw.Model.Regp
import Ufw.Spec.Regp
namespace Ufw.Tie.Regp
open Ufw.Gen.Constants Ufw.Spec.Regp

theorem const_header_sizes :
    Ufw.Model.Regp.RP_HEADER_SIZE = RP_HEADER_SIZE ∧ Ufw.Model.Regp.RP_HEADER_MIN_SIZE = RP_HEADER_MIN_SIZE ∧
    RP_HEADER_SIZE = 2 * RP_HEADER_SIZE_16 ∧ RP_HEADER_MIN_SIZE = 2 * RP_HEADER_MIN_SIZE_16 ∧
    RP_HEADER_SIZE_8 = RP_HEADER_SIZE ∧ RP_HEADER_MIN_SIZE_8 = RP_HEADER_MIN_SIZE ∧
    RP_HEADER_MIN_SIZE = 12 ∧ RP_HEADER_SIZE = 16 := by decide

/-- option bits as the document numbers them (bit 0 word size, bit 1 header checksum, bit 2 payload checksum) -/
theorem const_options :
    RP_OPT_WORD_SIZE_16 = 1 ∧ RP_OPT_WITH_HEADER_CRC = 2 ∧ RP_OPT_WITH_PAYLOAD_CRC = 4 ∧ RP_IMPLEMENTATION_VERSION = 0 := by
  decide

theorem const_frame_types :
    MType.code .readRequest = RP_FRAME_READ_REQUEST ∧ MType.code .readResponse = RP_FRAME_READ_RESPONSE ∧
    MType.code .writeRequest = RP_FRAME_WRITE_REQUEST ∧ MType.code .writeResponse = RP_FRAME_WRITE_RESPONSE ∧
    MType.code .metaMessage = RP_FRAME_META := by decide

/-- response codes of section 3.1 of the document, meta codes of section 3.2 -/
theorem const_response_codes :
    RP_RESP_ACK = 0 ∧ RP_RESP_EWORDSIZE = 1 ∧ RP_RESP_EPAYLOADCRC = 2 ∧ RP_RESP_EPAYLOADSIZE = 3 ∧
    RP_RESP_ERXOVERFLOW = 4 ∧ RP_RESP_ETXOVERFLOW = 5 ∧ RP_RESP_EBUSY = 6 ∧ RP_RESP_EUNMAPPED = 7 ∧
    RP_RESP_EACCESS = 8 ∧ RP_RESP_ERANGE = 9 ∧ RP_RESP_EINVALID = 10 ∧ RP_RESP_EIO = 11 ∧
    RP_META_EHEADERENC = 1 ∧ RP_META_EHEADERCRC = 2 := by decide

/-- exactly the codes with a 32-bit value in the document carry one in the spec -/
theorem const_value_codes :
    carriesValue RP_RESP_ERXOVERFLOW = true ∧ carriesValue RP_RESP_ETXOVERFLOW = true ∧ carriesValue RP_RESP_EUNMAPPED = true ∧
    carriesValue RP_RESP_EACCESS = true ∧ carriesValue RP_RESP_ERANGE = true ∧ carriesValue RP_RESP_EINVALID = true ∧
    carriesValue RP_RESP_ACK = false ∧ carriesValue RP_RESP_EWORDSIZE = false ∧ carriesValue RP_RESP_EPAYLOADCRC = false ∧
    carriesValue RP_RESP_EPAYLOADSIZE = false ∧ carriesValue RP_RESP_EBUSY = false ∧ carriesValue RP_RESP_EIO = false := by
  decide

end Ufw.Tie.Regp
