/-
C17 stated over the translated C itself: the exactness theorems of the property (`put_chunk_exact`, `get_chunk_exact`)
carried through the tie to `Ufw.Gen.EndpFns.sink_put_chunk` / `source_get_chunk` - the text clang read from
src/endpoints/core.c on this run.
-/
import Ufw.Tie.EndpFns.SinkPutChunk
import Ufw.Tie.EndpFns.SourceGetChunk
import Ufw.Props.C17
namespace Ufw.Tie.EndpFns
open Ufw Ufw.Tie.CPre
open Ufw.Model.Endpoints (Step R isRetry Kind)

theorem rc64_err_neg (e : Err) : (rc64 (R.err e)).toInt < 0 := by
  simp only [rc64]
  rw [show (errnoOf e).signExtend 64 = sx 64 (errnoOf e) from rfl, sx_toInt]
  have := errnoOf_neg e
  have z32 : (0#32).toInt = 0 := by decide
  rw [z32] at this
  exact this

/-- the translated `sink_put_chunk`, run to its end against any scripted driver of either style: a non-negative
    return value is the full count, and the sink has then received exactly the chunk, once and in order, behind what
    it held - whatever mixture of partial transfers, zero answers, EINTR and EAGAIN the driver produced -/
theorem c_put_chunk_exact (F G : Nat) (s : MSnk) (d : List Octet) (n : BitVec 64)
    (hnd : (Ufw.Model.Endpoints.sink_put_chunk F s d).1 ≠ R.diverge) (hG : F + 2 ≤ G) (hn : n.toNat = d.length) :
    ∃ rc drv, Ufw.Gen.EndpFns.sink_put_chunk G (kindCode s.kind) (snkD s) d n = Res.val (rc, drv) ∧
      (¬ rc.toInt < 0 → rc = n ∧ drv.got = s.got ++ d) ∧
      (∃ k, drv.got = s.got ++ d.take k) := by
  refine ⟨_, _, gen_sink_put_chunk F G s d n hnd hG hn, ?_, ?_⟩
  · intro hpos
    have hex := Ufw.Props.C17.put_chunk_exact F s d
    simp only [] at hex
    cases hr : (Ufw.Model.Endpoints.sink_put_chunk F s d).1 with
    | diverge => exact absurd hr hnd
    | err e => rw [hr] at hpos; exact absurd (rc64_err_neg e) hpos
    | ok m =>
      obtain ⟨hm, hgot⟩ := hex.1 m hr
      refine ⟨?_, ?_⟩
      · simp only [rc64]
        apply BitVec.eq_of_toNat_eq
        rw [hm, ← hn]; simp
      · exact hgot
  · exact (Ufw.Props.C17.put_chunk_exact F s d).2.2

/-- the translated `source_get_chunk`, run to its end against any scripted driver of either style: a non-negative
    return value is the full count, the caller's block then holds exactly the next `n` octets of the stream, in order,
    and the driver stands right behind them -/
theorem c_get_chunk_exact (F G : Nat) (s : MSrc) (mem : List (BitVec 8)) (n : BitVec 64)
    (hnd : (Ufw.Model.Endpoints.source_get_chunk F s mem.length).1 ≠ R.diverge) (hG : F + 2 ≤ G) (hn : n.toNat = mem.length) :
    ∃ rc drv blk, Ufw.Gen.EndpFns.source_get_chunk G (kindCode s.kind) (srcD s) mem n = Res.val (rc, drv, blk) ∧
      blk.length = mem.length ∧
      (¬ rc.toInt < 0 → rc = n ∧ blk = s.stream.take mem.length ∧ drv.stream = s.stream.drop mem.length) := by
  obtain ⟨blk, hg, hl, ht⟩ := gen_source_get_chunk F G s mem n hnd hG hn
  refine ⟨_, _, blk, hg, hl, ?_⟩
  intro hpos
  have hex := Ufw.Props.C17.get_chunk_exact F s mem.length
  simp only [] at hex
  cases hr : (Ufw.Model.Endpoints.source_get_chunk F s mem.length).1 with
  | diverge => exact absurd hr hnd
  | err e => rw [hr] at hpos; exact absurd (rc64_err_neg e) hpos
  | ok m =>
    obtain ⟨hm, hd, hdl, hst⟩ := hex.1 m hr
    refine ⟨?_, ?_, ?_⟩
    · simp only [rc64]
      apply BitVec.eq_of_toNat_eq
      rw [hm, ← hn]; simp
    · rw [hdl] at ht
      rw [← hd, ← ht, ← hl, List.take_length]
    · exact hst

end Ufw.Tie.EndpFns
