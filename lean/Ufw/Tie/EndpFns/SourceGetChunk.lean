/-
Tie A (C17): `once_source_get_chunk` and the loop of `source_get_chunk` as clang reads them, run against a scripted
driver of either style, are the model's: whenever the model's run ends, the run of the C code ends (with any fuel two
beyond the model's) in the same return value and driver state, the caller's block as long as before and the octets
the model reports at its front - in order, none lost, none twice.
-/
import Ufw.Gen.EndpFns
import Ufw.Tie.EndpFns.Common
import Ufw.Tie.EndpFns.SourceAdapt
import Ufw.Tie.EndpFns.SinkPutChunk
namespace Ufw.Tie.EndpFns
open Ufw Ufw.Tie.CPre
open Ufw.Model.Endpoints (Step R isRetry Kind)

/-- one call of a chunk source driver, in both worlds -/
theorem src_chunk_call (s : MSrc) (blk : List (BitVec 8)) (n : BitVec 64) (hn : n.toNat ≤ blk.length) :
    drvSrcChunk (srcD s) blk n
      = Res.val (rc64 (s.call n.toNat).1, srcD (s.call n.toNat).2.2,
                 (s.call n.toNat).2.1 ++ blk.drop (s.call n.toNat).2.1.length) := by
  unfold drvSrcChunk Ufw.Model.Endpoints.Src.call srcD SrcDrv.deliver
  cases hs : s.script with
  | nil =>
    cases hst : s.stream with
    | nil => simp [rc64, errnoOf, NEG_ENODATA]
    | cons a as =>
      have : ¬ blk.length < min n.toNat (as.length + 1) := by omega
      simp [rc64, this, Res.bind]
  | cons st rest =>
    cases st with
    | xfer k =>
      cases hst : s.stream with
      | nil => simp [stepD, rc64, errnoOf, NEG_ENODATA]
      | cons a as =>
        have h1 : ¬ blk.length < min k (min n.toNat (as.length + 1)) := by omega
        simp [stepD, rc64, h1, Res.bind]
    | zero => simp [stepD, rc64]
    | eintr => simp [stepD, rc64, errnoOf]
    | eagain => simp [stepD, rc64, errnoOf]
    | hard e => simp [stepD, rc64]

/-- one driver call: kind kept, no more octets than asked for, a count that is the number of octets -/
theorem src_call_facts (s : MSrc) (m : Nat) :
    (s.call m).2.2.kind = s.kind ∧ (s.call m).2.1.length ≤ m ∧ ∀ k, (s.call m).1 = R.ok k → k = (s.call m).2.1.length := by
  unfold Ufw.Model.Endpoints.Src.call
  cases hs : s.script with
  | nil =>
    cases hst : s.stream with
    | nil => simp
    | cons a as => simp; omega
  | cons st rest =>
    cases st with
    | xfer j =>
      cases hst : s.stream with
      | nil => simp
      | cons a as => simp; omega
    | zero => simp
    | eintr => simp
    | eagain => simp
    | hard e => simp

theorem source_adapt_facts : ∀ (F : Nat) (s : MSrc) (rest : Nat) (acc : List Octet),
    (Ufw.Model.Endpoints.source_adapt F s rest acc).2.2.kind = s.kind ∧
    (Ufw.Model.Endpoints.source_adapt F s rest acc).2.1.length ≤ acc.length + rest ∧
    ∀ k, (Ufw.Model.Endpoints.source_adapt F s rest acc).1 = R.ok k →
      k = (Ufw.Model.Endpoints.source_adapt F s rest acc).2.1.length := by
  intro F
  induction F with
  | zero =>
    intro s rest acc
    cases rest <;> simp [Ufw.Model.Endpoints.source_adapt]
  | succ F ih =>
    intro s rest acc
    cases rest with
    | zero => simp [Ufw.Model.Endpoints.source_adapt]
    | succ r =>
      unfold Ufw.Model.Endpoints.source_adapt
      have hf := src_call_facts s 1
      cases hc : s.call 1 with
      | mk rr rest2 =>
        cases rest2 with
        | mk d s' =>
          rw [hc] at hf
          simp only [] at hf ⊢
          obtain ⟨hk, hl, hok⟩ := hf
          cases rr with
          | diverge => simp [hk]
          | err e =>
            simp only []
            split
            · have := ih s' (r + 1) acc
              rw [hk] at this; exact this
            · split <;> simp [hk]
          | ok k =>
            simp only []
            have hkd := hok k rfl
            have := ih s' (r + 1 - k) (acc ++ d)
            rw [hk] at this
            refine ⟨this.1, ?_, this.2.2⟩
            have h2 := this.2.1
            simp at h2 ⊢
            omega

/-- the model's `once_source_get_chunk`: kind kept, no more octets than asked for, count = number of octets -/
theorem once_src_facts (F : Nat) (s : MSrc) (n : Nat) :
    (Ufw.Model.Endpoints.once_source_get_chunk F s n).2.2.kind = s.kind ∧
    (Ufw.Model.Endpoints.once_source_get_chunk F s n).2.1.length ≤ n ∧
    ∀ k, (Ufw.Model.Endpoints.once_source_get_chunk F s n).1 = R.ok k →
      k = (Ufw.Model.Endpoints.once_source_get_chunk F s n).2.1.length := by
  unfold Ufw.Model.Endpoints.once_source_get_chunk
  cases hk : s.kind with
  | octet =>
    simp only []
    have := source_adapt_facts F s n []
    rw [hk] at this
    simpa using this
  | chunk =>
    simp only []
    have := src_call_facts s n
    rw [hk] at this
    exact this

/-- `once_source_get_chunk(source, buf, n)` on a block of exactly `n` octets -/
theorem gen_once_source_get_chunk (F G : Nat) (s : MSrc) (blk : List (BitVec 8)) (n : BitVec 64)
    (hnd : (Ufw.Model.Endpoints.once_source_get_chunk F s blk.length).1 ≠ R.diverge) (hG : F + 1 ≤ G)
    (hn : n.toNat = blk.length) (hsmall : blk.length < 2 ^ 63) :
    Ufw.Gen.EndpFns.once_source_get_chunk G (kindCode s.kind) (srcD s) blk n
      = Res.val (rc64 (Ufw.Model.Endpoints.once_source_get_chunk F s blk.length).1,
                 srcD (Ufw.Model.Endpoints.once_source_get_chunk F s blk.length).2.2,
                 (Ufw.Model.Endpoints.once_source_get_chunk F s blk.length).2.1
                   ++ blk.drop (Ufw.Model.Endpoints.once_source_get_chunk F s blk.length).2.1.length) := by
  unfold Ufw.Gen.EndpFns.once_source_get_chunk Ufw.Model.Endpoints.once_source_get_chunk at *
  simp only [List.drop_zero]
  cases hk : s.kind with
  | octet =>
    rw [hk] at hnd
    simp only [kindCode, if_true] at hnd ⊢
    rw [gen_source_adapt F G s blk n hnd hG hn hsmall, Res.bind_val]
    simp [splice]
  | chunk =>
    have : ¬ kindCode Kind.chunk = 0#32 := by decide
    simp only [this, if_false]
    rw [src_chunk_call s blk n (by omega), Res.bind_val, hn]
    simp [splice]

theorem get_loop : ∀ (F : Nat) (s : MSrc) (rest : Nat) (acc : List Octet),
    (Ufw.Model.Endpoints.getLoop F s rest acc).1 ≠ R.diverge →
    ∀ (G : Nat) (mem : List (BitVec 8)) (n : BitVec 64), F + 2 ≤ G → mem.length = acc.length + rest →
      mem.take acc.length = acc → n.toNat = mem.length → mem.length < 2 ^ 63 →
      ∃ blk, Ufw.Gen.EndpFns.source_get_chunk.loop1 G (kindCode s.kind) 0 n (BitVec.ofNat 64 rest) mem (srcD s)
          = Res.val (rc64 (Ufw.Model.Endpoints.getLoop F s rest acc).1, srcD (Ufw.Model.Endpoints.getLoop F s rest acc).2.2, blk) ∧
        blk.length = mem.length ∧
        blk.take (Ufw.Model.Endpoints.getLoop F s rest acc).2.1.length = (Ufw.Model.Endpoints.getLoop F s rest acc).2.1 := by
  intro F
  induction F with
  | zero =>
    intro s rest acc hnd G mem n hG hlen htake hn hsmall
    obtain ⟨G', rfl⟩ : ∃ G', G = G' + 1 := ⟨G - 1, by omega⟩
    cases rest with
    | zero =>
      unfold Ufw.Gen.EndpFns.source_get_chunk.loop1 Ufw.Model.Endpoints.getLoop
      simp only [sx0_64]
      rw [if_neg (by simp)]
      refine ⟨mem, ?_, rfl, htake⟩
      simp only [rc64]
      congr 2
      apply BitVec.eq_of_toNat_eq; simp [hn]; omega
    | succ r => exact absurd rfl hnd
  | succ F ih =>
    intro s rest acc hnd G mem n hG hlen htake hn hsmall
    obtain ⟨G', rfl⟩ : ∃ G', G = G' + 1 := ⟨G - 1, by omega⟩
    cases rest with
    | zero =>
      unfold Ufw.Gen.EndpFns.source_get_chunk.loop1 Ufw.Model.Endpoints.getLoop
      simp only [sx0_64]
      rw [if_neg (by simp)]
      refine ⟨mem, ?_, rfl, htake⟩
      simp only [rc64]
      congr 2
      apply BitVec.eq_of_toNat_eq; simp [hn]; omega
    | succ r =>
      have hrest : (BitVec.ofNat 64 (r + 1)).toNat = r + 1 := by simp; omega
      have hidx : 0 + (n - BitVec.ofNat 64 (r + 1)).toNat = acc.length := by
        rw [BitVec.toNat_sub, hrest, hn]; have := n.isLt; simp; omega
      have hcl : (mem.drop acc.length).length = r + 1 := by simp; omega
      unfold Ufw.Gen.EndpFns.source_get_chunk.loop1
      rw [sx0_64, if_pos (by rw [hrest]; omega), hidx]
      unfold Ufw.Model.Endpoints.getLoop at hnd ⊢
      have honce_nd : (Ufw.Model.Endpoints.once_source_get_chunk (F + 1) s (r + 1)).1 ≠ R.diverge := by
        intro h
        apply hnd
        cases hc : Ufw.Model.Endpoints.once_source_get_chunk (F + 1) s (r + 1) with
        | mk rr rest2 => cases rest2 with
          | mk d s' => rw [hc] at h; simp only [] at h; subst h; rfl
      have hspec := gen_once_source_get_chunk (F + 1) G' s (mem.drop acc.length) (BitVec.ofNat 64 (r + 1))
        (by rw [hcl]; exact honce_nd) (by omega) (by rw [hrest, hcl]) (by rw [hcl]; omega)
      rw [hcl] at hspec
      rw [hspec, Res.bind_val]
      have hf := once_src_facts (F + 1) s (r + 1)
      cases hc : Ufw.Model.Endpoints.once_source_get_chunk (F + 1) s (r + 1) with
      | mk rr rest2 =>
        cases rest2 with
        | mk d s' =>
          rw [hc] at hnd hf honce_nd
          simp only [] at hnd hf honce_nd ⊢
          obtain ⟨hkind, hdl, hok⟩ := hf
          -- the block after the call: what was there up to the read mark, the delivered octets, the rest
          have hmem' : splice mem acc.length (d ++ (mem.drop acc.length).drop d.length)
              = (acc ++ d) ++ mem.drop (acc ++ d).length := by
            unfold splice
            rw [htake, List.drop_drop, List.append_assoc, List.length_append]
          rw [hmem']
          have hl' : ((acc ++ d) ++ mem.drop (acc ++ d).length).length = mem.length := by simp; omega
          have ht' : ((acc ++ d) ++ mem.drop (acc ++ d).length).take acc.length = acc := by
            rw [List.append_assoc, List.take_left' rfl]
          cases rr with
          | diverge => exact absurd rfl honce_nd
          | err e =>
            have hneg : (rc64 (R.err e)).toInt < (sx 64 (0#32)).toInt := by
              simp only [rc64]; rw [show (errnoOf e).signExtend 64 = sx 64 (errnoOf e) from rfl, sx_toInt, sx_toInt]
              exact errnoOf_neg e
            by_cases hr : isRetry e = true
            · have c1 : rc64 (R.err e) = sx 64 (-(4#32)) ∨ rc64 (R.err e) = sx 64 (-(11#32)) := by
                simp only [rc64]
                rw [show (errnoOf e).signExtend 64 = sx 64 (errnoOf e) from rfl, sx_inj, sx_inj]
                exact (retry_iff e).mpr hr
              simp only [c1, if_true]
              simp only [hr, if_true] at hnd ⊢
              have := ih s' (r + 1) acc hnd G' _ n (by omega) (by rw [hl']; exact hlen) ht' (by rw [hl']; exact hn) (by rw [hl']; exact hsmall)
              rw [hkind, hl'] at this
              exact this
            · have c1 : ¬ (rc64 (R.err e) = sx 64 (-(4#32)) ∨ rc64 (R.err e) = sx 64 (-(11#32))) := by
                simp only [rc64]
                rw [show (errnoOf e).signExtend 64 = sx 64 (errnoOf e) from rfl, sx_inj, sx_inj]
                exact fun h => hr ((retry_iff e).mp h)
              have hr' : isRetry e = false := by simpa using hr
              simp only [c1, if_false, hneg, if_true]
              simp only [hr', Bool.false_eq_true, if_false]
              exact ⟨_, rfl, hl', ht'⟩
          | ok k =>
            have hkd : k = d.length := hok k rfl
            have hk63 : k < 2 ^ 63 := by omega
            have hti : (rc64 (R.ok k)).toInt = k := by simp only [rc64]; exact ofNat_toInt k hk63
            have c1 : ¬ (rc64 (R.ok k) = sx 64 (-(4#32)) ∨ rc64 (R.ok k) = sx 64 (-(11#32))) := by
              intro h
              rcases h with h | h
              · have := congrArg BitVec.toInt h; rw [hti, sx_toInt] at this
                have e4 : (-(4#32) : BitVec 32).toInt = -4 := by decide
                rw [e4] at this; omega
              · have := congrArg BitVec.toInt h; rw [hti, sx_toInt] at this
                have e11 : (-(11#32) : BitVec 32).toInt = -11 := by decide
                rw [e11] at this; omega
            have c2 : ¬ (rc64 (R.ok k)).toInt < (sx 64 (0#32)).toInt := by
              rw [hti, sx_toInt]; have : (0#32).toInt = 0 := by decide
              rw [this]; omega
            simp only [c1, c2, if_false]
            have hsub : BitVec.ofNat 64 (r + 1) - rc64 (R.ok k) = BitVec.ofNat 64 (r + 1 - k) := by
              simp only [rc64]
              apply BitVec.eq_of_toNat_eq
              simp [BitVec.toNat_sub]
              omega
            rw [hsub]
            have ht2 : ((acc ++ d) ++ mem.drop (acc ++ d).length).take (acc ++ d).length = acc ++ d :=
              List.take_left' rfl
            have := ih s' (r + 1 - k) (acc ++ d) hnd G' _ n (by omega) (by rw [hl']; simp; omega) ht2
              (by rw [hl']; exact hn) (by rw [hl']; exact hsmall)
            rw [hkind, hl'] at this
            exact this

/-- `source_get_chunk(source, buf, n)` on a block of exactly `n` octets, any `n` -/
theorem gen_source_get_chunk (F G : Nat) (s : MSrc) (mem : List (BitVec 8)) (n : BitVec 64)
    (hnd : (Ufw.Model.Endpoints.source_get_chunk F s mem.length).1 ≠ R.diverge) (hG : F + 2 ≤ G) (hn : n.toNat = mem.length) :
    ∃ blk, Ufw.Gen.EndpFns.source_get_chunk G (kindCode s.kind) (srcD s) mem n
        = Res.val (rc64 (Ufw.Model.Endpoints.source_get_chunk F s mem.length).1,
                   srcD (Ufw.Model.Endpoints.source_get_chunk F s mem.length).2.2, blk) ∧
      blk.length = mem.length ∧
      blk.take (Ufw.Model.Endpoints.source_get_chunk F s mem.length).2.1.length
        = (Ufw.Model.Endpoints.source_get_chunk F s mem.length).2.1 := by
  unfold Ufw.Gen.EndpFns.source_get_chunk Ufw.Model.Endpoints.source_get_chunk at *
  simp only []
  have hmax : (9223372036854775807#64).toNat = Ufw.Model.Endpoints.SSIZE_MAX := by decide
  have hz : n = sx 64 (0#32) ↔ mem.length = 0 := by
    have : sx 64 (0#32) = 0#64 := by decide
    rw [this, ← hn]
    constructor
    · intro h; rw [h]; rfl
    · intro h; apply BitVec.eq_of_toNat_eq; rw [h]; rfl
  by_cases hg : mem.length = 0 ∨ mem.length > Ufw.Model.Endpoints.SSIZE_MAX
  · have c : n = sx 64 (0#32) ∨ n.toNat > (9223372036854775807#64).toNat := by
      rcases hg with h | h
      · exact Or.inl (hz.mpr h)
      · exact Or.inr (by rw [hmax, hn]; exact h)
    simp only [c, if_true]
    rw [if_pos hg]
    exact ⟨mem, rfl, rfl, by simp⟩
  · have c : ¬ (n = sx 64 (0#32) ∨ n.toNat > (9223372036854775807#64).toNat) := by
      intro h; apply hg
      rcases h with h | h
      · exact Or.inl (hz.mp h)
      · exact Or.inr (by rw [hmax, hn] at h; exact h)
    simp only [c, if_false]
    rw [if_neg hg] at hnd ⊢
    have hsmall : mem.length < 2 ^ 63 := by
      have : ¬ mem.length > Ufw.Model.Endpoints.SSIZE_MAX := fun h => hg (Or.inr h)
      unfold Ufw.Model.Endpoints.SSIZE_MAX at this; omega
    have hnn : n = BitVec.ofNat 64 mem.length := by
      apply BitVec.eq_of_toNat_eq; simp [hn]; omega
    have := get_loop F s mem.length [] hnd G mem n hG (by simp) (by simp) hn hsmall
    rw [← hnn] at this
    exact this

/-- non-vacuity: five octets asked of an octet driver that is interrupted once: all five, in order -/
example : Ufw.Gen.EndpFns.source_get_chunk 12 0#32 { stream := [1#8, 2#8, 3#8, 4#8, 5#8, 6#8], script := [DStep.xfer 1, DStep.ret (-(4#32))] }
      [0#8, 0#8, 0#8, 0#8, 0#8] 5#64
    = Res.val (5#64, { stream := [6#8], script := [], calls := 6 }, [1#8, 2#8, 3#8, 4#8, 5#8]) := by decide

/-- `source_get_chunk_atmost(source, buf, n)`: one attempt, no loop -/
theorem gen_source_get_chunk_atmost (F G : Nat) (s : MSrc) (blk : List (BitVec 8)) (n : BitVec 64)
    (hnd : (Ufw.Model.Endpoints.source_get_chunk_atmost F s blk.length).1 ≠ R.diverge) (hG : F + 2 ≤ G)
    (hn : n.toNat = blk.length) (hsmall : blk.length < 2 ^ 63) :
    Ufw.Gen.EndpFns.source_get_chunk_atmost G (kindCode s.kind) (srcD s) blk n
      = Res.val (rc64 (Ufw.Model.Endpoints.source_get_chunk_atmost F s blk.length).1,
                 srcD (Ufw.Model.Endpoints.source_get_chunk_atmost F s blk.length).2.2,
                 (Ufw.Model.Endpoints.source_get_chunk_atmost F s blk.length).2.1
                   ++ blk.drop (Ufw.Model.Endpoints.source_get_chunk_atmost F s blk.length).2.1.length) := by
  unfold Ufw.Gen.EndpFns.source_get_chunk_atmost Ufw.Model.Endpoints.source_get_chunk_atmost at *
  simp only [List.drop_zero]
  rw [gen_once_source_get_chunk F G s blk n hnd (by omega) hn hsmall, Res.bind_val]
  simp [splice]

end Ufw.Tie.EndpFns
