/-
Tie A (C17): the loop of `sink_adapt` as clang reads it, run against a scripted octet driver, is the model's
`sink_adapt`: whenever the model's run ends, the run of the C code ends (with any fuel beyond the model's) in the same
return value and the same driver state - every octet offered once and in order, retried after EINTR / EAGAIN,
nothing skipped, nothing offered twice.
-/
import Ufw.Gen.EndpFns
import Ufw.Tie.EndpFns.Common
namespace Ufw.Tie.EndpFns
open Ufw Ufw.Tie.CPre
open Ufw.Model.Endpoints (Step R isRetry)

theorem snk_call_not_diverge (s : MSnk) (d : List Octet) : (s.call d).1 ≠ R.diverge := by
  unfold Ufw.Model.Endpoints.Snk.call
  cases s.script with
  | nil => simp
  | cons st rest => cases st <;> simp

theorem snk_call_octet_le (s : MSnk) (o : Octet) (k : Nat) (h : (s.call [o]).1 = R.ok k) : k ≤ 1 := by
  unfold Ufw.Model.Endpoints.Snk.call at h
  cases hs : s.script with
  | nil => rw [hs] at h; simp at h; omega
  | cons st rest =>
    rw [hs] at h
    cases st <;> simp at h <;> omega

theorem sx0_64 : (sx 64 (0#32)).toNat = 0 := by decide
theorem zero_toInt32 : (0#32).toInt = 0 := by decide

theorem retry_iff (e : Err) : (errnoOf e = -(4#32) ∨ errnoOf e = -(11#32)) ↔ isRetry e = true := by
  rw [errnoOf_eintr, errnoOf_eagain]
  unfold isRetry
  cases e <;> simp

theorem sink_adapt_loop : ∀ (F : Nat) (s : MSnk) (d : List Octet) (done : Nat),
    (Ufw.Model.Endpoints.sink_adapt F s d done).1 ≠ R.diverge →
    ∀ (G : Nat) (mem : List (BitVec 8)) (n : BitVec 64), F + 1 ≤ G → mem.length = done + d.length → mem.drop done = d →
      n.toNat = mem.length → mem.length < 2 ^ 63 →
      Ufw.Gen.EndpFns.sink_adapt.loop1 mem G 0 n 0 (BitVec.ofNat 64 d.length) (snkD s)
        = Res.val (rc64 (Ufw.Model.Endpoints.sink_adapt F s d done).1, snkD (Ufw.Model.Endpoints.sink_adapt F s d done).2) := by
  intro F
  induction F with
  | zero =>
    intro s d done hnd G mem n hG hlen hdrop hn hsmall
    cases d with
    | nil =>
      obtain ⟨G', rfl⟩ : ∃ G', G = G' + 1 := ⟨G - 1, by omega⟩
      unfold Ufw.Gen.EndpFns.sink_adapt.loop1 Ufw.Model.Endpoints.sink_adapt
      simp only [List.length_nil, sx0_64]
      rw [if_neg (by simp)]
      simp only [rc64]
      congr 2
      apply BitVec.eq_of_toNat_eq
      simp at hlen
      simp [hn, hlen]; omega
    | cons o os => exact absurd rfl hnd
  | succ F ih =>
    intro s d done hnd G mem n hG hlen hdrop hn hsmall
    obtain ⟨G', rfl⟩ : ∃ G', G = G' + 1 := ⟨G - 1, by omega⟩
    cases d with
    | nil =>
      unfold Ufw.Gen.EndpFns.sink_adapt.loop1 Ufw.Model.Endpoints.sink_adapt
      simp only [List.length_nil, sx0_64]
      rw [if_neg (by simp)]
      simp only [rc64]
      congr 2
      apply BitVec.eq_of_toNat_eq
      simp at hlen
      simp [hn, hlen]; omega
    | cons o os =>
      have hlen' : mem.length = done + (os.length + 1) := by simpa using hlen
      have hrest : (BitVec.ofNat 64 (o :: os).length).toNat = os.length + 1 := by
        simp; omega
      have hidx : (n - BitVec.ofNat 64 (o :: os).length).toNat = done := by
        rw [BitVec.toNat_sub, hrest, hn]; have := n.isLt; omega
      have hget : mem[0 + done]? = some o := by
        have := congrArg (fun l => l[0]?) hdrop
        simpa using this
      unfold Ufw.Gen.EndpFns.sink_adapt.loop1
      rw [sx0_64, if_pos (by rw [hrest]; omega), hidx, load_some mem _ _ o hget, snk_octet_call, Res.bind_val]
      simp only []
      unfold Ufw.Model.Endpoints.sink_adapt at hnd ⊢
      cases hc : s.call [o] with
      | mk r s' =>
        rw [hc] at hnd
        simp only [] at hnd ⊢
        cases r with
        | diverge => exact absurd (by rw [hc]) (snk_call_not_diverge s [o])
        | err e =>
          by_cases hr : isRetry e = true
          · have c1 : errnoOf e = -(4#32) ∨ errnoOf e = -(11#32) := (retry_iff e).mpr hr
            simp only [rc32, c1, if_true]
            simp only [hr, if_true] at hnd ⊢
            exact ih s' (o :: os) done hnd G' mem n (by omega) hlen hdrop hn hsmall
          · have c1 : ¬ (errnoOf e = -(4#32) ∨ errnoOf e = -(11#32)) := fun h => hr ((retry_iff e).mp h)
            simp only [rc32, c1, if_false, errnoOf_neg e, if_true]
            simp only [hr, if_false]
            rfl
        | ok k =>
          have hk : k ≤ 1 := snk_call_octet_le s o k (by rw [hc])
          have nr : ¬ (BitVec.ofNat 32 k = -(4#32) ∨ BitVec.ofNat 32 k = -(11#32)) := by
            rcases Nat.le_one_iff_eq_zero_or_eq_one.mp hk with h | h <;> subst h <;> decide
          have nn : ¬ (BitVec.ofNat 32 k).toInt < (0#32).toInt := by
            rcases Nat.le_one_iff_eq_zero_or_eq_one.mp hk with h | h <;> subst h <;> decide
          simp only [rc32, nr, nn, if_false]
          have hsub : (BitVec.ofNat 64 (o :: os).length - sx 64 (BitVec.ofNat 32 k))
              = BitVec.ofNat 64 ((o :: os).drop k).length := by
            rcases Nat.le_one_iff_eq_zero_or_eq_one.mp hk with h | h <;> subst h
            · have : sx 64 (BitVec.ofNat 32 0) = 0#64 := by decide
              rw [this]; simp
            · have : sx 64 (BitVec.ofNat 32 1) = 1#64 := by decide
              rw [this]
              apply BitVec.eq_of_toNat_eq
              simp [BitVec.toNat_sub]; omega
          rw [hsub]
          have hd2 : mem.drop (done + k) = (o :: os).drop k := by
            rw [← hdrop, List.drop_drop]
          have hl2 : mem.length = (done + k) + ((o :: os).drop k).length := by
            simp; omega
          exact ih s' ((o :: os).drop k) (done + k) hnd G' mem n (by omega) hl2 hd2 hn hsmall

/-- `sink_adapt(sink, driver, buf, n)` on a block of exactly `n` octets (n < 2^63) -/
theorem gen_sink_adapt (F G : Nat) (s : MSnk) (mem : List (BitVec 8)) (n : BitVec 64)
    (hnd : (Ufw.Model.Endpoints.sink_adapt F s mem 0).1 ≠ R.diverge) (hG : F + 1 ≤ G)
    (hn : n.toNat = mem.length) (hsmall : mem.length < 2 ^ 63) :
    Ufw.Gen.EndpFns.sink_adapt G (snkD s) mem n
      = Res.val (rc64 (Ufw.Model.Endpoints.sink_adapt F s mem 0).1, snkD (Ufw.Model.Endpoints.sink_adapt F s mem 0).2) := by
  unfold Ufw.Gen.EndpFns.sink_adapt
  simp only []
  have hnn : n = BitVec.ofNat 64 mem.length := by
    apply BitVec.eq_of_toNat_eq; simp [hn]; omega
  have := sink_adapt_loop F s mem 0 hnd G mem n hG (by simp) (by simp) hn hsmall
  rw [← hnn] at this
  exact this

/-- non-vacuity: three octets into a driver that is interrupted once and busy once: every octet once, in order -/
example : Ufw.Gen.EndpFns.sink_adapt 8 { script := [DStep.xfer 1, DStep.ret (-(4#32)), DStep.xfer 1, DStep.ret (-(11#32))] }
      [0x41#8, 0x42#8, 0x43#8] 3#64
    = Res.val (3#64, { got := [0x41#8, 0x42#8, 0x43#8], script := [], calls := 5 }) := by decide

end Ufw.Tie.EndpFns
