/-
Tie A (C17): the loops of `sts_drain_cbc` and `sts_n_cbc` as clang reads them, run against scripted drivers, are the
model's: whenever the model's loop ends, the C loop ends (with fuel beyond the model's plus the length of the sink's
script) in the same return value and the same driver states.
-/
import Ufw.Gen.EndpFns
import Ufw.Tie.EndpFns.StsCbc
namespace Ufw.Tie.EndpFns
open Ufw Ufw.Tie.CPre
open Ufw.Model.Endpoints (Step R isRetry Kind)

theorem rc64_neg_iff (r : R) (h : ∀ k, r = R.ok k → k < 2 ^ 63) (hd : r ≠ R.diverge) :
    (rc64 r).toInt < (sx 64 (0#32)).toInt ↔ ∃ e, r = R.err e := by
  have z : (sx 64 (0#32)).toInt = 0 := by decide
  rw [z]
  cases r with
  | ok k =>
    simp only [rc64]; rw [ofNat_toInt k (h k rfl)]
    constructor
    · intro c; omega
    · intro ⟨e, c⟩; cases c
  | err e =>
    simp only [rc64]
    rw [show (errnoOf e).signExtend 64 = sx 64 (errnoOf e) from rfl, sx_toInt]
    have := errnoOf_neg e
    have z32 : (0#32).toInt = 0 := by decide
    rw [z32] at this
    exact ⟨fun _ => ⟨e, rfl⟩, fun _ => this⟩
  | diverge => exact absurd rfl hd

/-- one round moves at most one octet -/
theorem sts_cbc_ok_le (src : MSrc) (snk : MSnk) (k : Nat) (h : (Ufw.Model.Endpoints.sts_cbc src snk).1 = R.ok k) : k ≤ 1 := by
  unfold Ufw.Model.Endpoints.sts_cbc Ufw.Model.Endpoints.source_get_octet at h
  cases hc : src.call 1 with
  | mk r rest2 =>
    cases rest2 with
    | mk d s' =>
      rw [hc] at h
      simp only [] at h
      cases r with
      | diverge => cases h
      | err e => cases h
      | ok j =>
        cases d with
        | nil => simp only [] at h; cases h; omega
        | cons o os =>
          simp only [] at h
          have := (Ufw.Lemmas.Endpoints.putRetry_spec (snk.script.length + 1) snk o).1 k h
          omega

theorem sts_cbc_not_diverge (src : MSrc) (snk : MSnk) : (Ufw.Model.Endpoints.sts_cbc src snk).1 ≠ R.diverge := by
  unfold Ufw.Model.Endpoints.sts_cbc Ufw.Model.Endpoints.source_get_octet
  have hnd := src_call_not_diverge src 1
  cases hc : src.call 1 with
  | mk r rest2 =>
    cases rest2 with
    | mk d s' =>
      rw [hc] at hnd
      simp only [] at hnd ⊢
      cases r with
      | diverge => exact absurd rfl hnd
      | err e => simp
      | ok j =>
        cases d with
        | nil => simp
        | cons o os =>
          simp only []
          exact (Ufw.Lemmas.Endpoints.putRetry_spec (snk.script.length + 1) snk o).2.2 (by omega)

theorem drain_loop (undef : Nat → BitVec 64) : ∀ (F : Nat) (src : MSrc) (snk : MSnk),
    (Ufw.Model.Endpoints.sts_drain_cbc F src snk).1 ≠ R.diverge →
    ∀ (G : Nat) (rc : BitVec 64), F + snk.script.length + 1 ≤ G →
      Ufw.Gen.EndpFns.sts_drain_cbc.loop1 undef G (kindCode src.kind) (kindCode snk.kind) rc (srcD src) (snkD snk)
        = Res.val (rc64 (Ufw.Model.Endpoints.sts_drain_cbc F src snk).1,
                   srcD (Ufw.Model.Endpoints.sts_drain_cbc F src snk).2.1,
                   snkD (Ufw.Model.Endpoints.sts_drain_cbc F src snk).2.2) := by
  intro F
  induction F with
  | zero => intro src snk h; exact absurd rfl h
  | succ F ih =>
    intro src snk hnd G rc hG
    obtain ⟨G', rfl⟩ : ∃ G', G = G' + 1 := ⟨G - 1, by omega⟩
    unfold Ufw.Gen.EndpFns.sts_drain_cbc.loop1
    rw [gen_sts_cbc G' undef src snk (by omega), Res.bind_val]
    simp only []
    unfold Ufw.Model.Endpoints.sts_drain_cbc at hnd ⊢
    have hkeep := sts_cbc_keeps src snk
    have hle := sts_cbc_ok_le src snk
    have hndc := sts_cbc_not_diverge src snk
    cases hc : Ufw.Model.Endpoints.sts_cbc src snk with
    | mk r rest2 =>
      cases rest2 with
      | mk src' snk' =>
        rw [hc] at hnd hkeep hle hndc
        simp only [] at hnd hkeep hle hndc ⊢
        have hiff := rc64_neg_iff r (fun k h => by have := hle k h; omega) hndc
        cases r with
        | diverge => exact absurd rfl hndc
        | err e =>
          have c : (rc64 (R.err e)).toInt < (sx 64 (0#32)).toInt := hiff.mpr ⟨e, rfl⟩
          simp only [c, if_true]
        | ok k =>
          have c : ¬ (rc64 (R.ok k)).toInt < (sx 64 (0#32)).toInt := fun h => by
            obtain ⟨e, he⟩ := hiff.mp h; cases he
          simp only [c, if_false]
          have := ih src' snk' hnd G' (rc64 (R.ok k)) (by omega)
          rw [hkeep.2.1, hkeep.2.2] at this
          exact this

/-- `sts_drain_cbc(source, sink)` -/
theorem gen_sts_drain_cbc (F G : Nat) (undef : Nat → BitVec 64) (src : MSrc) (snk : MSnk)
    (hnd : (Ufw.Model.Endpoints.sts_drain_cbc F src snk).1 ≠ R.diverge) (hG : F + snk.script.length + 1 ≤ G) :
    Ufw.Gen.EndpFns.sts_drain_cbc G undef (kindCode src.kind) (srcD src) (kindCode snk.kind) (snkD snk)
      = Res.val (rc64 (Ufw.Model.Endpoints.sts_drain_cbc F src snk).1,
                 srcD (Ufw.Model.Endpoints.sts_drain_cbc F src snk).2.1,
                 snkD (Ufw.Model.Endpoints.sts_drain_cbc F src snk).2.2) := by
  unfold Ufw.Gen.EndpFns.sts_drain_cbc
  exact drain_loop undef F src snk hnd G _ hG

theorem n_loop (undef : Nat → BitVec 64) : ∀ (F : Nat) (src : MSrc) (snk : MSnk) (rest total : Nat),
    (Ufw.Model.Endpoints.sts_n F src snk rest total).1 ≠ R.diverge →
    ∀ (G : Nat) (n done : BitVec 64), F + snk.script.length + 1 ≤ G → n.toNat = total → done.toNat + rest = total →
      Ufw.Gen.EndpFns.sts_n_cbc.loop1 undef G (kindCode src.kind) (kindCode snk.kind) n done (srcD src) (snkD snk)
        = Res.val (rc64 (Ufw.Model.Endpoints.sts_n F src snk rest total).1,
                   srcD (Ufw.Model.Endpoints.sts_n F src snk rest total).2.1,
                   snkD (Ufw.Model.Endpoints.sts_n F src snk rest total).2.2) := by
  intro F
  induction F with
  | zero =>
    intro src snk rest total hnd G n done hG hn hd
    obtain ⟨G', rfl⟩ : ∃ G', G = G' + 1 := ⟨G - 1, by omega⟩
    cases rest with
    | zero =>
      unfold Ufw.Gen.EndpFns.sts_n_cbc.loop1 Ufw.Model.Endpoints.sts_n
      rw [if_neg (by omega)]
      simp only [rc64]
      congr 2
      apply BitVec.eq_of_toNat_eq; have := n.isLt; simp [hn]; omega
    | succ r => exact absurd rfl hnd
  | succ F ih =>
    intro src snk rest total hnd G n done hG hn hd
    obtain ⟨G', rfl⟩ : ∃ G', G = G' + 1 := ⟨G - 1, by omega⟩
    cases rest with
    | zero =>
      unfold Ufw.Gen.EndpFns.sts_n_cbc.loop1 Ufw.Model.Endpoints.sts_n
      rw [if_neg (by omega)]
      simp only [rc64]
      congr 2
      apply BitVec.eq_of_toNat_eq; have := n.isLt; simp [hn]; omega
    | succ r =>
      unfold Ufw.Gen.EndpFns.sts_n_cbc.loop1
      rw [if_pos (by omega), gen_sts_cbc G' undef src snk (by omega), Res.bind_val]
      simp only []
      unfold Ufw.Model.Endpoints.sts_n at hnd ⊢
      have hkeep := sts_cbc_keeps src snk
      have hle := sts_cbc_ok_le src snk
      have hndc := sts_cbc_not_diverge src snk
      cases hc : Ufw.Model.Endpoints.sts_cbc src snk with
      | mk rr rest2 =>
        cases rest2 with
        | mk src' snk' =>
          rw [hc] at hnd hkeep hle hndc
          simp only [] at hnd hkeep hle hndc ⊢
          have hiff := rc64_neg_iff rr (fun k h => by have := hle k h; omega) hndc
          cases rr with
          | diverge => exact absurd rfl hndc
          | err e =>
            have c : (rc64 (R.err e)).toInt < (sx 64 (0#32)).toInt := hiff.mpr ⟨e, rfl⟩
            simp only [c, if_true]
          | ok k =>
            have hk1 : k ≤ 1 := hle k rfl
            have c : ¬ (rc64 (R.ok k)).toInt < (sx 64 (0#32)).toInt := fun h => by
              obtain ⟨e, he⟩ := hiff.mp h; cases he
            simp only [c, if_false]
            have hdone : (done + rc64 (R.ok k)).toNat + (r + 1 - k) = total := by
              simp only [rc64]
              have := n.isLt
              rw [BitVec.toNat_add]; simp; omega
            have := ih src' snk' (r + 1 - k) total hnd G' n (done + rc64 (R.ok k)) (by omega) hn hdone
            rw [hkeep.2.1, hkeep.2.2] at this
            exact this

/-- `sts_n_cbc(source, sink, n)`, any `n` -/
theorem gen_sts_n_cbc (F G : Nat) (undef : Nat → BitVec 64) (src : MSrc) (snk : MSnk) (n : BitVec 64)
    (hnd : (Ufw.Model.Endpoints.sts_n_cbc F n.toNat src snk n.toNat).1 ≠ R.diverge) (hG : F + snk.script.length + 1 ≤ G) :
    Ufw.Gen.EndpFns.sts_n_cbc G undef (kindCode src.kind) (srcD src) (kindCode snk.kind) (snkD snk) n
      = Res.val (rc64 (Ufw.Model.Endpoints.sts_n_cbc F n.toNat src snk n.toNat).1,
                 srcD (Ufw.Model.Endpoints.sts_n_cbc F n.toNat src snk n.toNat).2.1,
                 snkD (Ufw.Model.Endpoints.sts_n_cbc F n.toNat src snk n.toNat).2.2) := by
  unfold Ufw.Gen.EndpFns.sts_n_cbc Ufw.Model.Endpoints.sts_n_cbc at *
  have z : (zx 64 (0#32)) = 0#64 := by decide
  simp only [z]
  exact n_loop undef F src snk n.toNat n.toNat hnd G n 0#64 hG rfl (by simp)

end Ufw.Tie.EndpFns
