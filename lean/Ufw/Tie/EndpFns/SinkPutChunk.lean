/-
Tie A (C17): `once_sink_put_chunk` and the loop of `sink_put_chunk` as clang reads them, run against a scripted driver of
either style, are the model's: whenever the model's run ends, the run of the C code ends (with any fuel two beyond the
model's) in the same return value and the same driver state - the chunk goes out whole and in order, a part the driver
took is not offered again, EINTR / EAGAIN are retried.
-/
import Ufw.Gen.EndpFns
import Ufw.Tie.EndpFns.Common
import Ufw.Tie.EndpFns.SinkAdapt
namespace Ufw.Tie.EndpFns
open Ufw Ufw.Tie.CPre
open Ufw.Model.Endpoints (Step R isRetry Kind)

/-- `DATA_KIND_OCTET` / `DATA_KIND_CHUNK` -/
def kindCode : Kind → BitVec 32
  | .octet => 0#32
  | .chunk => 1#32

/-- one call of a chunk sink driver, in both worlds -/
theorem snk_chunk_call (s : MSnk) (d : List Octet) (n : BitVec 64) (hn : n.toNat = d.length) :
    drvSnkChunk (snkD s) d n = Res.val (rc64 (s.call d).1, snkD (s.call d).2) := by
  unfold drvSnkChunk Ufw.Model.Endpoints.Snk.call snkD
  have h1 : ¬ d.length < n.toNat := by omega
  have h2 : d.take n.toNat = d := by rw [hn]; exact List.take_length
  simp only [h1, if_false, h2]
  cases hs : s.script with
  | nil => simp [rc64]
  | cons st rest =>
    cases st <;> simp [stepD, rc64, errnoOf]

theorem snk_call_kind (s : MSnk) (d : List Octet) : (s.call d).2.kind = s.kind := by
  unfold Ufw.Model.Endpoints.Snk.call
  cases s.script with
  | nil => simp
  | cons st rest => cases st <;> simp

theorem snk_call_le (s : MSnk) (d : List Octet) (k : Nat) (h : (s.call d).1 = R.ok k) : k ≤ d.length := by
  unfold Ufw.Model.Endpoints.Snk.call at h
  cases hs : s.script with
  | nil => rw [hs] at h; simp at h; omega
  | cons st rest =>
    rw [hs] at h
    cases st <;> simp at h <;> omega

theorem sink_adapt_facts : ∀ (F : Nat) (s : MSnk) (d : List Octet) (done : Nat),
    (Ufw.Model.Endpoints.sink_adapt F s d done).2.kind = s.kind ∧
    ∀ k, (Ufw.Model.Endpoints.sink_adapt F s d done).1 = R.ok k → k = done + d.length := by
  intro F
  induction F with
  | zero =>
    intro s d done
    cases d with
    | nil => simp [Ufw.Model.Endpoints.sink_adapt]
    | cons o os => simp [Ufw.Model.Endpoints.sink_adapt]
  | succ F ih =>
    intro s d done
    cases d with
    | nil => simp [Ufw.Model.Endpoints.sink_adapt]
    | cons o os =>
      unfold Ufw.Model.Endpoints.sink_adapt
      have hk := snk_call_kind s [o]
      cases hc : s.call [o] with
      | mk r s' =>
        rw [hc] at hk
        simp only [] at hk ⊢
        cases r with
        | diverge => simp [hk]
        | err e =>
          simp only []
          split
          · have := ih s' (o :: os) done
            rw [hk] at this; exact this
          · simp [hk]
        | ok k =>
          simp only []
          have hle := snk_call_le s [o] k (by rw [hc])
          have := ih s' ((o :: os).drop k) (done + k)
          rw [hk] at this
          refine ⟨this.1, fun j hj => ?_⟩
          have := this.2 j hj
          simp at this hle ⊢
          omega

/-- `once_sink_put_chunk(sink, buf, n)` on a block of exactly `n` octets -/
theorem gen_once_sink_put_chunk (F G : Nat) (s : MSnk) (d : List Octet) (n : BitVec 64)
    (hnd : (Ufw.Model.Endpoints.once_sink_put_chunk F s d).1 ≠ R.diverge) (hG : F + 1 ≤ G)
    (hn : n.toNat = d.length) (hsmall : d.length < 2 ^ 63) :
    Ufw.Gen.EndpFns.once_sink_put_chunk G (kindCode s.kind) (snkD s) d n
      = Res.val (rc64 (Ufw.Model.Endpoints.once_sink_put_chunk F s d).1,
                 snkD (Ufw.Model.Endpoints.once_sink_put_chunk F s d).2) := by
  unfold Ufw.Gen.EndpFns.once_sink_put_chunk Ufw.Model.Endpoints.once_sink_put_chunk at *
  simp only [List.drop_zero]
  cases hk : s.kind with
  | octet =>
    rw [hk] at hnd
    simp only [kindCode, if_true] at hnd ⊢
    rw [gen_sink_adapt F G s d n hnd hG hn hsmall, Res.bind_val]
  | chunk =>
    have : ¬ kindCode Kind.chunk = 0#32 := by decide
    simp only [this, if_false]
    rw [snk_chunk_call s d n hn, Res.bind_val]

theorem once_facts (F : Nat) (s : MSnk) (d : List Octet) :
    (Ufw.Model.Endpoints.once_sink_put_chunk F s d).2.kind = s.kind ∧
    ∀ k, (Ufw.Model.Endpoints.once_sink_put_chunk F s d).1 = R.ok k → k ≤ d.length := by
  unfold Ufw.Model.Endpoints.once_sink_put_chunk
  cases hk : s.kind with
  | octet =>
    simp only []
    have := sink_adapt_facts F s d 0
    rw [hk] at this
    exact ⟨this.1, fun k h => by have := this.2 k h; omega⟩
  | chunk =>
    simp only []
    have h1 := snk_call_kind s d
    rw [hk] at h1
    exact ⟨h1, fun k h => snk_call_le s d k h⟩

theorem sx_toInt (a : BitVec 32) : (sx 64 a).toInt = a.toInt := by
  unfold sx; exact BitVec.toInt_signExtend_of_le (by omega)

theorem sx_inj (a b : BitVec 32) : sx 64 a = sx 64 b ↔ a = b := by
  constructor
  · intro h
    apply BitVec.eq_of_toInt_eq
    rw [← sx_toInt a, ← sx_toInt b, h]
  · intro h; rw [h]

theorem ofNat_toInt (k : Nat) (h : k < 2 ^ 63) : (BitVec.ofNat 64 k).toInt = k := by
  rw [BitVec.toInt_ofNat']
  have : ((k : Int)).bmod (2 ^ 64) = k := by
    apply Int.bmod_eq_of_le <;> omega
  exact this

theorem put_loop : ∀ (F : Nat) (s : MSnk) (d : List Octet) (total : Nat),
    (Ufw.Model.Endpoints.putLoop F s d total).1 ≠ R.diverge →
    ∀ (G : Nat) (mem : List (BitVec 8)) (n : BitVec 64), F + 2 ≤ G → mem.length = total → d.length ≤ total →
      mem.drop (total - d.length) = d → n.toNat = total → total < 2 ^ 63 →
      Ufw.Gen.EndpFns.sink_put_chunk.loop1 mem G (kindCode s.kind) 0 n (BitVec.ofNat 64 d.length) (snkD s)
        = Res.val (rc64 (Ufw.Model.Endpoints.putLoop F s d total).1, snkD (Ufw.Model.Endpoints.putLoop F s d total).2) := by
  intro F
  induction F with
  | zero =>
    intro s d total hnd G mem n hG hlen hdl hdrop hn hsmall
    obtain ⟨G', rfl⟩ : ∃ G', G = G' + 1 := ⟨G - 1, by omega⟩
    cases d with
    | nil =>
      unfold Ufw.Gen.EndpFns.sink_put_chunk.loop1 Ufw.Model.Endpoints.putLoop
      simp only [List.length_nil, sx0_64]
      rw [if_neg (by simp)]
      simp only [rc64]
      congr 2
      apply BitVec.eq_of_toNat_eq
      simp [hn]; omega
    | cons o os => exact absurd rfl hnd
  | succ F ih =>
    intro s d total hnd G mem n hG hlen hdl hdrop hn hsmall
    obtain ⟨G', rfl⟩ : ∃ G', G = G' + 1 := ⟨G - 1, by omega⟩
    cases d with
    | nil =>
      unfold Ufw.Gen.EndpFns.sink_put_chunk.loop1 Ufw.Model.Endpoints.putLoop
      simp only [List.length_nil, sx0_64]
      rw [if_neg (by simp)]
      simp only [rc64]
      congr 2
      apply BitVec.eq_of_toNat_eq
      simp [hn]; omega
    | cons o os =>
      have hdl' : os.length + 1 ≤ total := by simpa using hdl
      have hrest : (BitVec.ofNat 64 (o :: os).length).toNat = os.length + 1 := by simp; omega
      have hidx : 0 + (n - BitVec.ofNat 64 (o :: os).length).toNat = total - (o :: os).length := by
        rw [BitVec.toNat_sub, hrest, hn]; have := n.isLt; simp; omega
      unfold Ufw.Gen.EndpFns.sink_put_chunk.loop1
      rw [sx0_64, if_pos (by rw [hrest]; omega), hidx, hdrop]
      unfold Ufw.Model.Endpoints.putLoop at hnd ⊢
      have honce_nd : (Ufw.Model.Endpoints.once_sink_put_chunk (F + 1) s (o :: os)).1 ≠ R.diverge := by
        intro h
        apply hnd
        cases hc : Ufw.Model.Endpoints.once_sink_put_chunk (F + 1) s (o :: os) with
        | mk r s' => rw [hc] at h; simp only [] at h; subst h; rfl
      have hlen2 : (o :: os).length < 2 ^ 63 := by simp; omega
      rw [gen_once_sink_put_chunk (F + 1) G' s (o :: os) _ honce_nd (by omega) hrest hlen2, Res.bind_val]
      have hf := once_facts (F + 1) s (o :: os)
      cases hc : Ufw.Model.Endpoints.once_sink_put_chunk (F + 1) s (o :: os) with
      | mk r s' =>
        rw [hc] at hnd hf honce_nd
        simp only [] at hnd hf honce_nd ⊢
        obtain ⟨hkind, hle⟩ := hf
        cases r with
        | diverge => exact absurd rfl honce_nd
        | err e =>
          have hneg : (rc64 (R.err e)).toInt < (sx 64 (0#32)).toInt := by
            simp only [rc64]; rw [show (errnoOf e).signExtend 64 = sx 64 (errnoOf e) from rfl, sx_toInt, sx_toInt]
            exact errnoOf_neg e
          by_cases hr : isRetry e = true
          · have c1 : rc64 (R.err e) = sx 64 (-(4#32)) ∨ rc64 (R.err e) = sx 64 (-(11#32)) := by
              simp only [rc64]
              rw [show (errnoOf e).signExtend 64 = sx 64 (errnoOf e) from rfl, sx_inj, sx_inj]
              exact (retry_iff e).mpr hr
            simp only [c1, if_true]
            simp only [hr, if_true] at hnd ⊢
            have := ih s' (o :: os) total hnd G' mem n (by omega) hlen hdl hdrop hn hsmall
            rw [hkind] at this
            exact this
          · have c1 : ¬ (rc64 (R.err e) = sx 64 (-(4#32)) ∨ rc64 (R.err e) = sx 64 (-(11#32))) := by
              simp only [rc64]
              rw [show (errnoOf e).signExtend 64 = sx 64 (errnoOf e) from rfl, sx_inj, sx_inj]
              exact fun h => hr ((retry_iff e).mp h)
            have hr' : isRetry e = false := by simpa using hr
            simp only [c1, if_false, hneg, if_true]
            simp only [hr', Bool.false_eq_true, if_false]
        | ok k =>
          have hk : k ≤ os.length + 1 := by have := hle k rfl; simpa using this
          have hk63 : k < 2 ^ 63 := by omega
          have hti : (rc64 (R.ok k)).toInt = k := by simp only [rc64]; exact ofNat_toInt k hk63
          have c1 : ¬ (rc64 (R.ok k) = sx 64 (-(4#32)) ∨ rc64 (R.ok k) = sx 64 (-(11#32))) := by
            intro h
            rcases h with h | h
            · have := congrArg BitVec.toInt h; rw [hti, sx_toInt] at this
              have e4 : (-(4#32) : BitVec 32).toInt = -4 := by decide
              rw [e4] at this; omega
            · have := congrArg BitVec.toInt h; rw [hti, sx_toInt] at this
              have e11 : (-(11#32) : BitVec 32).toInt = -11 := by decide
              rw [e11] at this; omega
          have c2 : ¬ (rc64 (R.ok k)).toInt < (sx 64 (0#32)).toInt := by
            rw [hti, sx_toInt]; have : (0#32).toInt = 0 := by decide
            rw [this]; omega
          simp only [c1, c2, if_false]
          have hsub : BitVec.ofNat 64 (o :: os).length - rc64 (R.ok k) = BitVec.ofNat 64 ((o :: os).drop k).length := by
            simp only [rc64]
            apply BitVec.eq_of_toNat_eq
            simp [BitVec.toNat_sub]
            omega
          rw [hsub]
          have hd2 : mem.drop (total - ((o :: os).drop k).length) = (o :: os).drop k := by
            have : total - ((o :: os).drop k).length = (total - (o :: os).length) + k := by simp; omega
            rw [this, ← List.drop_drop, hdrop]
          have hl2 : ((o :: os).drop k).length ≤ total := by simp; omega
          have := ih s' ((o :: os).drop k) total hnd G' mem n (by omega) hlen hl2 hd2 hn hsmall
          rw [hkind] at this
          exact this

/-- `sink_put_chunk(sink, buf, n)` on a block of exactly `n` octets, any `n`: empty and oversized chunks are refused,
    every other chunk goes through the loop -/
theorem gen_sink_put_chunk (F G : Nat) (s : MSnk) (d : List Octet) (n : BitVec 64)
    (hnd : (Ufw.Model.Endpoints.sink_put_chunk F s d).1 ≠ R.diverge) (hG : F + 2 ≤ G) (hn : n.toNat = d.length) :
    Ufw.Gen.EndpFns.sink_put_chunk G (kindCode s.kind) (snkD s) d n
      = Res.val (rc64 (Ufw.Model.Endpoints.sink_put_chunk F s d).1, snkD (Ufw.Model.Endpoints.sink_put_chunk F s d).2) := by
  unfold Ufw.Gen.EndpFns.sink_put_chunk Ufw.Model.Endpoints.sink_put_chunk at *
  simp only []
  have hmax : (9223372036854775807#64).toNat = Ufw.Model.Endpoints.SSIZE_MAX := by decide
  have hz : n = sx 64 (0#32) ↔ d.length = 0 := by
    have : sx 64 (0#32) = 0#64 := by decide
    rw [this, ← hn]
    constructor
    · intro h; rw [h]; rfl
    · intro h; apply BitVec.eq_of_toNat_eq; rw [h]; rfl
  by_cases hg : d.length = 0 ∨ d.length > Ufw.Model.Endpoints.SSIZE_MAX
  · have c : n = sx 64 (0#32) ∨ n.toNat > (9223372036854775807#64).toNat := by
      rcases hg with h | h
      · exact Or.inl (hz.mpr h)
      · exact Or.inr (by rw [hmax, hn]; exact h)
    simp only [c, if_true]
    rw [if_pos hg]
    rfl
  · have c : ¬ (n = sx 64 (0#32) ∨ n.toNat > (9223372036854775807#64).toNat) := by
      intro h; apply hg
      rcases h with h | h
      · exact Or.inl (hz.mp h)
      · exact Or.inr (by rw [hmax, hn] at h; exact h)
    simp only [c, if_false]
    rw [if_neg hg] at hnd ⊢
    have hsmall : d.length < 2 ^ 63 := by
      have : ¬ d.length > Ufw.Model.Endpoints.SSIZE_MAX := fun h => hg (Or.inr h)
      unfold Ufw.Model.Endpoints.SSIZE_MAX at this; omega
    have hnn : n = BitVec.ofNat 64 d.length := by
      apply BitVec.eq_of_toNat_eq; simp [hn]; omega
    have := put_loop F s d d.length hnd G d n hG rfl (Nat.le_refl _) (by simp) hn hsmall
    rw [← hnn] at this
    exact this

/-- non-vacuity: five octets into a chunk driver that takes two, is busy, takes one and then everything:
    each octet goes out once, in order -/
example : Ufw.Gen.EndpFns.sink_put_chunk 9 1#32 { script := [DStep.xfer 2, DStep.ret (-(11#32)), DStep.xfer 1] }
      [1#8, 2#8, 3#8, 4#8, 5#8] 5#64
    = Res.val (5#64, { got := [1#8, 2#8, 3#8, 4#8, 5#8], script := [], calls := 4 }) := by decide

/-- `sink_put_chunk_atmost(sink, buf, n)`: one attempt, no loop -/
theorem gen_sink_put_chunk_atmost (F G : Nat) (s : MSnk) (d : List Octet) (n : BitVec 64)
    (hnd : (Ufw.Model.Endpoints.sink_put_chunk_atmost F s d).1 ≠ R.diverge) (hG : F + 2 ≤ G)
    (hn : n.toNat = d.length) (hsmall : d.length < 2 ^ 63) :
    Ufw.Gen.EndpFns.sink_put_chunk_atmost G (kindCode s.kind) (snkD s) d n
      = Res.val (rc64 (Ufw.Model.Endpoints.sink_put_chunk_atmost F s d).1,
                 snkD (Ufw.Model.Endpoints.sink_put_chunk_atmost F s d).2) := by
  unfold Ufw.Gen.EndpFns.sink_put_chunk_atmost Ufw.Model.Endpoints.sink_put_chunk_atmost at *
  simp only [List.drop_zero]
  rw [gen_once_sink_put_chunk F G s d n hnd (by omega) hn hsmall, Res.bind_val]

end Ufw.Tie.EndpFns
