/-
Tie A (C17): how the model's scripted drivers read as the prelude's (what the translated C of src/endpoints/core.c
runs against), the codes errors travel as, and one driver call in both worlds (nothing here mentions a generated
definition).
-/
import Ufw.Tie.CPre
import Ufw.Model.Endpoints
namespace Ufw.Tie.EndpFns
open Ufw Ufw.Tie.CPre
open Ufw.Model.Endpoints (Step R isRetry)
abbrev MSrc := Ufw.Model.Endpoints.Src
abbrev MSnk := Ufw.Model.Endpoints.Snk

/-- the (negative) code an error travels as -/
def errnoOf : Err → BitVec 32
  | .enomem => -(12#32) | .einval => -(22#32) | .enodata => -(61#32) | .eio => -(5#32) | .eagain => -(11#32)
  | .eintr => -(4#32) | .epipe => -(32#32) | .eilseq => -(84#32) | .enobufs => -(105#32) | .emsgsize => -(90#32)
  | .ebadmsg => -(74#32) | .eproto => -(71#32) | .efault => -(14#32) | .eoverflow => -(75#32) | .ebusy => -(16#32)
  | .erange => -(34#32) | .ebadf => -(9#32) | .other _ => -(1000#32)

theorem errnoOf_neg (e : Err) : (errnoOf e).toInt < (0#32).toInt := by cases e <;> simp only [errnoOf] <;> decide
theorem errnoOf_eintr (e : Err) : errnoOf e = -(4#32) ↔ e = .eintr := by cases e <;> simp [errnoOf] <;> decide
theorem errnoOf_eagain (e : Err) : errnoOf e = -(11#32) ↔ e = .eagain := by cases e <;> simp [errnoOf] <;> decide
theorem errnoOf_enodata (e : Err) : errnoOf e = -(61#32) ↔ e = .enodata := by cases e <;> simp [errnoOf] <;> decide

def stepD : Step → DStep
  | .xfer k => .xfer k
  | .zero => .ret 0#32
  | .eintr => .ret (-(4#32))
  | .eagain => .ret (-(11#32))
  | .hard e => .ret (errnoOf e)

def srcD (s : MSrc) : SrcDrv := { stream := s.stream, script := s.script.map stepD, calls := s.calls }
def snkD (s : MSnk) : SnkDrv := { got := s.got, script := s.script.map stepD, calls := s.calls }

/-- the `int` an octet-style driver call answers -/
def rc32 : R → BitVec 32
  | .ok k => BitVec.ofNat 32 k
  | .err e => errnoOf e
  | .diverge => 0#32

/-- the `ssize_t` a chunk function answers -/
def rc64 : R → BitVec 64
  | .ok k => BitVec.ofNat 64 k
  | .err e => (errnoOf e).signExtend 64
  | .diverge => 0#64

/-- one call of an octet sink driver, in both worlds -/
theorem snk_octet_call (s : MSnk) (o : Octet) :
    drvSnkOctet (snkD s) o = Res.val (rc32 (s.call [o]).1, snkD (s.call [o]).2) := by
  unfold drvSnkOctet Ufw.Model.Endpoints.Snk.call snkD
  cases hs : s.script with
  | nil => simp [rc32]
  | cons st rest =>
    cases st <;> simp [stepD, rc32, errnoOf]

end Ufw.Tie.EndpFns
