/-
Tie A (C17): the loop of `source_adapt` as clang reads it, run against a scripted octet driver, is the model's
`source_adapt`: whenever the model's run ends, the run of the C code ends (with any fuel beyond the model's) in the
same return value, the same driver state and the octets moved at the front of the caller's block - in order, none
lost, none twice; a source that runs dry after part of the chunk reports the part.
-/
import Ufw.Gen.EndpFns
import Ufw.Tie.EndpFns.Common
namespace Ufw.Tie.EndpFns
open Ufw Ufw.Tie.CPre
open Ufw.Model.Endpoints (Step R isRetry)

/-- one call of an octet source driver, in both worlds: code, driver, and the caller's cell (first octet of `cell`) -/
theorem src_octet_call (s : MSrc) (cell : List (BitVec 8)) (hc : 1 ≤ cell.length) :
    drvSrcOctet (srcD s) cell
      = Res.val (rc32 (s.call 1).1, srcD (s.call 1).2.2, (s.call 1).2.1 ++ cell.drop (s.call 1).2.1.length) := by
  unfold drvSrcOctet Ufw.Model.Endpoints.Src.call srcD SrcDrv.deliver
  cases hs : s.script with
  | nil =>
    cases hst : s.stream with
    | nil => simp [rc32, errnoOf, NEG_ENODATA]
    | cons a as =>
      have : ¬ cell.length < 1 := by omega
      simp [rc32, this, Res.bind]
  | cons st rest =>
    cases st with
    | xfer k =>
      cases hst : s.stream with
      | nil => simp [stepD, rc32, errnoOf, NEG_ENODATA]
      | cons a as =>
        have h1 : ¬ cell.length < min k 1 := by omega
        simp [stepD, rc32, h1, Res.bind]
    | zero => simp [stepD, rc32]
    | eintr => simp [stepD, rc32, errnoOf]
    | eagain => simp [stepD, rc32, errnoOf]
    | hard e => simp [stepD, rc32]

theorem src_call_not_diverge (s : MSrc) (m : Nat) : (s.call m).1 ≠ R.diverge := by
  unfold Ufw.Model.Endpoints.Src.call
  cases s.script with
  | nil => simp; split <;> simp
  | cons st rest => cases st <;> simp <;> split <;> simp

/-- an octet call that succeeds moved `k ≤ 1` octets, and says so -/
theorem src_call_octet_ok (s : MSrc) (k : Nat) (h : (s.call 1).1 = R.ok k) : (s.call 1).2.1.length = k ∧ k ≤ 1 := by
  unfold Ufw.Model.Endpoints.Src.call at h ⊢
  cases hs : s.script with
  | nil =>
    rw [hs] at h
    cases hst : s.stream with
    | nil => rw [hst] at h; simp at h
    | cons a as => rw [hst] at h; simp at h ⊢; omega
  | cons st rest =>
    rw [hs] at h
    cases st with
    | xfer j =>
      cases hst : s.stream with
      | nil => rw [hst] at h; simp at h
      | cons a as => rw [hst] at h; simp at h ⊢; omega
    | zero => simp at h ⊢; omega
    | eintr => simp at h
    | eagain => simp at h
    | hard e => simp at h

theorem src_call_err_nil (s : MSrc) (e : Err) (h : (s.call 1).1 = R.err e) : (s.call 1).2.1 = [] := by
  unfold Ufw.Model.Endpoints.Src.call at h ⊢
  cases hs : s.script with
  | nil =>
    rw [hs] at h
    cases hst : s.stream with
    | nil => simp
    | cons a as => rw [hst] at h; simp at h
  | cons st rest =>
    rw [hs] at h
    cases st with
    | xfer j =>
      cases hst : s.stream with
      | nil => simp
      | cons a as => rw [hst] at h; simp at h
    | zero => simp
    | eintr => simp
    | eagain => simp
    | hard e => simp

/-- what the model has moved so far only grows -/
theorem source_adapt_acc_len : ∀ (F : Nat) (s : MSrc) (rest : Nat) (acc : List Octet),
    acc.length ≤ (Ufw.Model.Endpoints.source_adapt F s rest acc).2.1.length := by
  intro F
  induction F with
  | zero =>
    intro s rest acc
    cases rest <;> simp [Ufw.Model.Endpoints.source_adapt]
  | succ F ih =>
    intro s rest acc
    cases rest with
    | zero => simp [Ufw.Model.Endpoints.source_adapt]
    | succ r =>
      unfold Ufw.Model.Endpoints.source_adapt
      cases hc : s.call 1 with
      | mk rr rest2 =>
        cases rest2 with
        | mk d s' =>
          cases rr with
          | diverge => simp
          | err e =>
            simp only []
            split
            · exact ih s' (r + 1) acc
            · split <;> simp
          | ok k =>
            simp only []
            have := ih s' (r + 1 - k) (acc ++ d)
            simp at this ⊢
            omega

theorem drop_through (X mem : List (BitVec 8)) (L : Nat) (h : X.length ≤ L) :
    (X ++ mem.drop X.length).drop L = mem.drop L := by
  rw [List.drop_append, List.drop_eq_nil_of_le h, List.nil_append, List.drop_drop]
  congr 1; omega

theorem sx0_64' : (sx 64 (0#32)).toNat = 0 := by decide

theorem retry_iff' (e : Err) : (errnoOf e = -(4#32) ∨ errnoOf e = -(11#32)) ↔ isRetry e = true := by
  rw [errnoOf_eintr, errnoOf_eagain]
  unfold isRetry
  cases e <;> simp

theorem source_adapt_loop : ∀ (F : Nat) (s : MSrc) (rest : Nat) (acc : List Octet),
    (Ufw.Model.Endpoints.source_adapt F s rest acc).1 ≠ R.diverge →
    ∀ (G : Nat) (mem : List (BitVec 8)) (n : BitVec 64), F + 1 ≤ G → mem.length = acc.length + rest →
      mem.take acc.length = acc → n.toNat = mem.length → mem.length < 2 ^ 63 →
      Ufw.Gen.EndpFns.source_adapt.loop1 G 0 n 0 (BitVec.ofNat 64 rest) mem (srcD s)
        = Res.val (rc64 (Ufw.Model.Endpoints.source_adapt F s rest acc).1,
                   srcD (Ufw.Model.Endpoints.source_adapt F s rest acc).2.2,
                   (Ufw.Model.Endpoints.source_adapt F s rest acc).2.1
                     ++ mem.drop (Ufw.Model.Endpoints.source_adapt F s rest acc).2.1.length) := by
  intro F
  induction F with
  | zero =>
    intro s rest acc hnd G mem n hG hlen htake hn hsmall
    cases rest with
    | zero =>
      obtain ⟨G', rfl⟩ : ∃ G', G = G' + 1 := ⟨G - 1, by omega⟩
      unfold Ufw.Gen.EndpFns.source_adapt.loop1 Ufw.Model.Endpoints.source_adapt
      simp only [sx0_64']
      rw [if_neg (by simp)]
      simp only [rc64]
      have h1 : n = BitVec.ofNat 64 acc.length := by
        apply BitVec.eq_of_toNat_eq; simp [hn]; omega
      have h2 : acc ++ mem.drop acc.length = mem :=
        calc acc ++ mem.drop acc.length = mem.take acc.length ++ mem.drop acc.length := by rw [htake]
          _ = mem := List.take_append_drop _ _
      rw [h1, h2]
    | succ r => exact absurd rfl hnd
  | succ F ih =>
    intro s rest acc hnd G mem n hG hlen htake hn hsmall
    obtain ⟨G', rfl⟩ : ∃ G', G = G' + 1 := ⟨G - 1, by omega⟩
    cases rest with
    | zero =>
      unfold Ufw.Gen.EndpFns.source_adapt.loop1 Ufw.Model.Endpoints.source_adapt
      simp only [sx0_64']
      rw [if_neg (by simp)]
      simp only [rc64]
      have h1 : n = BitVec.ofNat 64 acc.length := by
        apply BitVec.eq_of_toNat_eq; simp [hn]; omega
      have h2 : acc ++ mem.drop acc.length = mem :=
        calc acc ++ mem.drop acc.length = mem.take acc.length ++ mem.drop acc.length := by rw [htake]
          _ = mem := List.take_append_drop _ _
      rw [h1, h2]
    | succ r =>
      have hrest : (BitVec.ofNat 64 (r + 1)).toNat = r + 1 := by simp; omega
      have hidx : (0 + n.toNat) - (BitVec.ofNat 64 (r + 1)).toNat = acc.length := by rw [hrest, hn]; omega
      have h2 : acc ++ mem.drop acc.length = mem :=
        calc acc ++ mem.drop acc.length = mem.take acc.length ++ mem.drop acc.length := by rw [htake]
          _ = mem := List.take_append_drop _ _
      have hcell : 1 ≤ (mem.drop acc.length).length := by simp; omega
      unfold Ufw.Gen.EndpFns.source_adapt.loop1
      rw [sx0_64', if_pos (by rw [hrest]; omega), hidx, src_octet_call s _ hcell, Res.bind_val]
      simp only []
      unfold Ufw.Model.Endpoints.source_adapt at hnd ⊢
      have hsplice : splice mem acc.length ((s.call 1).2.1 ++ (mem.drop acc.length).drop (s.call 1).2.1.length)
          = (acc ++ (s.call 1).2.1) ++ mem.drop (acc ++ (s.call 1).2.1).length := by
        unfold splice
        rw [htake, List.drop_drop, List.append_assoc, List.length_append]
      rw [hsplice]
      cases hc : s.call 1 with
      | mk rr rest2 =>
        cases rest2 with
        | mk d s' =>
          rw [hc] at hnd
          simp only [] at hnd ⊢
          cases rr with
          | diverge => exact absurd (by rw [hc]) (src_call_not_diverge s 1)
          | err e =>
            have hd : d = [] := by have := src_call_err_nil s e (by rw [hc]); rw [hc] at this; exact this
            subst hd
            simp only [List.append_nil, h2]
            by_cases hr : isRetry e = true
            · have c1 : errnoOf e = -(4#32) ∨ errnoOf e = -(11#32) := (retry_iff' e).mpr hr
              simp only [rc32, c1, if_true]
              simp only [hr, if_true] at hnd ⊢
              exact ih s' (r + 1) acc hnd G' mem n (by omega) hlen htake hn hsmall
            · have c1 : ¬ (errnoOf e = -(4#32) ∨ errnoOf e = -(11#32)) := fun h => hr ((retry_iff' e).mp h)
              have hr' : isRetry e = false := by simpa using hr
              simp only [rc32, c1, if_false]
              simp only [hr', Bool.false_eq_true, if_false] at hnd ⊢
              by_cases hp : e = .enodata ∧ ¬ acc.isEmpty = true
              · have c2 : errnoOf e = -(61#32) ∧ (BitVec.ofNat 64 (r + 1)).toNat < n.toNat := by
                  refine ⟨(errnoOf_enodata e).mpr hp.1, ?_⟩
                  rw [hrest, hn, hlen]
                  have : acc ≠ [] := by intro h; apply hp.2; rw [h]; rfl
                  have := List.length_pos_iff.mpr this
                  omega
                simp only [c2, and_self, if_true]
                rw [if_pos hp]
                simp only [rc64, h2]
                congr 2
                apply BitVec.eq_of_toNat_eq
                rw [BitVec.toNat_sub, hrest, hn]
                have := n.isLt
                simp; omega
              · have c2 : ¬ (errnoOf e = -(61#32) ∧ (BitVec.ofNat 64 (r + 1)).toNat < n.toNat) := by
                  intro h
                  apply hp
                  refine ⟨(errnoOf_enodata e).mp h.1, ?_⟩
                  have h2' := h.2
                  rw [hrest, hn, hlen] at h2'
                  intro he
                  have : acc = [] := by simpa using he
                  rw [this] at h2'; simp at h2'
                simp only [c2, if_false, errnoOf_neg e, if_true]
                rw [if_neg hp]
                simp only [rc64, h2]
                rfl
          | ok k =>
            have hk := src_call_octet_ok s k (by rw [hc])
            rw [hc] at hk
            simp only [] at hk
            obtain ⟨hdl, hk1⟩ := hk
            have nr : ¬ (BitVec.ofNat 32 k = -(4#32) ∨ BitVec.ofNat 32 k = -(11#32)) := by
              rcases Nat.le_one_iff_eq_zero_or_eq_one.mp hk1 with h | h <;> subst h <;> decide
            have nd : ¬ (BitVec.ofNat 32 k = -(61#32) ∧ (BitVec.ofNat 64 (r + 1)).toNat < n.toNat) := by
              intro h
              rcases Nat.le_one_iff_eq_zero_or_eq_one.mp hk1 with h' | h' <;> subst h' <;> exact absurd h.1 (by decide)
            have nn : ¬ (BitVec.ofNat 32 k).toInt < (0#32).toInt := by
              rcases Nat.le_one_iff_eq_zero_or_eq_one.mp hk1 with h | h <;> subst h <;> decide
            simp only [rc32, nr, nd, nn, if_false]
            have hsub : (BitVec.ofNat 64 (r + 1) - sx 64 (BitVec.ofNat 32 k)) = BitVec.ofNat 64 (r + 1 - k) := by
              rcases Nat.le_one_iff_eq_zero_or_eq_one.mp hk1 with h | h <;> subst h
              · have : sx 64 (BitVec.ofNat 32 0) = 0#64 := by decide
                rw [this]; simp
              · have : sx 64 (BitVec.ofNat 32 1) = 1#64 := by decide
                rw [this]
                apply BitVec.eq_of_toNat_eq
                simp [BitVec.toNat_sub]; omega
            rw [hsub]
            have hl2 : ((acc ++ d) ++ mem.drop (acc ++ d).length).length = (acc ++ d).length + (r + 1 - k) := by
              simp; omega
            have ht2 : ((acc ++ d) ++ mem.drop (acc ++ d).length).take (acc ++ d).length = acc ++ d :=
              List.take_left' rfl
            have hn2 : n.toNat = ((acc ++ d) ++ mem.drop (acc ++ d).length).length := by
              rw [hn]; simp; omega
            have hs2 : ((acc ++ d) ++ mem.drop (acc ++ d).length).length < 2 ^ 63 := by rw [← hn2, hn]; exact hsmall
            have := ih s' (r + 1 - k) (acc ++ d) hnd G' _ n (by omega) hl2 ht2 hn2 hs2
            rw [this]
            congr 2
            rw [drop_through _ mem _ (source_adapt_acc_len F s' (r + 1 - k) (acc ++ d))]

/-- `source_adapt(source, driver, buf, n)` on a block of exactly `n` octets (n < 2^63): the octets moved are at the
    front of the block, what lies behind them is untouched -/
theorem gen_source_adapt (F G : Nat) (s : MSrc) (mem : List (BitVec 8)) (n : BitVec 64)
    (hnd : (Ufw.Model.Endpoints.source_adapt F s mem.length []).1 ≠ R.diverge) (hG : F + 1 ≤ G)
    (hn : n.toNat = mem.length) (hsmall : mem.length < 2 ^ 63) :
    Ufw.Gen.EndpFns.source_adapt G (srcD s) mem n
      = Res.val (rc64 (Ufw.Model.Endpoints.source_adapt F s mem.length []).1,
                 srcD (Ufw.Model.Endpoints.source_adapt F s mem.length []).2.2,
                 (Ufw.Model.Endpoints.source_adapt F s mem.length []).2.1
                   ++ mem.drop (Ufw.Model.Endpoints.source_adapt F s mem.length []).2.1.length) := by
  unfold Ufw.Gen.EndpFns.source_adapt
  simp only []
  have hnn : n = BitVec.ofNat 64 mem.length := by
    apply BitVec.eq_of_toNat_eq; simp [hn]; omega
  have := source_adapt_loop F s mem.length [] hnd G mem n hG (by simp) (by simp) hn hsmall
  rw [← hnn] at this
  exact this

/-- non-vacuity: four octets asked of a driver that is busy once and then runs dry after two: the two are reported -/
example : Ufw.Gen.EndpFns.source_adapt 8 { stream := [0x41#8, 0x42#8], script := [DStep.xfer 1, DStep.ret (-(11#32))] }
      [0#8, 0#8, 0#8, 0#8] 4#64
    = Res.val (2#64, { stream := [], script := [], calls := 4 }, [0x41#8, 0x42#8, 0#8, 0#8]) := by decide

end Ufw.Tie.EndpFns
