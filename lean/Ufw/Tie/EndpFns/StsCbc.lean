/-
Tie A (C17): `source_get_octet`, `sink_put_octet` and `sts_cbc` (one octet from the source into the sink, the sink asked
again while it takes nothing) as clang reads them, run against scripted drivers of either style, are the model's.
-/
import Ufw.Gen.EndpFns
import Ufw.Tie.EndpFns.Common
import Ufw.Tie.EndpFns.SourceGetChunk
import Ufw.Lemmas.Endpoints
namespace Ufw.Tie.EndpFns
open Ufw Ufw.Tie.CPre
open Ufw.Model.Endpoints (Step R isRetry Kind)

theorem tr_sx32 (a : BitVec 32) : (tr 32 (sx 64 a) : BitVec 32) = a := by
  unfold tr sx
  apply BitVec.eq_of_getLsbD_eq
  intro i hi
  have h64 : i < 64 := by omega
  rw [BitVec.getLsbD_setWidth, BitVec.getLsbD_signExtend]
  simp [hi, h64]

theorem tr_ofNat (k : Nat) : (tr 32 (BitVec.ofNat 64 k) : BitVec 32) = BitVec.ofNat 32 k := by
  unfold tr
  apply BitVec.eq_of_toNat_eq
  simp

theorem tr_rc64 (r : R) : (tr 32 (rc64 r) : BitVec 32) = rc32 r := by
  cases r with
  | ok k => exact tr_ofNat k
  | err e => exact tr_sx32 (errnoOf e)
  | diverge => decide

/-- `sink_put_octet(sink, data)` -/
theorem gen_sink_put_octet (G : Nat) (s : MSnk) (o : Octet) :
    Ufw.Gen.EndpFns.sink_put_octet G (kindCode s.kind) (snkD s) o
      = Res.val (rc32 (s.call [o]).1, snkD (s.call [o]).2) := by
  unfold Ufw.Gen.EndpFns.sink_put_octet
  cases hk : s.kind with
  | octet =>
    simp only [kindCode, if_true]
    rw [snk_octet_call, Res.bind_val, tr_sx32]
  | chunk =>
    have : ¬ kindCode Kind.chunk = 0#32 := by decide
    simp only [this, if_false]
    have h1 : (zx 64 (1#32)).toNat = ([o] : List Octet).length := by
      have : (zx 64 (1#32)).toNat = 1 := by decide
      rw [this]; rfl
    rw [snk_chunk_call s [o] _ h1, Res.bind_val, tr_rc64]

/-- `source_get_octet(source, data)` with the caller's octet `cell` -/
theorem gen_source_get_octet (G : Nat) (s : MSrc) (cell : BitVec 8) :
    Ufw.Gen.EndpFns.source_get_octet G (kindCode s.kind) (srcD s) [cell]
      = Res.val (rc32 (s.call 1).1, srcD (s.call 1).2.2, (s.call 1).2.1 ++ [cell].drop (s.call 1).2.1.length) := by
  unfold Ufw.Gen.EndpFns.source_get_octet
  simp only [List.drop_zero]
  cases hk : s.kind with
  | octet =>
    simp only [kindCode, if_true]
    rw [src_octet_call s [cell] (by simp), Res.bind_val, tr_sx32]
    simp [splice]
  | chunk =>
    have : ¬ kindCode Kind.chunk = 0#32 := by decide
    simp only [this, if_false]
    have h1 : (zx 64 (1#32)).toNat = 1 := by decide
    rw [src_chunk_call s [cell] _ (by rw [h1]; simp), Res.bind_val, tr_rc64, h1]
    simp [splice]

theorem sx_rc32 (r : R) (h : ∀ k, r = R.ok k → k ≤ 1) : sx 64 (rc32 r) = rc64 r := by
  cases r with
  | ok k =>
    have := h k rfl
    rcases Nat.le_one_iff_eq_zero_or_eq_one.mp this with h0 | h0 <;> subst h0 <;> decide
  | err e => rfl
  | diverge => decide

/-- the sink asked again while it answers 0 -/
theorem put_retry_loop (undef : Nat → BitVec 64) (sk : BitVec 32) (rc : BitVec 32) (sd : SrcDrv) :
    ∀ (f : Nat) (snk : MSnk) (o : Octet), (Ufw.Model.Endpoints.putRetry f snk o).1 ≠ R.diverge →
    ∀ (g : Nat), f ≤ g →
      Ufw.Gen.EndpFns.sts_cbc.loop1 undef g sk (kindCode snk.kind) o rc sd (snkD snk)
        = Res.val (rc64 (Ufw.Model.Endpoints.putRetry f snk o).1, sd, snkD (Ufw.Model.Endpoints.putRetry f snk o).2) := by
  intro f
  induction f with
  | zero => intro snk o h; exact absurd rfl h
  | succ f ih =>
    intro snk o hnd g hg
    obtain ⟨g', rfl⟩ : ∃ g', g = g' + 1 := ⟨g - 1, by omega⟩
    unfold Ufw.Gen.EndpFns.sts_cbc.loop1
    rw [gen_sink_put_octet, Res.bind_val]
    simp only []
    unfold Ufw.Model.Endpoints.putRetry Ufw.Model.Endpoints.sink_put_octet at hnd ⊢
    have hkind := snk_call_kind snk [o]
    have hle := snk_call_le snk [o]
    cases hc : snk.call [o] with
    | mk r s' =>
      rw [hc] at hnd hkind hle
      simp only [] at hnd hkind hle ⊢
      cases r with
      | diverge => exact absurd (by rw [hc]) (snk_call_not_diverge snk [o])
      | err e =>
        have c : rc32 (R.err e) ≠ 0#32 := by
          simp only [rc32]; intro h
          have := errnoOf_neg e; rw [h] at this; exact absurd this (by decide)
        simp only [c, ne_eq, not_false_eq_true, if_true]
        rfl
      | ok k =>
        have hk1 : k ≤ 1 := by have := hle k rfl; simpa using this
        rcases Nat.le_one_iff_eq_zero_or_eq_one.mp hk1 with h0 | h0
        · subst h0
          have c : ¬ rc32 (R.ok 0) ≠ 0#32 := by simp [rc32]
          simp only [c, if_false]
          have := ih s' o hnd g' (by omega)
          rw [hkind] at this
          exact this
        · subst h0
          have c : rc32 (R.ok 1) ≠ 0#32 := by decide
          simp only [c, ne_eq, not_false_eq_true, if_true]
          rfl

/-- `sts_cbc(source, sink)`: fuel beyond the length of the sink's script is enough -/
theorem gen_sts_cbc (G : Nat) (undef : Nat → BitVec 64) (src : MSrc) (snk : MSnk) (hG : snk.script.length + 1 ≤ G) :
    Ufw.Gen.EndpFns.sts_cbc G undef (kindCode src.kind) (srcD src) (kindCode snk.kind) (snkD snk)
      = Res.val (rc64 (Ufw.Model.Endpoints.sts_cbc src snk).1, srcD (Ufw.Model.Endpoints.sts_cbc src snk).2.1,
                 snkD (Ufw.Model.Endpoints.sts_cbc src snk).2.2) := by
  unfold Ufw.Gen.EndpFns.sts_cbc Ufw.Model.Endpoints.sts_cbc Ufw.Model.Endpoints.source_get_octet
  simp only []
  rw [gen_source_get_octet, Res.bind_val]
  simp only []
  have hf := src_call_facts src 1
  cases hc : src.call 1 with
  | mk r rest2 =>
    cases rest2 with
    | mk d s' =>
      rw [hc] at hf
      simp only [] at hf ⊢
      obtain ⟨_, hdl, hok⟩ := hf
      cases r with
      | diverge => exact absurd (by rw [hc]) (src_call_not_diverge src 1)
      | err e =>
        have c : (rc32 (R.err e)).toInt ≤ (0#32).toInt := by
          simp only [rc32]; exact Int.le_of_lt (errnoOf_neg e)
        simp only [c, if_true]
        rfl
      | ok k =>
        have hk := hok k rfl
        cases d with
        | nil =>
          have : k = 0 := by simpa using hk
          subst this
          have c : (rc32 (R.ok 0)).toInt ≤ (0#32).toInt := by decide
          simp only [c, if_true]
          rfl
        | cons o os =>
          have hos : os = [] := by
            have : os.length + 1 ≤ 1 := by simpa using hdl
            exact List.eq_nil_of_length_eq_zero (by omega)
          subst hos
          have : k = 1 := by simpa using hk
          subst this
          have c : ¬ (rc32 (R.ok 1)).toInt ≤ (0#32).toInt := by decide
          simp only [c, if_false]
          have hcell : cellOf ([o] ++ List.drop ([o] : List Octet).length [tr 8 (undef 0)]) (tr 8 (undef 0)) = o := rfl
          rw [hcell]
          have hnd := (Ufw.Lemmas.Endpoints.putRetry_spec (snk.script.length + 1) snk o).2.2 (by omega)
          rw [put_retry_loop undef (kindCode src.kind) (rc32 (R.ok 1)) (srcD s') (snk.script.length + 1) snk o hnd G hG]

/-- non-vacuity: an octet source (interrupt-free) into a chunk sink that answers 0 twice before it takes the octet -/
example : Ufw.Gen.EndpFns.sts_cbc 5 (fun _ => 0) 0#32 { stream := [0x41#8, 0x42#8], script := [] }
      1#32 { script := [DStep.ret 0#32, DStep.ret 0#32] }
    = Res.val (1#64, { stream := [0x42#8], script := [], calls := 1 }, { got := [0x41#8], script := [], calls := 3 }) := by decide

theorem snk_call_script (s : MSnk) (d : List Octet) : (s.call d).2.script.length ≤ s.script.length := by
  unfold Ufw.Model.Endpoints.Snk.call
  cases s.script with
  | nil => simp
  | cons st rest => cases st <;> simp

theorem putRetry_script : ∀ (f : Nat) (s : MSnk) (o : Octet),
    (Ufw.Model.Endpoints.putRetry f s o).2.script.length ≤ s.script.length ∧
    (Ufw.Model.Endpoints.putRetry f s o).2.kind = s.kind := by
  intro f
  induction f with
  | zero => intro s o; simp [Ufw.Model.Endpoints.putRetry]
  | succ f ih =>
    intro s o
    unfold Ufw.Model.Endpoints.putRetry Ufw.Model.Endpoints.sink_put_octet
    have h1 := snk_call_script s [o]
    have h2 := snk_call_kind s [o]
    cases hc : s.call [o] with
    | mk r s' =>
      rw [hc] at h1 h2
      simp only [] at h1 h2 ⊢
      cases r with
      | ok k =>
        cases k with
        | zero =>
          simp only []
          have := ih s' o
          exact ⟨by omega, by rw [this.2, h2]⟩
        | succ j => exact ⟨h1, h2⟩
      | err e => exact ⟨h1, h2⟩
      | diverge => exact ⟨h1, h2⟩

/-- one round of the plumbing: the sink's script does not grow, the kinds stay -/
theorem sts_cbc_keeps (src : MSrc) (snk : MSnk) :
    (Ufw.Model.Endpoints.sts_cbc src snk).2.2.script.length ≤ snk.script.length ∧
    (Ufw.Model.Endpoints.sts_cbc src snk).2.2.kind = snk.kind ∧
    (Ufw.Model.Endpoints.sts_cbc src snk).2.1.kind = src.kind := by
  unfold Ufw.Model.Endpoints.sts_cbc Ufw.Model.Endpoints.source_get_octet
  have hf := (src_call_facts src 1).1
  cases hc : src.call 1 with
  | mk r rest2 =>
    cases rest2 with
    | mk d s' =>
      rw [hc] at hf
      simp only [] at hf ⊢
      cases r with
      | diverge => exact ⟨Nat.le_refl _, rfl, hf⟩
      | err e => exact ⟨Nat.le_refl _, rfl, hf⟩
      | ok k =>
        cases d with
        | nil => exact ⟨Nat.le_refl _, rfl, hf⟩
        | cons o os =>
          simp only []
          have := putRetry_script (snk.script.length + 1) snk o
          exact ⟨this.1, this.2, hf⟩

end Ufw.Tie.EndpFns
