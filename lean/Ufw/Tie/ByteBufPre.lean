/-
Prelude of the generated translation of src/byte-buffer.c (Gen/ByteBuf.lean): the meaning the translator gives
to the C constructs it knows.  Hand-written, short, part of the trusted base of tie A for C18.

  * `size_t` addition and subtraction wrap at 2^64 (`addSz`, `subSz`);
  * an `int`/`ssize_t` result is a return code: 0 or a count, or a negated errno value (`rcInt`, `rcSz`);
  * `memcpy(b->data + p, src, n)`, `memcpy(dst, b->data + p, n)`, `memmove(b->data + d, b->data + s, n)` and
    `memset(b->data + p, v, n)` act on the memory object `b->data` points to and are out of bounds (`Rc.oob`)
    when the range is not inside it - the same convention as the hand-written model;
  * assigning to `b->data` makes the buffer refer to the caller's block (or to nothing, for NULL).
-/
import Ufw.Model.ByteBuffer

namespace Ufw.Tie.ByteBufPre
open Ufw Ufw.Model.ByteBuffer

/-- what a translated function answers: return code, the buffer object afterwards, the octets copied out -/
abbrev GRes := Rc × ByteBuffer × List Octet

/-- number of values of `size_t` on the target (2^64); kept opaque in proofs, which only use that it is positive -/
def szMod : Nat := 2 ^ 64
theorem szMod_pos : 0 < szMod := by decide
theorem szMod_eq : szMod = 2 ^ 64 := rfl
attribute [irreducible] szMod

def addSz (a b : Nat) : Nat := (a + b) % szMod
def subSz (a b : Nat) : Nat := (a + szMod - b % szMod) % szMod

def errOfErrno : Nat → Err
  | 12 => .enomem | 22 => .einval | 61 => .enodata | 5 => .eio | 11 => .eagain | 4 => .eintr | 32 => .epipe
  | 84 => .eilseq | 105 => .enobufs | 90 => .emsgsize | 74 => .ebadmsg | 71 => .eproto | 14 => .efault
  | n => .other n

def rcInt (v : Int) : Rc := if v ≥ 0 then .ok v.toNat else .err (errOfErrno (-v).toNat)
def rcSz (n : Nat) : Rc := .ok n

def ret (b : ByteBuffer) (out : List Octet) (rc : Rc) : GRes := (rc, b, out)

def setData (b : ByteBuffer) (data : Option (List Octet)) : ByteBuffer :=
  match data with
  | some m => { b with null := false, mem := m }
  | none => { b with null := true, mem := [] }

/-- `memcpy(b->data + pos, src, n)` -/
def memIn (b : ByteBuffer) (out : List Octet) (pos : Nat) (src : List Octet) (n : Nat)
    (k : ByteBuffer → List Octet → GRes) : GRes :=
  match writeAt b.mem pos (src.take n) with
  | none => (.oob, b, out)
  | some m => k { b with mem := m } out

/-- `memcpy(dst, b->data + pos, n)` -/
def memOut (b : ByteBuffer) (out : List Octet) (pos n : Nat) (k : ByteBuffer → List Octet → GRes) : GRes :=
  match readAt b.mem pos n with
  | none => (.oob, b, out)
  | some o => k b o

/-- `memmove(b->data + dst, b->data + src, n)` -/
def memMove (b : ByteBuffer) (out : List Octet) (dst src n : Nat) (k : ByteBuffer → List Octet → GRes) : GRes :=
  match readAt b.mem src n with
  | none => (.oob, b, out)
  | some u =>
    match writeAt b.mem dst u with
    | none => (.oob, b, out)
    | some m => k { b with mem := m } out

/-- `memset(b->data + pos, v, n)` -/
def memSet (b : ByteBuffer) (out : List Octet) (pos v n : Nat) (k : ByteBuffer → List Octet → GRes) : GRes :=
  match writeAt b.mem pos (List.replicate n (BitVec.ofNat 8 v)) with
  | none => (.oob, b, out)
  | some m => k { b with mem := m } out

end Ufw.Tie.ByteBufPre
