/-
Tie A (C10, C11): where a store lies on its medium, as clang reads src/persistent-storage.c.  `checksum_size` is 2
for the 16-bit kind and 4 for every other value of the type field; `set_data_address` / `persistent_place` put the
data directly behind the checksum field: the model's `Store.dataAddr = sumAddr + width`, computed in `uint32_t`
(the model's domain is placements that do not wrap: `address + width < 2^32`, the explicit hypothesis here).
-/
import Ufw.Gen.PstFns
import Ufw.Model.Persist
namespace Ufw.Tie.PstFns
open Ufw.Tie.CPre

/-- `checksum_size`: 2 for PERSISTENT_CHECKSUM_16BIT (0), 4 otherwise -/
theorem gen_checksum_size (fuel : Nat) (t : BitVec 32) :
    Ufw.Gen.PstFns.checksum_size fuel t = Res.val (if t = 0#32 then 2#64 else 4#64) := by
  unfold Ufw.Gen.PstFns.checksum_size
  by_cases h0 : t = 0#32
  · simp only [h0, if_true]
  · simp only [h0, if_false, ite_self]

/-- the width is one the model knows -/
theorem checksum_size_width (fuel : Nat) (t : BitVec 32) :
    ∃ w, Ufw.Gen.PstFns.checksum_size fuel t = Res.val w ∧ (w.toNat = 2 ∨ w.toNat = 4) := by
  rw [gen_checksum_size]
  by_cases h0 : t = 0#32
  · exact ⟨2#64, by simp only [h0, if_true], Or.inl rfl⟩
  · exact ⟨4#64, by simp only [h0, if_false], Or.inr rfl⟩

/-- `set_data_address`: data address = checksum address + checksum size -/
theorem gen_set_data_address (fuel : Nat) (old addr : BitVec 32) (size : BitVec 64)
    (hfit : addr.toNat + size.toNat < 2 ^ 32) :
    ∃ d, Ufw.Gen.PstFns.set_data_address fuel old addr size = Res.val ((), d) ∧ d.toNat = addr.toNat + size.toNat := by
  unfold Ufw.Gen.PstFns.set_data_address
  refine ⟨_, rfl, ?_⟩
  simp only [tr, zx, BitVec.toNat_setWidth, BitVec.toNat_add]
  have := addr.isLt
  omega

/-- `persistent_place(store, address)`: the checksum field goes to `address`, the data to the model's `dataAddr` -/
theorem gen_persistent_place (fuel : Nat) (old oldc address : BitVec 32) (size : BitVec 64) (s : Ufw.Model.Persist.Store)
    (hs : s.sumAddr = address.toNat) (hw : s.width = size.toNat) (hfit : address.toNat + size.toNat < 2 ^ 32) :
    ∃ d, Ufw.Gen.PstFns.persistent_place fuel old oldc size address = Res.val ((), d, address) ∧ d.toNat = s.dataAddr := by
  unfold Ufw.Gen.PstFns.persistent_place
  obtain ⟨d, hd, hv⟩ := gen_set_data_address fuel old address size hfit
  refine ⟨d, ?_, ?_⟩
  · simp only [hd, Res.bind_val]
  · rw [hv, Ufw.Model.Persist.Store.dataAddr, hs, hw]

example : Ufw.Gen.PstFns.persistent_place 1 0#32 0#32 2#64 1000#32 = Res.val ((), 1002#32, 1000#32) := by decide

end Ufw.Tie.PstFns
