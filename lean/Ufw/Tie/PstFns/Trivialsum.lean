/-
Tie A (C10, C11): `trivialsum` of src/persistent-storage.c - the checksum a store uses when the user configures
none - as clang reads it, run with enough fuel on a block of exactly `n` octets, is the model's `sum16`: the sum
of the octets modulo 2^16, started at `init`; it never leaves the block, and a count beyond the block is an access
outside it.  With that the streamability hypothesis of the C10 / C11 theorems is discharged for the translated C
itself (`c_trivialsum_streamable`), not only for the model's copy of the function.
-/
import Ufw.Gen.PstFns
import Ufw.Model.Persist
namespace Ufw.Tie.PstFns
open Ufw.Tie.CPre

theorem zx0 : (zx 64 (0#32)).toNat = 0 := by decide

/-- one round of the loop body: 16-bit value of `(init + data[i]) & 0xffff` computed in `int` -/
theorem body (init : BitVec 16) (o : BitVec 8) :
    (tr 16 (((zx 32 init) + (zx 32 o)) &&& (65535#32))).toNat = (init.toNat + o.toNat) % 65536 := by
  have h1 := init.isLt
  have h2 := o.isLt
  simp only [tr, zx, BitVec.toNat_setWidth, BitVec.toNat_and, BitVec.toNat_add, BitVec.toNat_ofNat]
  have : (65535 % 2 ^ 32) = 2 ^ 16 - 1 := by decide
  rw [this, Nat.and_two_pow_sub_one_eq_mod]
  omega

theorem loop1_spec (mem : List (BitVec 8)) :
    ∀ (fuel : Nat) (n : BitVec 64) (init : BitVec 16) (i : BitVec 64),
      n.toNat = mem.length → i.toNat ≤ n.toNat → n.toNat - i.toNat < fuel →
      ∃ r, Ufw.Gen.PstFns.trivialsum.loop1 mem fuel 0 n init i = Res.val r ∧
        r.toNat = Ufw.Model.Persist.sum16 (mem.drop i.toNat) init.toNat := by
  intro fuel
  induction fuel with
  | zero => intro _ _ _ _ _ h; omega
  | succ fuel ih =>
    intro n init i hlen hi hfuel
    unfold Ufw.Gen.PstFns.trivialsum.loop1
    by_cases hn : i.toNat < n.toNat
    · rw [if_pos hn]
      have hsrc : i.toNat < mem.length := by omega
      rw [Nat.zero_add, load_some mem i.toNat _ mem[i.toNat] (List.getElem?_eq_getElem hsrc)]
      have hi1 : (i + 1#64).toNat = i.toNat + 1 := by
        rw [BitVec.toNat_add]; have := n.isLt; simp; omega
      obtain ⟨r, hr, hv⟩ := ih n (tr 16 (((zx 32 init) + (zx 32 mem[i.toNat])) &&& (65535#32))) (i + 1#64) hlen (by omega) (by omega)
      refine ⟨r, hr, ?_⟩
      rw [hv, hi1, body, List.drop_eq_getElem_cons hsrc]
      simp only [Ufw.Model.Persist.sum16, List.foldl_cons]
    · rw [if_neg hn]
      have : mem.drop i.toNat = [] := List.drop_eq_nil_of_le (by omega)
      exact ⟨init, rfl, by rw [this]; rfl⟩

/-- `trivialsum(data, n, init)` on a block of `n` octets is the model's `sum16` -/
theorem gen_trivialsum (fuel : Nat) (mem : List (BitVec 8)) (n : BitVec 64) (init : BitVec 16)
    (hlen : n.toNat = mem.length) (hfuel : mem.length < fuel) :
    ∃ r, Ufw.Gen.PstFns.trivialsum fuel mem n init = Res.val r ∧ r.toNat = Ufw.Model.Persist.sum16 mem init.toNat := by
  unfold Ufw.Gen.PstFns.trivialsum
  simp only []
  obtain ⟨r, hr, hv⟩ := loop1_spec mem fuel n init (zx 64 (0#32)) hlen (by rw [zx0]; omega) (by rw [zx0]; omega)
  exact ⟨r, hr, by rw [hv, zx0]; rfl⟩

/-- a count beyond the block is an access outside it: the function reads exactly `n` octets -/
theorem gen_trivialsum_oob (fuel : Nat) (mem : List (BitVec 8)) (n : BitVec 64) (init : BitVec 16)
    (hlen : mem.length < n.toNat) (hfuel : mem.length < fuel) :
    Ufw.Gen.PstFns.trivialsum fuel mem n init = Res.oob := by
  unfold Ufw.Gen.PstFns.trivialsum
  simp only []
  suffices h : ∀ (fuel : Nat) (init : BitVec 16) (i : BitVec 64), i.toNat ≤ mem.length →
      mem.length - i.toNat < fuel → Ufw.Gen.PstFns.trivialsum.loop1 mem fuel 0 n init i = Res.oob from
    h fuel init _ (by rw [zx0]; omega) (by rw [zx0]; omega)
  intro fuel
  induction fuel with
  | zero => intro _ _ _ h; omega
  | succ fuel ih =>
    intro init i hs hf
    unfold Ufw.Gen.PstFns.trivialsum.loop1
    rw [if_pos (by omega), Nat.zero_add]
    by_cases hsrc : i.toNat < mem.length
    · rw [load_some mem i.toNat _ mem[i.toNat] (List.getElem?_eq_getElem hsrc)]
      have hi1 : (i + 1#64).toNat = i.toNat + 1 := by
        rw [BitVec.toNat_add]; have := n.isLt; simp; omega
      exact ih _ (i + 1#64) (by omega) (by omega)
    · exact load_none mem i.toNat _ (by omega)

/-- the translated C is streamable: summing `a ++ b` from `i` is summing `b` from the sum of `a` -/
theorem c_trivialsum_streamable (fuel : Nat) (a b : List (BitVec 8)) (n na nb : BitVec 64) (init : BitVec 16)
    (hn : n.toNat = (a ++ b).length) (hna : na.toNat = a.length) (hnb : nb.toNat = b.length) (hfuel : (a ++ b).length < fuel) :
    ∃ r ra, Ufw.Gen.PstFns.trivialsum fuel (a ++ b) n init = Res.val r ∧
      Ufw.Gen.PstFns.trivialsum fuel a na init = Res.val ra ∧
      Ufw.Gen.PstFns.trivialsum fuel b nb ra = Res.val r := by
  have hla : a.length < fuel := by simp only [List.length_append] at hfuel; omega
  have hlb : b.length < fuel := by simp only [List.length_append] at hfuel; omega
  obtain ⟨r, hr, hv⟩ := gen_trivialsum fuel (a ++ b) n init hn hfuel
  obtain ⟨ra, hra, hva⟩ := gen_trivialsum fuel a na init hna hla
  obtain ⟨rb, hrb, hvb⟩ := gen_trivialsum fuel b nb ra hnb hlb
  refine ⟨r, ra, hr, hra, ?_⟩
  rw [hrb]
  congr 1
  apply BitVec.eq_of_toNat_eq
  rw [hvb, hv, hva]
  simp only [Ufw.Model.Persist.sum16, List.foldl_append]

example : Ufw.Gen.PstFns.trivialsum 9 [0xff#8, 0xff#8, 0x03#8] 3#64 0xfffe#16 = Res.val 0x01ff#16 := by decide

end Ufw.Tie.PstFns
