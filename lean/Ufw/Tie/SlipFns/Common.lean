/-
Tie A (C12): how the prelude's source and sink (what the translated C runs against) read as the model's, and the facts
about the two sink functions the obligations share (nothing here mentions a generated definition).
-/
import Ufw.Tie.CPre
import Ufw.Model.Slip
namespace Ufw.Tie.SlipFns
open Ufw Ufw.Tie.CPre

/-- the error a (negative) return code stands for -/
def errOf (rc : BitVec 32) : Err :=
  match (-rc).toNat with
  | 12 => .enomem | 22 => .einval | 61 => .enodata | 5 => .eio | 11 => .eagain | 4 => .eintr | 32 => .epipe
  | 84 => .eilseq | 105 => .enobufs | 90 => .emsgsize | 74 => .ebadmsg | 71 => .eproto | 14 => .efault
  | n => .other n

def evM : SrcEv → Ufw.Model.Slip.SrcEv
  | .octet v => .octet v
  | .fail rc => .err (errOf rc)

def srcM (s : Src) : List Ufw.Model.Slip.SrcEv := s.map evM

def snkM (s : Snk) : Ufw.Model.Slip.Snk := { got := s.got, room := s.room, full := errOf s.full }

/-- the sources and sinks of the statements: every failing answer is a negative code -/
def SrcOk (s : Src) : Prop := ∀ rc, SrcEv.fail rc ∈ s → rc.toInt < 0
def SnkOk (s : Snk) : Prop := s.full.toInt < 0

theorem tr_signExtend (e : BitVec 32) : (tr 32 (e.signExtend 64) : BitVec 32) = e := by
  unfold tr
  apply BitVec.eq_of_getLsbD_eq
  intro i hi
  have h64 : i < 64 := by omega
  rw [BitVec.getLsbD_setWidth, BitVec.getLsbD_signExtend]
  simp [hi, h64]

theorem put_zero (s : Snk) (o : BitVec 8) (h : s.room = 0) :
    sink_put_octet s o = Res.val (s.full, s) ∧ (snkM s).put o = .error (errOf s.full) := by
  refine ⟨?_, ?_⟩ <;> simp [sink_put_octet, Ufw.Model.Slip.Snk.put, snkM, h]

theorem put_succ (s : Snk) (o : BitVec 8) (n : Nat) (h : s.room = n + 1) :
    sink_put_octet s o = Res.val (1#32, { s with got := s.got ++ [o], room := n }) ∧
    (snkM s).put o = .ok (snkM { s with got := s.got ++ [o], room := n }) := by
  refine ⟨?_, ?_⟩ <;> simp [sink_put_octet, Ufw.Model.Slip.Snk.put, snkM, h]

/-- the two ways of putting a list of octets agree -/
theorem putAll_model (s : Snk) (l : List (BitVec 8)) :
    (snkM s).putAll l = ((putAll s l).1.map errOf, snkM (putAll s l).2) := by
  induction l generalizing s with
  | nil => rfl
  | cons o os ih =>
    unfold Ufw.Model.Slip.Snk.putAll putAll
    cases hr : s.room with
    | zero =>
      have := (put_zero s o hr).2
      rw [this]
      simp
    | succ n =>
      have := (put_succ s o n hr).2
      rw [this]
      simp only []
      rw [ih]

theorem putAll_full (s : Snk) (l : List (BitVec 8)) (e : BitVec 32) (h : (putAll s l).1 = some e) : e = s.full := by
  induction l generalizing s with
  | nil => simp [putAll] at h
  | cons o os ih =>
    unfold putAll at h
    cases hr : s.room with
    | zero => rw [hr] at h; simp at h; exact h.symm
    | succ n => rw [hr] at h; simp only [] at h; exact ih { s with got := s.got ++ [o], room := n } h

theorem putAll_ok (s : Snk) (l : List (BitVec 8)) (hs : SnkOk s) : SnkOk (putAll s l).2 := by
  induction l generalizing s with
  | nil => exact hs
  | cons o os ih =>
    unfold putAll
    cases hr : s.room with
    | zero => exact hs
    | succ n => simp only []; exact ih _ hs

/-- the start-of-frame option as the C code tests it: bit 0 of the context's flags -/
def sofOf (flags : BitVec 32) : Bool :=
  decide (((zx 64 flags) &&& ((1#64) <<< ((0#32)).toNat)) = ((1#64) <<< ((0#32)).toNat))

theorem enodata_iff (rc : BitVec 32) : errOf rc = .enodata ↔ rc = -(61#32) := by
  constructor
  · intro h
    unfold errOf at h
    have : (-rc).toNat = 61 := by
      revert h; split <;> intro h <;> first | assumption | rfl | cases h
    have h2 : -rc = 61#32 := BitVec.eq_of_toNat_eq (by rw [this]; rfl)
    have : rc = -(-rc) := by simp
    rw [this, h2]
  · intro h; rw [h]; decide

theorem eilseq_iff (rc : BitVec 32) : errOf rc = .eilseq ↔ rc = -(84#32) := by
  constructor
  · intro h
    unfold errOf at h
    have : (-rc).toNat = 84 := by
      revert h; split <;> intro h <;> first | assumption | rfl | cases h
    have h2 : -rc = 84#32 := BitVec.eq_of_toNat_eq (by rw [this]; rfl)
    have : rc = -(-rc) := by simp
    rw [this, h2]
  · intro h; rw [h]; decide

/-- the decoder states as the enumeration constants of the C code -/
def stCode : Ufw.Model.Slip.St → BitVec 32
  | .searchStart => 0#32
  | .searchEnd => 1#32
  | .normal => 2#32

end Ufw.Tie.SlipFns
