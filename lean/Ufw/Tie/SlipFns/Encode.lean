/-
Tie A (C12): `rfc1055_encode` as clang reads it (with `rfc1055_open`, `rfc1055_close`, `rfc1055_encode_octet`), run
against the prelude's source and sink, does what the model's `rfc1055_encode` does: same octets into the sink, same
return, the source left at the same place - and it ends within one round per answer of the source.
-/
import Ufw.Gen.SlipFns
import Ufw.Tie.SlipFns.Common
namespace Ufw.Tie.SlipFns
open Ufw Ufw.Tie.CPre
open Ufw.Model.Slip (RAW_EOF RAW_ESC ESC_EOF ESC_ESC escape encodeLoop EncRes)

/-- the model's return for a code of the C function -/
def retOf (rc : BitVec 32) : Option Err := if rc.toInt < 0 then some (errOf rc) else none

/-- what a run of the C function is in the model's terms -/
def encM (r : BitVec 32 × Src × Snk) : EncRes := ⟨retOf r.1, snkM r.2.2, srcM r.2.1⟩

theorem zero_toInt : (0#32).toInt = 0 := by decide
theorem eof_octet : (tr 8 (192#32)) = RAW_EOF := by decide

theorem close_spec (fuel : Nat) (s : Snk) (hs : SnkOk s) :
    ∃ rc s', Ufw.Gen.SlipFns.rfc1055_close fuel s = Res.val (rc, s') ∧
      ((∃ m, (snkM s).put RAW_EOF = .ok m ∧ retOf rc = none ∧ snkM s' = m) ∨
       (∃ e, (snkM s).put RAW_EOF = .error e ∧ retOf rc = some e ∧ s' = s)) := by
  unfold Ufw.Gen.SlipFns.rfc1055_close
  rw [eof_octet]
  cases hr : s.room with
  | zero =>
    have ⟨h1, h2⟩ := put_zero s RAW_EOF hr
    rw [h1, Res.bind_val]
    refine ⟨_, _, rfl, Or.inr ⟨_, h2, ?_, rfl⟩⟩
    have : s.full.toInt < (0#32).toInt := by rw [zero_toInt]; exact hs
    simp only [this, if_true]
    exact if_pos hs
  | succ n =>
    have ⟨h1, h2⟩ := put_succ s RAW_EOF n hr
    rw [h1, Res.bind_val]
    refine ⟨_, _, rfl, Or.inl ⟨_, h2, ?_, rfl⟩⟩
    have : ¬ (1#32).toInt < (0#32).toInt := by decide
    simp only [this, if_false]
    decide

theorem is_esc : ∀ d : BitVec 8, ((zx 32 d) = (219#32)) ↔ d = RAW_ESC := by decide +kernel
theorem is_eof : ∀ d : BitVec 8, ((zx 32 d) = (192#32)) ↔ d = RAW_EOF := by decide +kernel

theorem chunk2 (s : Snk) (a b : BitVec 8) (hs : SnkOk s) :
    ∃ rc s', sink_put_chunk s [a, b] (2#64) = Res.val (rc, s') ∧ SnkOk s' ∧
      (((snkM s).putAll [a, b] = (none, snkM s') ∧ ¬ (tr 32 rc : BitVec 32).toInt < 0) ∨
       ((snkM s).putAll [a, b] = (some (errOf (tr 32 rc)), snkM s') ∧ (tr 32 rc : BitVec 32).toInt < 0)) := by
  unfold sink_put_chunk
  rw [if_neg (show ¬ (2#64 = 0#64) by decide), if_neg (show ¬ ([a, b] : List (BitVec 8)).length < (2#64).toNat from by show ¬ 2 < (2#64).toNat; decide)]
  have hm := putAll_model s [a, b]
  have hok := putAll_ok s [a, b] hs
  have h2 : ([a, b] : List (BitVec 8)).take (2#64).toNat = [a, b] := rfl
  rw [h2]
  cases hp : putAll s [a, b] with
  | mk r s' =>
    rw [hp] at hm hok
    cases r with
    | none =>
      refine ⟨_, _, rfl, hok, Or.inl ⟨hm, by decide⟩⟩
    | some e =>
      have he : e = s.full := putAll_full s [a, b] e (by rw [hp])
      have htr : (tr 32 (e.signExtend 64) : BitVec 32) = e := tr_signExtend e
      refine ⟨_, _, rfl, hok, Or.inr ⟨?_, ?_⟩⟩
      · rw [htr]; exact hm
      · rw [htr, he]; exact hs

theorem encode_octet_spec (fuel : Nat) (undef : Nat → BitVec 64) (s : Snk) (d : BitVec 8) (hs : SnkOk s) :
    ∃ rc s', Ufw.Gen.SlipFns.rfc1055_encode_octet fuel undef s d = Res.val (rc, s') ∧ SnkOk s' ∧
      (((snkM s).putAll (escape d) = (none, snkM s') ∧ ¬ rc.toInt < 0) ∨
       ((snkM s).putAll (escape d) = (some (errOf rc), snkM s') ∧ rc.toInt < 0)) := by
  unfold Ufw.Gen.SlipFns.rfc1055_encode_octet
  dsimp only
  by_cases h1 : d = RAW_ESC
  · rw [if_pos ((is_esc d).mpr h1)]
    obtain ⟨rc, s', hc, hok, hr⟩ := chunk2 s 0xdb#8 0xdd#8 hs
    have hd : Ufw.Gen.SlipFns.esc_esc.drop 0 = [0xdb#8, 0xdd#8] := rfl
    rw [hd, hc, Res.bind_val]
    have he : escape d = [0xdb#8, 0xdd#8] := by subst h1; rfl
    rw [he]
    exact ⟨_, _, rfl, hok, hr⟩
  · rw [if_neg (fun h => h1 ((is_esc d).mp h))]
    by_cases h2 : d = RAW_EOF
    · rw [if_pos ((is_eof d).mpr h2)]
      obtain ⟨rc, s', hc, hok, hr⟩ := chunk2 s 0xdb#8 0xdc#8 hs
      have hd : Ufw.Gen.SlipFns.esc_eof.drop 0 = [0xdb#8, 0xdc#8] := rfl
      rw [hd, hc, Res.bind_val]
      have he : escape d = [0xdb#8, 0xdc#8] := by subst h2; rfl
      rw [he]
      exact ⟨_, _, rfl, hok, hr⟩
    · rw [if_neg (fun h => h2 ((is_eof d).mp h))]
      have he : escape d = [d] := by unfold escape; rw [if_neg h1, if_neg h2]
      rw [he]
      cases hr : s.room with
      | zero =>
        have ⟨p1, p2⟩ := put_zero s d hr
        rw [p1, Res.bind_val]
        refine ⟨_, _, rfl, hs, Or.inr ⟨?_, hs⟩⟩
        unfold Ufw.Model.Slip.Snk.putAll; rw [p2]
      | succ n =>
        have ⟨p1, p2⟩ := put_succ s d n hr
        rw [p1, Res.bind_val]
        refine ⟨_, _, rfl, hs, Or.inl ⟨?_, show ¬ (1#32).toInt < 0 from by decide⟩⟩
        unfold Ufw.Model.Slip.Snk.putAll; rw [p2]; rfl

theorem neg_enodata_lt : NEG_ENODATA.toInt < (0#32).toInt := by decide
theorem errOf_enodata : errOf NEG_ENODATA = .enodata := by decide

theorem encode_loop (undef : Nat → BitVec 64) (flags : BitVec 32) :
    ∀ (src : Src) (fuel : Nat) (snk : Snk), SrcOk src → SnkOk snk → src.length < fuel →
      ∃ r, Ufw.Gen.SlipFns.rfc1055_encode.loop1 undef fuel flags src snk = Res.val r ∧
        encM r = encodeLoop (srcM src) (snkM snk) := by
  intro src
  induction src with
  | nil =>
    intro fuel snk _ hs hf
    cases fuel with
    | zero => omega
    | succ fuel =>
      unfold Ufw.Gen.SlipFns.rfc1055_encode.loop1
      simp only [source_get_octet, Res.bind_val, cellOf, List.headD_cons]
      have : (NEG_ENODATA = -(61#32) ∨ NEG_ENODATA = 0#32) := Or.inl rfl
      rw [if_pos this]
      obtain ⟨rc, s', hc, hr⟩ := close_spec fuel snk hs
      rw [hc, Res.bind_val]
      refine ⟨_, rfl, ?_⟩
      unfold encM srcM encodeLoop
      rcases hr with ⟨m, h1, h2, h3⟩ | ⟨e, h1, h2, h3⟩
      · simp only [List.map_nil]; rw [h1]; simp only [h2, h3]
      · simp only [List.map_nil]; rw [h1]; simp only [h2, h3]
  | cons ev rest ih =>
    intro fuel snk hsrc hs hf
    cases fuel with
    | zero => simp at hf
    | succ fuel =>
      unfold Ufw.Gen.SlipFns.rfc1055_encode.loop1
      have hrest : SrcOk rest := fun rc h => hsrc rc (List.mem_cons_of_mem _ h)
      cases ev with
      | octet d =>
        simp only [source_get_octet, Res.bind_val, cellOf, List.set_cons_zero, List.headD_cons]
        rw [if_neg (by decide), if_neg (by decide)]
        obtain ⟨rc, s', hc, hok, hr⟩ := encode_octet_spec fuel undef snk d hs
        rw [hc, Res.bind_val]
        simp only []
        have hm : srcM (SrcEv.octet d :: rest) = .octet d :: srcM rest := rfl
        rw [hm]
        unfold encodeLoop
        rcases hr with ⟨h1, h2⟩ | ⟨h1, h2⟩
        · rw [if_neg (by rw [zero_toInt]; exact h2), h1]
          simp only []
          exact ih fuel s' hrest hok (by simp at hf; omega)
        · rw [if_pos (by rw [zero_toInt]; exact h2), h1]
          refine ⟨_, rfl, ?_⟩
          unfold encM retOf
          simp only [h2, if_true]
      | fail rc =>
        have hneg : rc.toInt < 0 := hsrc rc (List.mem_cons_self)
        simp only [source_get_octet, Res.bind_val, cellOf, List.headD_cons]
        have hm : srcM (SrcEv.fail rc :: rest) = .err (errOf rc) :: srcM rest := rfl
        rw [hm]
        by_cases he : rc = -(61#32)
        · rw [if_pos (Or.inl he)]
          obtain ⟨rc2, s', hc, hr⟩ := close_spec fuel snk hs
          rw [hc, Res.bind_val]
          refine ⟨_, rfl, ?_⟩
          have : errOf rc = .enodata := (enodata_iff rc).mpr he
          rw [this]
          unfold encM encodeLoop
          rcases hr with ⟨m, h1, h2, h3⟩ | ⟨e, h1, h2, h3⟩
          · rw [h1]; simp only [h2, h3]
          · rw [h1]; simp only [h2, h3]
        · have h0 : rc ≠ 0#32 := by intro h; rw [h] at hneg; exact absurd hneg (by decide)
          rw [if_neg (by intro h; rcases h with h | h; exact he h; exact h0 h)]
          rw [if_pos (by rw [zero_toInt]; exact hneg)]
          refine ⟨_, rfl, ?_⟩
          have hne : errOf rc ≠ .enodata := fun h => he ((enodata_iff rc).mp h)
          unfold encM retOf
          simp only [hneg, if_true]
          cases hE : errOf rc <;> first | (exact absurd hE hne) | (unfold encodeLoop; rfl)

/-- `rfc1055_encode(ctx, source, sink)`: for every source and sink whose failures are negative codes, with one round
    of fuel per answer of the source, the run ends and is the model's run -/
theorem gen_rfc1055_encode (fuel : Nat) (undef : Nat → BitVec 64) (flags : BitVec 32) (src : Src) (snk : Snk)
    (hsrc : SrcOk src) (hs : SnkOk snk) (hf : src.length < fuel) :
    ∃ r, Ufw.Gen.SlipFns.rfc1055_encode fuel undef flags src snk = Res.val r ∧
      encM r = Ufw.Model.Slip.rfc1055_encode (sofOf flags) (srcM src) (snkM snk) := by
  unfold Ufw.Gen.SlipFns.rfc1055_encode Ufw.Gen.SlipFns.rfc1055_open Ufw.Model.Slip.rfc1055_encode sofOf
  by_cases hsof : ((zx 64 flags) &&& ((1#64) <<< ((0#32)).toNat)) = ((1#64) <<< ((0#32)).toNat)
  · rw [if_pos hsof, eof_octet]
    simp only [hsof, decide_true, if_true]
    cases hr : snk.room with
    | zero =>
      have ⟨h1, h2⟩ := put_zero snk RAW_EOF hr
      rw [h1, Res.bind_val, h2]
      have : snk.full.toInt < (0#32).toInt := by rw [zero_toInt]; exact hs
      simp only [this, if_true, Res.bind_val]
      refine ⟨_, rfl, ?_⟩
      unfold encM retOf
      simp only []
      have hs' : snk.full.toInt < 0 := hs
      rw [if_pos hs']
    | succ n =>
      have ⟨h1, h2⟩ := put_succ snk RAW_EOF n hr
      rw [h1, Res.bind_val, h2]
      have : ¬ (1#32).toInt < (0#32).toInt := by decide
      simp only [this, if_false, Res.bind_val]
      have : ¬ (0#32).toInt < (0#32).toInt := by decide
      simp only [this, if_false]
      exact encode_loop undef flags src fuel _ hsrc hs hf
  · rw [if_neg hsof]
    simp only [hsof, decide_false, Res.bind_val]
    have : ¬ (0#32).toInt < (0#32).toInt := by decide
    simp only [this, if_false, Bool.false_eq_true]
    exact encode_loop undef flags src fuel _ hsrc hs hf

/-- non-vacuity: payload `c0 41` with start-of-frame delimiter into a roomy sink -/
example : Ufw.Gen.SlipFns.rfc1055_encode 5 (fun _ => 0) 1#32 [SrcEv.octet 0xc0#8, SrcEv.octet 0x41#8] { room := 16, full := -(12#32) }
    = Res.val (0#32, [], { got := [0xc0#8, 0xdb#8, 0xdc#8, 0x41#8, 0xc0#8], room := 11, full := -(12#32) }) := by decide

end Ufw.Tie.SlipFns
