/-
C12 stated over the translated C itself: what the property theorems say about the model, carried through the tie
(`gen_rfc1055_encode`, `gen_rfc1055_decode`) to `Ufw.Gen.SlipFns.rfc1055_encode` / `rfc1055_decode` - the text clang
read from src/rfc1055.c on this run.
-/
import Ufw.Tie.SlipFns.Encode
import Ufw.Tie.SlipFns.Decode
import Ufw.Props.C12
namespace Ufw.Tie.SlipFns
open Ufw Ufw.Tie.CPre

/-- the prelude's source that delivers `p` and then runs dry -/
def payloadSrc (p : List (BitVec 8)) : Src := p.map SrcEv.octet

theorem payloadSrc_ok (p : List (BitVec 8)) : SrcOk (payloadSrc p) := by
  intro rc h; unfold payloadSrc at h; simp at h

theorem srcM_payload (p : List (BitVec 8)) : srcM (payloadSrc p) = Ufw.Lemmas.Slip.octets p := by
  unfold srcM payloadSrc Ufw.Lemmas.Slip.octets; simp [evM, Function.comp_def]

/-- the translated encoder, given a payload and a sink with enough room, returns 0 and has put exactly the RFC 1055
    encoding (delimiters, escapes) behind what the sink held; it needs one round of fuel per payload octet -/
theorem c_encode_emits (fuel : Nat) (undef : Nat → BitVec 64) (flags : BitVec 32) (p : List (BitVec 8)) (snk : Snk)
    (hs : SnkOk snk) (hf : p.length < fuel)
    (hroom : (Ufw.Model.Slip.enc (sofOf flags) p).length ≤ snk.room) :
    ∃ r, Ufw.Gen.SlipFns.rfc1055_encode fuel undef flags (payloadSrc p) snk = Res.val r ∧
      ¬ r.1.toInt < 0 ∧ r.2.2.got = snk.got ++ Ufw.Model.Slip.enc (sofOf flags) p := by
  obtain ⟨r, h1, h2⟩ := gen_rfc1055_encode fuel undef flags (payloadSrc p) snk (payloadSrc_ok p) hs
    (by unfold payloadSrc; simpa using hf)
  refine ⟨r, h1, ?_, ?_⟩
  · have := (Ufw.Props.C12.encode_emits_enc (sofOf flags) p (snkM snk) hroom).1
    rw [srcM_payload] at h2
    rw [← h2] at this
    unfold encM retOf at this
    simp only [] at this
    intro hneg
    rw [if_pos hneg] at this
    cases this
  · have := (Ufw.Props.C12.encode_emits_enc (sofOf flags) p (snkM snk) hroom).2
    rw [srcM_payload] at h2
    rw [← h2] at this
    exact this

/-- the translated decoder, fed the encoding of `p` followed by anything, returns 1 (a frame), has handed exactly `p`
    to the sink and is ready for the next frame -/
theorem c_decode_encode (fuel : Nat) (undef : Nat → BitVec 64) (flags : BitVec 32) (p : List (BitVec 8)) (rest : Src)
    (snk : Snk) (hs : SnkOk snk) (hrest : SrcOk rest)
    (hf : (payloadSrc (Ufw.Model.Slip.enc (sofOf flags) p) ++ rest).length < fuel) (hroom : p.length ≤ snk.room) :
    ∃ r, Ufw.Gen.SlipFns.rfc1055_decode fuel undef (stCode (Ufw.Props.C12.ready (sofOf flags))) flags
          (payloadSrc (Ufw.Model.Slip.enc (sofOf flags) p) ++ rest) snk = Res.val r ∧
      r.1 = 1#32 ∧ stOf r.2.1 = Ufw.Props.C12.ready (sofOf flags) ∧ srcM r.2.2.1 = srcM rest ∧
      r.2.2.2.got = snk.got ++ p := by
  have hsrc : SrcOk (payloadSrc (Ufw.Model.Slip.enc (sofOf flags) p) ++ rest) := by
    intro rc h
    rcases List.mem_append.mp h with h | h
    · exact payloadSrc_ok _ rc h
    · exact hrest rc h
  obtain ⟨r, h1, h2⟩ := gen_rfc1055_decode fuel undef flags (Ufw.Props.C12.ready (sofOf flags)) _ snk hsrc hs hf
  have hm : srcM (payloadSrc (Ufw.Model.Slip.enc (sofOf flags) p) ++ rest)
      = Ufw.Lemmas.Slip.octets (Ufw.Model.Slip.enc (sofOf flags) p) ++ srcM rest := by
    unfold srcM; rw [List.map_append]; exact congrArg (· ++ _) (srcM_payload _)
  rw [hm, Ufw.Props.C12.decode_encode (sofOf flags) p (srcM rest) (snkM snk) hroom] at h2
  refine ⟨r, h1, ?_, ?_, ?_, ?_⟩
  · have := congrArg Ufw.Model.Slip.Res.ret h2
    unfold decM retD at this
    simp only [] at this
    by_cases h : r.1 = 1#32
    · exact h
    · rw [if_neg h] at this; cases this
  · exact congrArg Ufw.Model.Slip.Res.st h2
  · exact congrArg Ufw.Model.Slip.Res.rest h2
  · have := congrArg (fun x => x.snk.got) h2
    exact this

end Ufw.Tie.SlipFns
