/-
Tie A (C12): `rfc1055_context_init` as clang reads it: the flags are stored, the decoder starts searching for a
delimiter exactly when the start-of-frame option is set.
-/
import Ufw.Gen.SlipFns
import Ufw.Tie.SlipFns.Common
namespace Ufw.Tie.SlipFns
open Ufw Ufw.Tie.CPre

theorem gen_rfc1055_context_init (fuel : Nat) (st0 fl0 flags : BitVec 32) :
    Ufw.Gen.SlipFns.rfc1055_context_init fuel st0 fl0 flags
      = Res.val ((), stCode (Ufw.Model.Slip.rfc1055_context_init (sofOf flags)), flags) := by
  unfold Ufw.Gen.SlipFns.rfc1055_context_init Ufw.Model.Slip.rfc1055_context_init sofOf
  by_cases h : ((zx 64 flags) &&& ((1#64) <<< ((0#32)).toNat)) = ((1#64) <<< ((0#32)).toNat)
  · simp only [h, if_true, decide_true]; rfl
  · simp only [h, if_false, decide_false]; rfl

end Ufw.Tie.SlipFns
