/-
Tie A (C12): `rfc1055_decode` as clang reads it (with `transition` and `rfc1055_decode_octet`), run against the prelude's
source and sink, is the model's `decodeGo`: same return, same decoder state afterwards, the source left at the same
place, the same octets in the sink - and it ends within one round per answer of the source.
-/
import Ufw.Gen.SlipFns
import Ufw.Tie.SlipFns.Common
namespace Ufw.Tie.SlipFns
open Ufw Ufw.Tie.CPre
open Ufw.Model.Slip (RAW_EOF RAW_ESC ESC_EOF ESC_ESC St step decodeGo afterEof)

/-- what `rfc1055_decode_octet` hands back (value, source afterwards, the caller's octet) -/
def decOctet : Src → BitVec 32 × Src × List (BitVec 8)
  | [] => (NEG_ENODATA, [], [0#8])
  | .fail rc :: r => (rc, r, [0#8])
  | .octet o :: r =>
    if o = RAW_ESC then
      match r with
      | [] => (NEG_ENODATA, [], [0#8])
      | .fail rc :: r2 => (rc, r2, [0#8])
      | .octet o2 :: r2 =>
        if o2 = ESC_EOF then (2#32, r2, [RAW_EOF])
        else if o2 = ESC_ESC then (2#32, r2, [RAW_ESC])
        else (-(84#32), r2, [o2])
    else if o = RAW_EOF then (0#32, r, [0#8])
    else (1#32, r, [o])

theorem zero_toInt' : (0#32).toInt = 0 := by decide
theorem is_esc' : ∀ d : BitVec 8, ((zx 32 d) = (219#32)) ↔ d = RAW_ESC := by decide +kernel
theorem is_eof' : ∀ d : BitVec 8, ((zx 32 d) = (192#32)) ↔ d = RAW_EOF := by decide +kernel
theorem is_esceof : ∀ d : BitVec 8, ((zx 32 d) = (220#32)) ↔ d = ESC_EOF := by decide +kernel
theorem is_escesc : ∀ d : BitVec 8, ((zx 32 d) = (221#32)) ↔ d = ESC_ESC := by decide +kernel
theorem neg_enodata_lt' : NEG_ENODATA.toInt < (0#32).toInt := by decide
theorem one_not_neg : ¬ (1#32).toInt < (0#32).toInt := by decide

theorem decode_octet_spec (fuel : Nat) (undef : Nat → BitVec 64) (src : Src) (cell : BitVec 8) (hsrc : SrcOk src) :
    Ufw.Gen.SlipFns.rfc1055_decode_octet fuel undef src [cell] = Res.val (decOctet src) := by
  unfold Ufw.Gen.SlipFns.rfc1055_decode_octet
  dsimp only
  rw [store_in [cell] 0 _ _ (by simp)]
  simp only [List.set_cons_zero]
  have t0 : (tr 8 (0#32)) = 0#8 := by decide
  have t192 : (tr 8 (192#32)) = RAW_EOF := by decide
  have t219 : (tr 8 (219#32)) = RAW_ESC := by decide
  rw [t0]
  cases src with
  | nil =>
    simp only [source_get_octet, Res.bind_val, cellOf, List.headD_cons]
    rw [if_pos neg_enodata_lt']; rfl
  | cons ev r =>
    cases ev with
    | fail rc =>
      have hneg : rc.toInt < 0 := hsrc rc (List.mem_cons_self)
      simp only [source_get_octet, Res.bind_val, cellOf, List.headD_cons]
      rw [if_pos (by rw [zero_toInt']; exact hneg)]; rfl
    | octet o =>
      have hr : SrcOk r := fun rc h => hsrc rc (List.mem_cons_of_mem _ h)
      simp only [source_get_octet, Res.bind_val, cellOf, List.set_cons_zero, List.headD_cons]
      rw [if_neg one_not_neg]
      unfold decOctet
      simp only []
      by_cases h1 : o = RAW_ESC
      · subst h1
        have g1 : zx 32 RAW_ESC = 219#32 := by decide
        simp only [g1, if_true]
        cases r with
        | nil =>
          simp only [Res.bind_val, List.headD_cons]
          simp only [neg_enodata_lt', if_true]
        | cons ev2 r2 =>
          cases ev2 with
          | fail rc =>
            have hneg : rc.toInt < (0#32).toInt := by rw [zero_toInt']; exact hr rc (List.mem_cons_self)
            simp only [Res.bind_val, List.headD_cons]
            simp only [hneg, if_true]
          | octet o2 =>
            simp only [Res.bind_val, List.headD_cons]
            simp only [one_not_neg, if_false]
            by_cases h2 : o2 = ESC_EOF
            · subst h2
              have g2 : zx 32 ESC_EOF = 220#32 := by decide
              simp only [g2, if_true]
              rw [store_in [0#8] 0 _ _ (by simp), t192]; rfl
            · have g2 : ¬ zx 32 o2 = 220#32 := fun h => h2 ((is_esceof o2).mp h)
              simp only [g2, h2, if_false]
              by_cases h3 : o2 = ESC_ESC
              · subst h3
                have g3 : zx 32 ESC_ESC = 221#32 := by decide
                simp only [g3, if_true]
                rw [store_in [0#8] 0 _ _ (by simp), t219]; rfl
              · have g3 : ¬ zx 32 o2 = 221#32 := fun h => h3 ((is_escesc o2).mp h)
                simp only [g3, h3, if_false]
                rw [store_in [0#8] 0 _ _ (by simp)]; rfl
      · have g1 : ¬ zx 32 o = 219#32 := fun h => h1 ((is_esc' o).mp h)
        simp only [g1, h1, if_false]
        by_cases h2 : o = RAW_EOF
        · subst h2
          have g2 : zx 32 RAW_EOF = 192#32 := by decide
          simp only [g2, if_true]
        · have g2 : ¬ zx 32 o = 192#32 := fun h => h2 ((is_eof' o).mp h)
          simp only [g2, h2, if_false]
          rw [store_in [0#8] 0 _ _ (by simp)]; rfl

/-- what `transition` hands back -/
def transOut : Src → BitVec 32 × Src
  | [] => (NEG_ENODATA, [])
  | .fail rc :: r => (rc, r)
  | .octet o :: r => ((if o = RAW_EOF then 1#32 else 0#32), r)

theorem transition_spec (fuel : Nat) (undef : Nat → BitVec 64) (src : Src) (hsrc : SrcOk src) :
    Ufw.Gen.SlipFns.transition fuel undef src = Res.val (transOut src) := by
  unfold Ufw.Gen.SlipFns.transition transOut
  dsimp only
  cases src with
  | nil =>
    simp only [source_get_octet, Res.bind_val, cellOf, List.headD_cons]
    simp only [neg_enodata_lt', if_true]
  | cons ev r =>
    cases ev with
    | fail rc =>
      have hneg : rc.toInt < (0#32).toInt := by rw [zero_toInt']; exact hsrc rc (List.mem_cons_self)
      simp only [source_get_octet, Res.bind_val, cellOf, List.headD_cons]
      simp only [hneg, if_true]
    | octet o =>
      simp only [source_get_octet, Res.bind_val, cellOf, List.set_cons_zero, List.headD_cons]
      simp only [one_not_neg, if_false]
      by_cases h : o = RAW_EOF
      · subst h; rfl
      · have g : ¬ zx 32 o = 192#32 := fun c => h ((is_eof' o).mp c)
        simp only [g, h, if_false]

/-- the model's return for a code of the C function -/
def retD (rc : BitVec 32) : Ufw.Model.Slip.Ret := if rc = 1#32 then .frame else .error (errOf rc)

/-- the decoder state an enumeration constant stands for -/
def stOf (c : BitVec 32) : St := if c = 0#32 then .searchStart else if c = 1#32 then .searchEnd else .normal

theorem stOf_stCode (st : St) : stOf (stCode st) = st := by cases st <;> rfl

/-- what a run of the C function is in the model's terms -/
def decM (r : BitVec 32 × BitVec 32 × Src × Snk) : Ufw.Model.Slip.Res :=
  ⟨retD r.1, stOf r.2.1, srcM r.2.2.1, snkM r.2.2.2⟩

theorem retD_neg (rc : BitVec 32) (h : rc.toInt < 0) : retD rc = .error (errOf rc) := by
  unfold retD
  rw [if_neg]
  intro c; rw [c] at h; exact absurd h (by decide)

theorem errOf_nodata : errOf NEG_ENODATA = .enodata := by decide

theorem sof_code (flags : BitVec 32) :
    (if (((zx 64 flags) &&& ((1#64) <<< ((0#32)).toNat)) = ((1#64) <<< ((0#32)).toNat)) then (0#32) else (2#32))
      = stCode (afterEof (sofOf flags)) := by
  unfold sofOf afterEof
  by_cases h : ((zx 64 flags) &&& ((1#64) <<< ((0#32)).toNat)) = ((1#64) <<< ((0#32)).toNat)
  · simp only [h, if_true, decide_true]; rfl
  · simp only [h, if_false, decide_false]; rfl

theorem decode_loop (undef : Nat → BitVec 64) (flags : BitVec 32) :
    ∀ (fuel : Nat) (src : Src) (st : St) (data : BitVec 8) (snk : Snk), SrcOk src → SnkOk snk → src.length < fuel →
      ∃ r, Ufw.Gen.SlipFns.rfc1055_decode.loop1 undef fuel (stCode st) flags data src snk = Res.val r ∧
        decM r = decodeGo (sofOf flags) st false (srcM src) (snkM snk) := by
  intro fuel
  induction fuel with
  | zero => intro _ _ _ _ _ _ h; omega
  | succ fuel ih =>
    intro src st data snk hsrc hs hf
    unfold Ufw.Gen.SlipFns.rfc1055_decode.loop1
    dsimp only
    have hfin_nodata : ∀ (c : BitVec 32) (k : Snk),
        decM (NEG_ENODATA, c, ([] : Src), k) = ⟨.error .enodata, stOf c, [], snkM k⟩ := by
      intro c k; unfold decM; simp only [retD_neg NEG_ENODATA (by decide), errOf_nodata]; rfl
    cases st with
    | searchStart =>
      simp only [stCode, BitVec.reduceEq, reduceIte]
      rw [transition_spec fuel undef src hsrc, Res.bind_val]
      cases src with
      | nil =>
        simp only [transOut, neg_enodata_lt', if_true]
        refine ⟨_, rfl, ?_⟩
        rw [hfin_nodata]; rfl
      | cons ev r =>
        have hr : SrcOk r := fun rc h => hsrc rc (List.mem_cons_of_mem _ h)
        cases ev with
        | fail rc =>
          have hneg : rc.toInt < 0 := hsrc rc (List.mem_cons_self)
          have hneg' : rc.toInt < (0#32).toInt := by rw [zero_toInt']; exact hneg
          simp only [transOut, hneg', if_true]
          refine ⟨_, rfl, ?_⟩
          unfold decM
          simp only [retD_neg rc hneg]
          unfold decodeGo srcM
          simp [evM, stOf]
        | octet o =>
          simp only [transOut]
          by_cases h : o = RAW_EOF
          · subst h
            simp only [if_true, one_not_neg, if_false]
            have := ih r .normal data snk hr hs (by simp at hf; omega)
            obtain ⟨res, h1, h2⟩ := this
            refine ⟨res, h1, ?_⟩
            rw [h2]
            conv => rhs; unfold decodeGo srcM
            simp [evM, step, srcM]
          · simp only [h, if_false]
            have z : ¬ (0#32).toInt < (0#32).toInt := by decide
            simp only [z, if_false, BitVec.reduceEq]
            refine ⟨_, rfl, ?_⟩
            unfold decM
            simp only [retD_neg (-(84#32)) (by decide)]
            conv => rhs; unfold decodeGo srcM
            simp [evM, step, h, stOf, srcM]
            decide
    | searchEnd =>
      simp only [stCode, BitVec.reduceEq, reduceIte]
      rw [transition_spec fuel undef src hsrc, Res.bind_val]
      cases src with
      | nil =>
        simp only [transOut, neg_enodata_lt', if_true]
        refine ⟨_, rfl, ?_⟩
        rw [hfin_nodata]; rfl
      | cons ev r =>
        have hr : SrcOk r := fun rc h => hsrc rc (List.mem_cons_of_mem _ h)
        cases ev with
        | fail rc =>
          have hneg : rc.toInt < 0 := hsrc rc (List.mem_cons_self)
          have hneg' : rc.toInt < (0#32).toInt := by rw [zero_toInt']; exact hneg
          simp only [transOut, hneg', if_true]
          refine ⟨_, rfl, ?_⟩
          unfold decM
          simp only [retD_neg rc hneg]
          unfold decodeGo srcM
          simp [evM, stOf]
        | octet o =>
          simp only [transOut]
          by_cases h : o = RAW_EOF
          · subst h
            simp only [if_true, one_not_neg, if_false]
            rw [sof_code]
            have := ih r (afterEof (sofOf flags)) data snk hr hs (by simp at hf; omega)
            obtain ⟨res, h1, h2⟩ := this
            refine ⟨res, h1, ?_⟩
            rw [h2]
            conv => rhs; unfold decodeGo srcM
            simp [evM, step, srcM]
          · simp only [h, if_false]
            have z : ¬ (0#32).toInt < (0#32).toInt := by decide
            simp only [z, if_false, BitVec.reduceEq]
            have := ih r .searchEnd data snk hr hs (by simp at hf; omega)
            obtain ⟨res, h1, h2⟩ := this
            refine ⟨res, h1, ?_⟩
            rw [h2]
            conv => rhs; unfold decodeGo srcM
            simp [evM, step, h, srcM]
    | normal =>
      simp only [stCode, BitVec.reduceEq, reduceIte]
      rw [decode_octet_spec fuel undef src data hsrc, Res.bind_val]
      -- an octet handed to the sink, then on with the rest (shared by the three emitting cases)
      have emit : ∀ (x : BitVec 8) (r' : Src), SrcOk r' → r'.length < fuel →
          ∃ res, (Res.bind (sink_put_octet snk x) fun (p : BitVec 32 × Snk) =>
                    if p.1.toInt < (0#32).toInt then Res.val (p.1, 2#32, r', p.2)
                    else Ufw.Gen.SlipFns.rfc1055_decode.loop1 undef fuel 2#32 flags x r' p.2) = Res.val res ∧
            decM res = (match (snkM snk).put x with
              | .ok s' => decodeGo (sofOf flags) .normal false (srcM r') s'
              | .error e => ⟨.error e, .normal, srcM r', snkM snk⟩) := by
        intro x r' hr' hl
        cases hroom : snk.room with
        | zero =>
          have ⟨p1, p2⟩ := put_zero snk x hroom
          rw [p1, Res.bind_val, p2]
          have : snk.full.toInt < (0#32).toInt := by rw [zero_toInt']; exact hs
          simp only [this, if_true]
          refine ⟨_, rfl, ?_⟩
          unfold decM
          simp only [retD_neg snk.full hs]
          rfl
        | succ n =>
          have ⟨p1, p2⟩ := put_succ snk x n hroom
          rw [p1, Res.bind_val, p2]
          simp only [one_not_neg, if_false]
          exact ih r' .normal x _ hr' hs hl
      cases src with
      | nil =>
        simp only [decOctet]
        have n1 : ¬ NEG_ENODATA = -(84#32) := by decide
        simp only [n1, if_false, neg_enodata_lt', if_true]
        refine ⟨_, rfl, ?_⟩
        rw [hfin_nodata]; rfl
      | cons ev r =>
        have hr : SrcOk r := fun rc h => hsrc rc (List.mem_cons_of_mem _ h)
        cases ev with
        | fail rc =>
          simp only [decOctet]
          have hneg : rc.toInt < 0 := hsrc rc (List.mem_cons_self)
          have hneg' : rc.toInt < (0#32).toInt := by rw [zero_toInt']; exact hneg
          have d0 : ¬ zx 32 (0#8) = 192#32 := by decide
          by_cases he : rc = -(84#32)
          · simp only [he, if_true, cellOf, List.headD_cons, d0, if_false]
            have : errOf (-(84#32)) = .eilseq := by decide
            by_cases hP : ((zx 64 flags) &&& ((1#64) <<< ((0#32)).toNat)) = ((1#64) <<< ((0#32)).toNat)
            · simp only [hP, if_true]
              refine ⟨_, rfl, ?_⟩
              unfold decM
              simp only [retD_neg (-(84#32)) (by decide), this]
              conv => rhs; unfold decodeGo srcM
              simp [evM, he, this, stOf, srcM]
              try decide
            · simp only [hP, if_false]
              refine ⟨_, rfl, ?_⟩
              unfold decM
              simp only [retD_neg (-(84#32)) (by decide), this]
              conv => rhs; unfold decodeGo srcM
              simp [evM, he, this, stOf, srcM]
              try decide
          · simp only [he, if_false, hneg', if_true]
            have hne : errOf rc ≠ .eilseq := fun h => he ((eilseq_iff rc).mp h)
            refine ⟨_, rfl, ?_⟩
            unfold decM
            simp only [retD_neg rc hneg]
            conv => rhs; unfold decodeGo srcM
            simp [evM, hne, stOf, srcM]
        | octet o =>
          by_cases h1 : o = RAW_ESC
          · subst h1
            cases r with
            | nil =>
              simp only [decOctet, if_true]
              have n1 : ¬ NEG_ENODATA = -(84#32) := by decide
              simp only [n1, if_false, neg_enodata_lt', if_true]
              refine ⟨_, rfl, ?_⟩
              rw [hfin_nodata]
              conv => rhs; unfold decodeGo srcM
              simp [evM, step, decodeGo, stOf]
            | cons ev2 r2 =>
              have hr2 : SrcOk r2 := fun rc h => hr rc (List.mem_cons_of_mem _ h)
              cases ev2 with
              | fail rc =>
                simp only [decOctet, if_true]
                have hneg : rc.toInt < 0 := hr rc (List.mem_cons_self)
                have hneg' : rc.toInt < (0#32).toInt := by rw [zero_toInt']; exact hneg
                have d0 : ¬ zx 32 (0#8) = 192#32 := by decide
                by_cases he : rc = -(84#32)
                · simp only [he, if_true, cellOf, List.headD_cons, d0, if_false]
                  have : errOf (-(84#32)) = .eilseq := by decide
                  by_cases hP : ((zx 64 flags) &&& ((1#64) <<< ((0#32)).toNat)) = ((1#64) <<< ((0#32)).toNat)
                  · simp only [hP, if_true]
                    refine ⟨_, rfl, ?_⟩
                    unfold decM
                    simp only [retD_neg (-(84#32)) (by decide), this]
                    conv => rhs; unfold decodeGo srcM
                    simp [evM, step, decodeGo, he, this, stOf, srcM]
                    try decide
                  · simp only [hP, if_false]
                    refine ⟨_, rfl, ?_⟩
                    unfold decM
                    simp only [retD_neg (-(84#32)) (by decide), this]
                    conv => rhs; unfold decodeGo srcM
                    simp [evM, step, decodeGo, he, this, stOf, srcM]
                    try decide
                · simp only [he, if_false, hneg', if_true]
                  have hne : errOf rc ≠ .eilseq := fun h => he ((eilseq_iff rc).mp h)
                  refine ⟨_, rfl, ?_⟩
                  unfold decM
                  simp only [retD_neg rc hneg]
                  conv => rhs; unfold decodeGo srcM
                  simp [evM, step, decodeGo, hne, stOf, srcM]
                  try decide
              | octet o2 =>
                have n1 : ¬ (2#32 : BitVec 32) = -(84#32) := by decide
                have n2 : ¬ (2#32).toInt < (0#32).toInt := by decide
                have n3 : ¬ (2#32 : BitVec 32) = 0#32 := by decide
                have hl : r2.length < fuel := by simp at hf; omega
                by_cases h2 : o2 = ESC_EOF
                · subst h2
                  simp only [decOctet, if_true]
                  simp only [n1, if_false, n2, n3, cellOf, List.headD_cons]
                  obtain ⟨res, g1, g2⟩ := emit RAW_EOF r2 hr2 hl
                  refine ⟨res, g1, ?_⟩
                  rw [g2]
                  conv => rhs; unfold decodeGo srcM
                  simp [evM, step, decodeGo, srcM]
                  cases (snkM snk).put RAW_EOF <;> rfl
                · by_cases h3 : o2 = ESC_ESC
                  · subst h3
                    have e2 : ¬ ESC_ESC = ESC_EOF := by decide
                    simp only [decOctet, if_true, e2, if_false]
                    simp only [n1, if_false, n2, n3, cellOf, List.headD_cons]
                    obtain ⟨res, g1, g2⟩ := emit RAW_ESC r2 hr2 hl
                    refine ⟨res, g1, ?_⟩
                    rw [g2]
                    conv => rhs; unfold decodeGo srcM
                    simp [evM, step, decodeGo, srcM, e2]
                    cases (snkM snk).put RAW_ESC <;> rfl
                  · simp only [decOctet, if_true, h2, h3, if_false]
                    simp only [cellOf, List.headD_cons]
                    by_cases h4 : o2 = RAW_EOF
                    · subst h4
                      have g4 : zx 32 RAW_EOF = 192#32 := by decide
                      simp only [g4, if_true]
                      by_cases hP : ((zx 64 flags) &&& ((1#64) <<< ((0#32)).toNat)) = ((1#64) <<< ((0#32)).toNat)
                      · simp only [hP, if_true]
                        have hsof : sofOf flags = true := by unfold sofOf; exact decide_eq_true hP
                        refine ⟨_, rfl, ?_⟩
                        unfold decM
                        simp only [retD_neg (-(84#32)) (by decide)]
                        conv => rhs; unfold decodeGo srcM
                        simp [evM, step, decodeGo, afterEof, hsof, h2, h3, stOf, srcM]
                        try decide
                      · simp only [hP, if_false]
                        have hsof : sofOf flags = false := by unfold sofOf; exact decide_eq_false hP
                        refine ⟨_, rfl, ?_⟩
                        unfold decM
                        simp only [retD_neg (-(84#32)) (by decide)]
                        conv => rhs; unfold decodeGo srcM
                        simp [evM, step, decodeGo, afterEof, hsof, h2, h3, stOf, srcM]
                        try decide
                    · have g4 : ¬ zx 32 o2 = 192#32 := fun c => h4 ((is_eof' o2).mp c)
                      simp only [g4, if_false]
                      have same : (if ((zx 64 flags) &&& ((1#64) <<< ((0#32)).toNat)) = ((1#64) <<< ((0#32)).toNat)
                          then Res.val (-(84#32), 1#32, r2, snk) else Res.val (-(84#32), 1#32, r2, snk))
                          = (Res.val (-(84#32), 1#32, r2, snk) : Res (BitVec 32 × BitVec 32 × Src × Snk)) := by
                        split <;> rfl
                      rw [same]
                      refine ⟨_, rfl, ?_⟩
                      unfold decM
                      simp only [retD_neg (-(84#32)) (by decide)]
                      conv => rhs; unfold decodeGo srcM
                      simp [evM, step, decodeGo, h2, h3, h4, stOf, srcM]
                      try decide
          · by_cases h2 : o = RAW_EOF
            · subst h2
              have e1 : ¬ RAW_EOF = RAW_ESC := by decide
              simp only [decOctet, e1, if_false, if_true]
              have n1 : ¬ (0#32 : BitVec 32) = -(84#32) := by decide
              have n2 : ¬ (0#32).toInt < (0#32).toInt := by decide
              simp only [n1, if_false, n2, if_true]
              by_cases hP : ((zx 64 flags) &&& ((1#64) <<< ((0#32)).toNat)) = ((1#64) <<< ((0#32)).toNat)
              · simp only [hP, if_true]
                have hsof : sofOf flags = true := by unfold sofOf; exact decide_eq_true hP
                refine ⟨_, rfl, ?_⟩
                unfold decM
                conv => rhs; unfold decodeGo srcM
                simp [evM, step, afterEof, hsof, e1, retD, stOf, srcM]
              · simp only [hP, if_false]
                have hsof : sofOf flags = false := by unfold sofOf; exact decide_eq_false hP
                refine ⟨_, rfl, ?_⟩
                unfold decM
                conv => rhs; unfold decodeGo srcM
                simp [evM, step, afterEof, hsof, e1, retD, stOf, srcM]
            · simp only [decOctet, h1, h2, if_false]
              have n1 : ¬ (1#32 : BitVec 32) = -(84#32) := by decide
              have n2 : ¬ (1#32 : BitVec 32) = 0#32 := by decide
              simp only [n1, if_false, one_not_neg, n2, cellOf, List.headD_cons]
              obtain ⟨res, g1, g2⟩ := emit o r hr (by simp at hf; omega)
              refine ⟨res, g1, ?_⟩
              rw [g2]
              conv => rhs; unfold decodeGo srcM
              simp [evM, step, h1, h2, srcM]
              cases (snkM snk).put o <;> rfl

/-- `rfc1055_decode(ctx, source, sink)`: for every decoder state, every source and sink whose failures are negative
    codes, with one round of fuel per answer of the source, the run ends and is the model's `rfc1055_decode` -/
theorem gen_rfc1055_decode (fuel : Nat) (undef : Nat → BitVec 64) (flags : BitVec 32) (st : St) (src : Src) (snk : Snk)
    (hsrc : SrcOk src) (hs : SnkOk snk) (hf : src.length < fuel) :
    ∃ r, Ufw.Gen.SlipFns.rfc1055_decode fuel undef (stCode st) flags src snk = Res.val r ∧
      decM r = Ufw.Model.Slip.rfc1055_decode (sofOf flags) st (srcM src) (snkM snk) := by
  unfold Ufw.Gen.SlipFns.rfc1055_decode Ufw.Model.Slip.rfc1055_decode
  exact decode_loop undef flags fuel src st _ snk hsrc hs hf

/-- non-vacuity: `db dc 41 c0 42` without start-of-frame option: one frame `c0 41`, the source left at `42` -/
example : Ufw.Gen.SlipFns.rfc1055_decode 6 (fun _ => 0) 2#32 0#32
      [SrcEv.octet 0xdb#8, SrcEv.octet 0xdc#8, SrcEv.octet 0x41#8, SrcEv.octet 0xc0#8, SrcEv.octet 0x42#8] { room := 8, full := -(12#32) }
    = Res.val (1#32, 2#32, [SrcEv.octet 0x42#8], { got := [0xc0#8, 0x41#8], room := 6, full := -(12#32) }) := by decide

/-- an invalid escape: -EILSEQ, the decoder then looks for the next delimiter -/
example : Ufw.Gen.SlipFns.rfc1055_decode 6 (fun _ => 0) 2#32 0#32
      [SrcEv.octet 0xdb#8, SrcEv.octet 0x41#8, SrcEv.octet 0x42#8] { room := 8, full := -(12#32) }
    = Res.val (-(84#32), 1#32, [SrcEv.octet 0x42#8], { got := [], room := 8, full := -(12#32) }) := by decide

end Ufw.Tie.SlipFns
