/-
Tie A (C01-C05): register sizes (`rds_size[]`, in atoms of 16 bits), the type numbering and the
flag bits of the current source are those of the model.
-/
import Ufw.Gen.Constants
import Ufw.Model.RegTable
namespace Ufw.Tie.RegTable
open Ufw.Gen.Constants Ufw.Model.RegTable

theorem const_rds_size :
    RType.size .u16 = RDS_SIZE_UINT16 ∧ RType.size .u32 = RDS_SIZE_UINT32 ∧ RType.size .u64 = RDS_SIZE_UINT64 ∧
    RType.size .s16 = RDS_SIZE_SINT16 ∧ RType.size .s32 = RDS_SIZE_SINT32 ∧ RType.size .s64 = RDS_SIZE_SINT64 ∧
    RType.size .f32 = RDS_SIZE_FLOAT32 ∧ RType.size .f64 = RDS_SIZE_FLOAT64 ∧ RDS_SIZE_INVALID = 0 ∧
    REG_ATOM_BITS = 16 := by decide

/-- the enumerators the table initialisers and the harness rely on -/
theorem const_enums :
    REG_TYPE_UINT16 = 0 ∧ REG_TYPE_UINT32 = 1 ∧ REG_TYPE_UINT64 = 2 ∧ REG_TYPE_SINT16 = 3 ∧ REG_TYPE_SINT32 = 4 ∧
    REG_TYPE_SINT64 = 5 ∧ REG_TYPE_FLOAT32 = 6 ∧ REG_TYPE_FLOAT64 = 7 ∧ REG_TYPE_INVALID = 8 ∧
    REG_AF_READABLE = 1 ∧ REG_AF_WRITEABLE = 2 ∧ REG_AF_SKIP_DEFAULTS = 4 ∧
    REG_TF_INITIALISED = 1 ∧ REG_TF_DURING_INIT = 2 ∧ REG_TF_BIG_ENDIAN = 4 ∧ REG_EF_TOUCHED = 1 := by decide

end Ufw.Tie.RegTable
