/- Tie A for C18, one function per module (see Tie/ByteBuf/Common.lean): byte_buffer_reset -/
import Ufw.Tie.ByteBuf.Common

namespace Ufw.Tie.ByteBuf
open Ufw Ufw.Model.ByteBuffer Ufw.Tie.ByteBufPre

theorem gen_reset (b : ByteBuffer) : Ufw.Gen.ByteBuf.byte_buffer_reset b = (.ok 0, byte_buffer_reset b, []) := by
  simp [Ufw.Gen.ByteBuf.byte_buffer_reset, byte_buffer_reset, ret, rcInt]

end Ufw.Tie.ByteBuf
