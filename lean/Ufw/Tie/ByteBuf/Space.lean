/- Tie A for C18, one function per module (see Tie/ByteBuf/Common.lean): byte_buffer_space -/
import Ufw.Tie.ByteBuf.Common
import Ufw.Tie.ByteBuf.Set

namespace Ufw.Tie.ByteBuf
open Ufw Ufw.Model.ByteBuffer Ufw.Tie.ByteBufPre

theorem gen_space (b : ByteBuffer) (data : Option (List Octet)) (size : Nat) :
    Ufw.Gen.ByteBuf.byte_buffer_space b data size =
      ((byte_buffer_space b data size).1, (byte_buffer_space b data size).2, []) := by
  simp only [Ufw.Gen.ByteBuf.byte_buffer_space, byte_buffer_space, gen_set]

end Ufw.Tie.ByteBuf
