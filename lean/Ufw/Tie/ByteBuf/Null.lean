/- Tie A for C18, one function per module (see Tie/ByteBuf/Common.lean): byte_buffer_null -/
import Ufw.Tie.ByteBuf.Common

namespace Ufw.Tie.ByteBuf
open Ufw Ufw.Model.ByteBuffer Ufw.Tie.ByteBufPre

theorem gen_null (b : ByteBuffer) : Ufw.Gen.ByteBuf.byte_buffer_null b = (.ok 0, byte_buffer_null, []) := by
  simp [Ufw.Gen.ByteBuf.byte_buffer_null, setData, ret, rcInt, byte_buffer_null]

end Ufw.Tie.ByteBuf
