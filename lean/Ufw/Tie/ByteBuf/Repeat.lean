/- Tie A for C18, one function per module (see Tie/ByteBuf/Common.lean): byte_buffer_repeat -/
import Ufw.Tie.ByteBuf.Common

namespace Ufw.Tie.ByteBuf
open Ufw Ufw.Model.ByteBuffer Ufw.Tie.ByteBufPre

theorem gen_repeat (b : ByteBuffer) : Ufw.Gen.ByteBuf.byte_buffer_repeat b = (.ok 0, byte_buffer_repeat b, []) := by
  simp [Ufw.Gen.ByteBuf.byte_buffer_repeat, byte_buffer_repeat, ret, rcInt]

end Ufw.Tie.ByteBuf
