/- Tie A for C18, one function per module (see Tie/ByteBuf/Common.lean): byte_buffer_rest -/
import Ufw.Tie.ByteBuf.Common

namespace Ufw.Tie.ByteBuf
open Ufw Ufw.Model.ByteBuffer Ufw.Tie.ByteBufPre

theorem gen_rest (b : ByteBuffer) (h : Fits b) : Ufw.Gen.ByteBuf.byte_buffer_rest b = byte_buffer_rest b := by
  simp only [Ufw.Gen.ByteBuf.byte_buffer_rest, byte_buffer_rest]
  exact subSz_eq _ _ h.1 (by have := h.2.1; have := h.2.2; omega)

end Ufw.Tie.ByteBuf
