/- Tie A for C18, one function per module (see Tie/ByteBuf/Common.lean): byte_buffer_use -/
import Ufw.Tie.ByteBuf.Common
import Ufw.Tie.ByteBuf.Set

namespace Ufw.Tie.ByteBuf
open Ufw Ufw.Model.ByteBuffer Ufw.Tie.ByteBufPre

theorem gen_use (b : ByteBuffer) (data : Option (List Octet)) (size : Nat) :
    Ufw.Gen.ByteBuf.byte_buffer_use b data size =
      ((byte_buffer_use b data size).1, (byte_buffer_use b data size).2, []) := by
  simp only [Ufw.Gen.ByteBuf.byte_buffer_use, byte_buffer_use, gen_set]

end Ufw.Tie.ByteBuf
