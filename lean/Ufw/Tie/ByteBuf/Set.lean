/- Tie A for C18, one function per module (see Tie/ByteBuf/Common.lean): byte_buffer_set -/
import Ufw.Tie.ByteBuf.Common

namespace Ufw.Tie.ByteBuf
open Ufw Ufw.Model.ByteBuffer Ufw.Tie.ByteBufPre

theorem gen_set (b : ByteBuffer) (data : Option (List Octet)) (size used offset : Nat) :
    Ufw.Gen.ByteBuf.byte_buffer_set b data size used offset =
      ((byte_buffer_set b data size used offset).1, (byte_buffer_set b data size used offset).2, []) := by
  cases data with
  | none => simp [Ufw.Gen.ByteBuf.byte_buffer_set, byte_buffer_set, ret, rcInt, errOfErrno]
  | some m =>
    have hiff : ((((some m).isNone = true ∨ size = 0) ∨ used > size) ∨ offset > used) ↔ (size = 0 ∨ used > size ∨ offset > used) := by
      simp only [Option.isNone_some, Bool.false_eq_true, false_or, or_assoc]
    by_cases h : size = 0 ∨ used > size ∨ offset > used
    · simp only [Ufw.Gen.ByteBuf.byte_buffer_set, byte_buffer_set, hiff, h, ↓reduceIte, ret, rcInt]
      simp [errOfErrno]
    · simp only [Ufw.Gen.ByteBuf.byte_buffer_set, byte_buffer_set, hiff, h, ↓reduceIte, ret, rcInt, setData]
      simp

end Ufw.Tie.ByteBuf
