/- Tie A for C18, one function per module (see Tie/ByteBuf/Common.lean): byte_buffer_consume_at_most -/
import Ufw.Tie.ByteBuf.Common

namespace Ufw.Tie.ByteBuf
open Ufw Ufw.Model.ByteBuffer Ufw.Tie.ByteBufPre

theorem gen_consume_at_most (b : ByteBuffer) (n : Nat) (h : Fits b) :
    Ufw.Gen.ByteBuf.byte_buffer_consume_at_most b n = byte_buffer_consume_at_most b n := by
  have hu : b.used < szMod := by have := h.2.1; have := h.2.2; omega
  unfold Ufw.Gen.ByteBuf.byte_buffer_consume_at_most byte_buffer_consume_at_most
  simp only [subSz_eq _ _ h.1 hu]
  by_cases hc : b.used - b.offset = 0
  · simp only [hc, ↓reduceIte, ret, rcInt]
    rfl
  · simp only [hc, ↓reduceIte]
    have hk : b.offset + (if n > b.used - b.offset then b.used - b.offset else n) ≤ b.used := by
      have := h.1; split <;> omega
    generalize (if n > b.used - b.offset then b.used - b.offset else n) = k at hk ⊢
    have hadd : addSz b.offset k = b.offset + k := addSz_eq _ _ (by omega)
    simp only [memOut]
    cases readAt b.mem b.offset k with
    | none => rfl
    | some o => simp only [ret, rcSz, hadd]

end Ufw.Tie.ByteBuf
