/-
Tie A for C18: the translation of src/byte-buffer.c that tools/gen/bytebuf.py writes on every run
(Gen/ByteBuf.lean) computes what the hand-written model (Model/ByteBuffer.lean) computes - the model the
theorems of Props/C18 are about.  A change to the C source changes the generated definitions; these obligations
then hold only if the change preserves behaviour.

The C code computes in `size_t`; the model in `Nat`.  They agree where the sums do not wrap:
`Fits b` (the buffer's own fields: offset <= used <= size < 2^64, which set-up and every operation preserve) and
`used + |data| < 2^64` for an addition.  `clear` zeroes `size` octets: the two agree when the block has them
(otherwise both are out of bounds, with the cursors already reset in the C order of statements).
-/
import Ufw.Gen.ByteBuf

namespace Ufw.Tie.ByteBuf
open Ufw Ufw.Model.ByteBuffer Ufw.Tie.ByteBufPre

def Fits (b : ByteBuffer) : Prop := b.offset ≤ b.used ∧ b.used ≤ b.size ∧ b.size < szMod

theorem subSz_eq (a b : Nat) (h : b ≤ a) (ha : a < szMod) : subSz a b = a - b := by
  have hb : b % szMod = b := Nat.mod_eq_of_lt (by omega)
  simp only [subSz, hb]
  have : a + szMod - b = (a - b) + szMod := by omega
  rw [this, Nat.add_mod_right, Nat.mod_eq_of_lt (by omega)]

theorem addSz_eq (a b : Nat) (h : a + b < szMod) : addSz a b = a + b := by
  simp only [addSz, Nat.mod_eq_of_lt h]

end Ufw.Tie.ByteBuf
