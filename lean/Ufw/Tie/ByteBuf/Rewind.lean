/- Tie A for C18, one function per module (see Tie/ByteBuf/Common.lean): byte_buffer_rewind -/
import Ufw.Tie.ByteBuf.Common

namespace Ufw.Tie.ByteBuf
open Ufw Ufw.Model.ByteBuffer Ufw.Tie.ByteBufPre

theorem gen_rewind (b : ByteBuffer) (h : Fits b) :
    Ufw.Gen.ByteBuf.byte_buffer_rewind b = ((byte_buffer_rewind b).1, (byte_buffer_rewind b).2, []) := by
  have hu : b.used < szMod := by have := h.2.1; have := h.2.2; omega
  unfold Ufw.Gen.ByteBuf.byte_buffer_rewind byte_buffer_rewind
  simp only [subSz_eq _ _ h.1 hu]
  by_cases hn : b.null = true
  · simp only [hn, ↓reduceIte, ret, rcInt]
    rfl
  · simp only [hn, Bool.false_eq_true, ↓reduceIte]
    by_cases ho : b.offset = 0
    · simp only [ho, ↓reduceIte, ret, rcInt]
      rfl
    · simp only [ho, ↓reduceIte, memMove]
      cases readAt b.mem b.offset (b.used - b.offset) with
      | none => rfl
      | some u =>
        simp only
        cases writeAt b.mem 0 u with
        | none => rfl
        | some m =>
          have hnf : b.null = false := by simpa using hn
          simp only [ret, rcInt, subSz_eq _ _ h.1 hu, hnf]
          rfl

end Ufw.Tie.ByteBuf
