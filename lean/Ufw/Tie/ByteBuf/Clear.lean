/- Tie A for C18, one function per module (see Tie/ByteBuf/Common.lean): byte_buffer_clear -/
import Ufw.Tie.ByteBuf.Common

namespace Ufw.Tie.ByteBuf
open Ufw Ufw.Model.ByteBuffer Ufw.Tie.ByteBufPre

theorem gen_clear (b : ByteBuffer) (h : b.size ≤ b.mem.length) :
    Ufw.Gen.ByteBuf.byte_buffer_clear b = ((byte_buffer_clear b).1, (byte_buffer_clear b).2, []) := by
  simp only [Ufw.Gen.ByteBuf.byte_buffer_clear, byte_buffer_clear, memSet, ret, rcInt]
  have hw : ∃ m, writeAt b.mem 0 (List.replicate b.size 0#8) = some m := by
    simp only [writeAt, List.length_replicate, Nat.zero_add, h, ↓reduceIte]
    exact ⟨_, rfl⟩
  obtain ⟨m, hm⟩ := hw
  simp [hm]

end Ufw.Tie.ByteBuf
