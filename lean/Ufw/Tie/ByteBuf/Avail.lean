/- Tie A for C18, one function per module (see Tie/ByteBuf/Common.lean): byte_buffer_avail -/
import Ufw.Tie.ByteBuf.Common

namespace Ufw.Tie.ByteBuf
open Ufw Ufw.Model.ByteBuffer Ufw.Tie.ByteBufPre

theorem gen_avail (b : ByteBuffer) (h : Fits b) : Ufw.Gen.ByteBuf.byte_buffer_avail b = byte_buffer_avail b := by
  simp only [Ufw.Gen.ByteBuf.byte_buffer_avail, byte_buffer_avail]
  exact subSz_eq _ _ h.2.1 h.2.2

end Ufw.Tie.ByteBuf
