/- Tie A for C18, one function per module (see Tie/ByteBuf/Common.lean): byte_buffer_consume -/
import Ufw.Tie.ByteBuf.Common

namespace Ufw.Tie.ByteBuf
open Ufw Ufw.Model.ByteBuffer Ufw.Tie.ByteBufPre

theorem gen_consume (b : ByteBuffer) (n : Nat) (h : Fits b) :
    Ufw.Gen.ByteBuf.byte_buffer_consume b n = byte_buffer_consume b n := by
  have hu : b.used < szMod := by have := h.2.1; have := h.2.2; omega
  simp only [Ufw.Gen.ByteBuf.byte_buffer_consume, byte_buffer_consume, subSz_eq _ _ h.1 hu, memOut, ret, rcInt]
  by_cases hc : n > b.used - b.offset
  · simp [hc, errOfErrno]
  · simp only [hc, ↓reduceIte]
    have : addSz b.offset n = b.offset + n := addSz_eq _ _ (by have := h.1; omega)
    cases readAt b.mem b.offset n with
    | none => rfl
    | some o => simp [this]

end Ufw.Tie.ByteBuf
