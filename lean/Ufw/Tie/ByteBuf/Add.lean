/- Tie A for C18, one function per module (see Tie/ByteBuf/Common.lean): byte_buffer_add -/
import Ufw.Tie.ByteBuf.Common

namespace Ufw.Tie.ByteBuf
open Ufw Ufw.Model.ByteBuffer Ufw.Tie.ByteBufPre

theorem gen_add (b : ByteBuffer) (data : List Octet) (h : b.used + data.length < szMod) :
    Ufw.Gen.ByteBuf.byte_buffer_add b data data.length =
      ((byte_buffer_add b data).1, (byte_buffer_add b data).2, []) := by
  simp only [Ufw.Gen.ByteBuf.byte_buffer_add, byte_buffer_add, addSz_eq _ _ h, memIn, List.take_length, ret, rcInt]
  by_cases hc : b.size < b.used + data.length
  · simp [hc, errOfErrno]
  · simp only [hc, ↓reduceIte]
    cases writeAt b.mem b.used data with
    | none => rfl
    | some m => simp

end Ufw.Tie.ByteBuf
