/- Tie A for C19, one function per module (see Tie/Ring/Common.lean) -/
import Ufw.Tie.Ring.Common
import Ufw.Tie.Ring.Empty
import Ufw.Tie.Ring.AdvanceTail

namespace Ufw.Tie.Ring
open Ufw Ufw.Model.Ring Ufw.Tie.ByteBufPre Ufw.Tie.RingPre

theorem gen_get (c : Ring) (h : FitR c) : Ufw.Gen.Ring.octet_ring_get c = Ufw.Model.Ring.get c := by
  simp only [Ufw.Gen.Ring.octet_ring_get, Ufw.Model.Ring.get, gen_empty, arrGet, call, gen_advance_tail c h]
  split
  · rfl
  · cases c.data[c.tail]? <;> rfl

end Ufw.Tie.Ring
