/- Tie A for C19, one function per module (see Tie/Ring/Common.lean) -/
import Ufw.Tie.Ring.Common

namespace Ufw.Tie.Ring
open Ufw Ufw.Model.Ring Ufw.Tie.ByteBufPre Ufw.Tie.RingPre

theorem gen_full (c : Ring) : Ufw.Gen.Ring.octet_ring_full c = full c := by
  simp only [Ufw.Gen.Ring.octet_ring_full, full]
  by_cases h : c.head = c.tail <;> simp [h]

end Ufw.Tie.Ring
