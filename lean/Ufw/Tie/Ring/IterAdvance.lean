/- Tie A for C19, one function per module (see Tie/Ring/Common.lean) -/
import Ufw.Tie.Ring.Common

namespace Ufw.Tie.Ring
open Ufw Ufw.Model.Ring Ufw.Tie.ByteBufPre Ufw.Tie.RingPre

theorem gen_iter_advance (it : Iter) (hs : 0 < it.steps) (hsz : 0 < it.size) (h1 : it.steps < szMod)
    (h2 : it.size < szMod) (h3 : it.index + 1 < szMod) :
    Ufw.Gen.Ring.rb_iter_advance it = some ((rb_iter_advance it).index, rb_iter_advance it) := by
  have e1 : subSz it.steps 1 = it.steps - 1 := subSz_eq _ _ hs h1
  have e2 : addSz it.index 1 = it.index + 1 := addSz_eq _ _ h3
  have e3 : subSz it.size 1 = it.size - 1 := subSz_eq _ _ hsz h2
  simp only [Ufw.Gen.Ring.rb_iter_advance, rb_iter_advance, e1, e2, e3]
  cases hm : it.mode with
  | oldToNew => simp only
  | newToOld =>
    simp only
    by_cases h0 : it.index = 0
    · simp only [h0, ↓reduceIte]
    · simp only [h0, ↓reduceIte, subSz_eq _ _ (Nat.pos_of_ne_zero h0) (by omega)]

end Ufw.Tie.Ring
