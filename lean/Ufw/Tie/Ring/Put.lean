/- Tie A for C19, one function per module (see Tie/Ring/Common.lean) -/
import Ufw.Tie.Ring.Common
import Ufw.Tie.Ring.Full
import Ufw.Tie.Ring.Empty
import Ufw.Tie.Ring.AdvanceTail

namespace Ufw.Tie.Ring
open Ufw Ufw.Model.Ring Ufw.Tie.ByteBufPre Ufw.Tie.RingPre

/-- what `put` does behind the fullness test, as the generated code spells it out -/
theorem gen_push (c : Ring) (item : Nat) (h : FitR c) :
    (if Ufw.Gen.Ring.octet_ring_empty c = true then
        arrSet { c with tail := c.head } c.head item fun c => call (Ufw.Gen.Ring.octet_ring_advance_head c) fun c => some (0, c)
      else arrSet c c.head item fun c => call (Ufw.Gen.Ring.octet_ring_advance_head c) fun c => some (0, c)) =
    (push c item).map fun c' => (0, c') := by
  have hah : ∀ d : Ring, d.head = c.head → d.cap = c.cap →
      Ufw.Gen.Ring.octet_ring_advance_head d = some (0, advance_head d) := by
    intro d h1 h2
    have : addSz d.head 1 = d.head + 1 := addSz_eq _ _ (by rw [h1]; have := h.1; have := h.2.2; omega)
    simp only [Ufw.Gen.Ring.octet_ring_advance_head, advance_head, this]
  simp only [gen_empty, push, arrSet]
  by_cases he : empty c = true
  · simp only [he, ↓reduceIte]
    by_cases hl : c.head < c.data.length
    · simp only [hl, ↓reduceIte, call, Option.map_some]
      have := hah { c with data := c.data.set c.head item, tail := c.head } rfl rfl
      simp only [this]
    · simp only [hl, ↓reduceIte, Option.map_none]
  · simp only [he, Bool.false_eq_true, ↓reduceIte]
    by_cases hl : c.head < c.data.length
    · simp only [hl, ↓reduceIte, call, Option.map_some]
      have := hah { c with data := c.data.set c.head item } rfl rfl
      simp only [this]
    · simp only [hl, ↓reduceIte, Option.map_none]

theorem advance_tail_fit (c : Ring) (h : FitR c) (hc : 0 < c.cap) : FitR (advance_tail c) := by
  simp only [advance_tail, FitR] at *
  split
  · exact ⟨h.1, Nat.le_refl _, h.2.2⟩
  · exact ⟨h.1, Nat.le_of_lt (Nat.mod_lt _ hc), h.2.2⟩

theorem gen_put (c : Ring) (item : Nat) (h : FitR c) (hc : 0 < c.cap) :
    Ufw.Gen.Ring.octet_ring_put c item = (Ufw.Model.Ring.put c item).map fun c' => (0, c') := by
  simp only [Ufw.Gen.Ring.octet_ring_put, Ufw.Model.Ring.put, gen_full]
  by_cases hf : full c = true
  · simp only [hf, ↓reduceIte]
    by_cases ho : c.ovr = true
    · simp only [ho, ↓reduceIte, gen_advance_tail c h, call]
      exact gen_push (advance_tail c) item (advance_tail_fit c h hc)
    · simp only [ho, Bool.false_eq_true, ↓reduceIte, Option.map_some]
  · simp only [hf, Bool.false_eq_true, ↓reduceIte]
    exact gen_push c item h

end Ufw.Tie.Ring
