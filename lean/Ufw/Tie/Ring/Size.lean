/- Tie A for C19, one function per module (see Tie/Ring/Common.lean) -/
import Ufw.Tie.Ring.Common
import Ufw.Tie.Ring.Empty

namespace Ufw.Tie.Ring
open Ufw Ufw.Model.Ring Ufw.Tie.ByteBufPre Ufw.Tie.RingPre

theorem gen_size (c : Ring) (h : FitR c) : Ufw.Gen.Ring.octet_ring_size c = size c := by
  simp only [Ufw.Gen.Ring.octet_ring_size, size, gen_empty]
  split
  · rfl
  · split
    · exact subSz_eq _ _ (by omega) (by have := h.1; have := h.2.2; omega)
    · rw [subSz_eq _ _ h.2.1 (by have := h.2.2; omega)]
      exact addSz_eq _ _ (by have := h.1; have := h.2.2; omega)

end Ufw.Tie.Ring
