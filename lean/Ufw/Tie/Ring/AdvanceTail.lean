/- Tie A for C19, one function per module (see Tie/Ring/Common.lean) -/
import Ufw.Tie.Ring.Common

namespace Ufw.Tie.Ring
open Ufw Ufw.Model.Ring Ufw.Tie.ByteBufPre Ufw.Tie.RingPre

theorem gen_advance_tail (c : Ring) (h : FitR c) :
    Ufw.Gen.Ring.octet_ring_advance_tail c = some (0, advance_tail c) := by
  have : addSz c.tail 1 = c.tail + 1 := addSz_eq _ _ (by have := h.2.1; have := h.2.2; omega)
  simp only [Ufw.Gen.Ring.octet_ring_advance_tail, advance_tail, this]
  split <;> rfl

end Ufw.Tie.Ring
