/- Tie A for C19, one function per module (see Tie/Ring/Common.lean) -/
import Ufw.Tie.Ring.Common

namespace Ufw.Tie.Ring
open Ufw Ufw.Model.Ring Ufw.Tie.ByteBufPre Ufw.Tie.RingPre

theorem gen_empty (c : Ring) : Ufw.Gen.Ring.octet_ring_empty c = empty c := by
  simp only [Ufw.Gen.Ring.octet_ring_empty, empty]
  by_cases h : c.tail = c.cap <;> simp [h]

end Ufw.Tie.Ring
