/- Tie A for C19, one function per module (see Tie/Ring/Common.lean) -/
import Ufw.Tie.Ring.Common

namespace Ufw.Tie.Ring
open Ufw Ufw.Model.Ring Ufw.Tie.ByteBufPre Ufw.Tie.RingPre

theorem gen_advance_head (c : Ring) (h : FitR c) :
    Ufw.Gen.Ring.octet_ring_advance_head c = some (0, advance_head c) := by
  have : addSz c.head 1 = c.head + 1 := addSz_eq _ _ (by have := h.1; have := h.2.2; omega)
  simp only [Ufw.Gen.Ring.octet_ring_advance_head, advance_head, this]

end Ufw.Tie.Ring
