/-
Tie A for C19: the translation of the ring-buffer functions that tools/gen/ring.py writes on every run
(Gen/Ring.lean) computes what the hand-written model (Model/Ring.lean) computes.  One module per function.

The C code computes in `size_t`, the model in `Nat`; they agree where nothing wraps: `FitR c` (head and tail
within the capacity, twice the capacity below 2^64 - what `init` establishes and every operation preserves).
-/
import Ufw.Gen.Ring

namespace Ufw.Tie.Ring
open Ufw Ufw.Model.Ring Ufw.Tie.ByteBufPre Ufw.Tie.RingPre

def FitR (c : Ring) : Prop := c.head ≤ c.cap ∧ c.tail ≤ c.cap ∧ 2 * c.cap + 2 < szMod

theorem subSz_eq (a b : Nat) (h : b ≤ a) (ha : a < szMod) : subSz a b = a - b := by
  have hb : b % szMod = b := Nat.mod_eq_of_lt (by omega)
  simp only [subSz, hb]
  have : a + szMod - b = (a - b) + szMod := by omega
  rw [this, Nat.add_mod_right, Nat.mod_eq_of_lt (by omega)]

theorem addSz_eq (a b : Nat) (h : a + b < szMod) : addSz a b = a + b := by
  simp only [addSz, Nat.mod_eq_of_lt h]

end Ufw.Tie.Ring
