/- Tie A for C19, one function per module (see Tie/Ring/Common.lean) -/
import Ufw.Tie.Ring.Common

namespace Ufw.Tie.Ring
open Ufw Ufw.Model.Ring Ufw.Tie.ByteBufPre Ufw.Tie.RingPre

theorem gen_clear (c : Ring) : Ufw.Gen.Ring.octet_ring_clear c = some (0, clear c) := rfl

end Ufw.Tie.Ring
