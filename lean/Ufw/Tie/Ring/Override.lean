/- Tie A for C19, one function per module (see Tie/Ring/Common.lean) -/
import Ufw.Tie.Ring.Common

namespace Ufw.Tie.Ring
open Ufw Ufw.Model.Ring Ufw.Tie.ByteBufPre Ufw.Tie.RingPre

theorem gen_override (c : Ring) (s : Bool) : Ufw.Gen.Ring.octet_ring_override_if_full c s = some (0, override_if_full c s) := rfl

end Ufw.Tie.Ring
