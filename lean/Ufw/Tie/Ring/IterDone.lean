/- Tie A for C19, one function per module (see Tie/Ring/Common.lean) -/
import Ufw.Tie.Ring.Common

namespace Ufw.Tie.Ring
open Ufw Ufw.Model.Ring Ufw.Tie.ByteBufPre Ufw.Tie.RingPre

theorem gen_iter_done (it : Iter) : Ufw.Gen.Ring.rb_iter_done it = rb_iter_done it := by
  simp only [Ufw.Gen.Ring.rb_iter_done, rb_iter_done]
  by_cases h : it.steps = 0 <;> simp [h]

end Ufw.Tie.Ring
