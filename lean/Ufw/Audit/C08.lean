import Ufw.Props.C08
import Ufw.Tie.Regp
import Ufw.Tie.Slip
import Ufw.Tie.Varint
#print axioms Ufw.Props.C08.req_read_wire
#print axioms Ufw.Props.C08.req_write_wire
#print axioms Ufw.Props.C08.resp0_wire
#print axioms Ufw.Props.C08.resp32_wire
#print axioms Ufw.Props.C08.ack_wire
#print axioms Ufw.Props.C08.ack_empty_wire
#print axioms Ufw.Props.C08.meta_wire
#print axioms Ufw.Props.C08.request_wf
#print axioms Ufw.Props.C08.errorResponse_wf
#print axioms Ufw.Props.C08.ackResponse_wf
#print axioms Ufw.Props.C08.metaFrame_wf
#print axioms Ufw.Props.C08.emit_recv
#print axioms Ufw.Props.C08.session_sequence
#print axioms Ufw.Tie.Regp.const_header_sizes
#print axioms Ufw.Tie.Regp.const_options
#print axioms Ufw.Tie.Regp.const_frame_types
#print axioms Ufw.Tie.Regp.const_response_codes
#print axioms Ufw.Tie.Regp.const_value_codes
#print axioms Ufw.Tie.Slip.const_model_octets
#print axioms Ufw.Tie.Slip.const_rfc1055_octets
#print axioms Ufw.Tie.Slip.const_octets_distinct
#print axioms Ufw.Tie.Slip.const_worst_case
#print axioms Ufw.Tie.Varint.const_model
#print axioms Ufw.Tie.Varint.const_leb128
