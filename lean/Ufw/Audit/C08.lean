import Ufw.Props.C08
#print axioms Ufw.Props.C08.seq_step
