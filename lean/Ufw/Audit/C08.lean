import Ufw.Props.C08
#print axioms Ufw.Props.C08.req_read_wire
#print axioms Ufw.Props.C08.req_write_wire
#print axioms Ufw.Props.C08.resp0_wire
#print axioms Ufw.Props.C08.resp32_wire
#print axioms Ufw.Props.C08.ack_wire
#print axioms Ufw.Props.C08.ack_empty_wire
#print axioms Ufw.Props.C08.meta_wire
#print axioms Ufw.Props.C08.request_wf
#print axioms Ufw.Props.C08.errorResponse_wf
#print axioms Ufw.Props.C08.ackResponse_wf
#print axioms Ufw.Props.C08.metaFrame_wf
#print axioms Ufw.Props.C08.emit_recv
