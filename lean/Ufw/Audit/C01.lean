import Ufw.Props.C01
import Ufw.Tie.RegTable
#print axioms Ufw.Props.C01.set_success_inv
#print axioms Ufw.Props.C01.set_get
#print axioms Ufw.Props.C01.checked_set_get
#print axioms Ufw.Props.C01.set_storage
#print axioms Ufw.Props.C01.set_refused_unchanged
#print axioms Ufw.Props.C01.set_bad_handle
#print axioms Ufw.Props.C01.set_refuses_invalid
#print axioms Ufw.Props.C01.set_refuses_bad_float
#print axioms Ufw.Props.C01.unsafe_eq_checked
#print axioms Ufw.Props.C01.set_succeeds_iff
#print axioms Ufw.Tie.RegTable.const_rds_size
#print axioms Ufw.Tie.RegTable.const_enums
