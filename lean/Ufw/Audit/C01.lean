import Ufw.Props.C01
#print axioms Ufw.Props.C01.uninitialised_refuses
