import Ufw.Props.C17
#print axioms Ufw.Props.C17.get_chunk_exact
#print axioms Ufw.Props.C17.get_chunk_refuses
#print axioms Ufw.Props.C17.get_atmost_le
#print axioms Ufw.Props.C17.put_chunk_exact
#print axioms Ufw.Props.C17.put_chunk_refuses
#print axioms Ufw.Props.C17.put_atmost_le
