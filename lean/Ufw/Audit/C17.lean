import Ufw.Props.C17
import Ufw.Tie.Misc
#print axioms Ufw.Props.C17.get_chunk_exact
#print axioms Ufw.Props.C17.get_chunk_refuses
#print axioms Ufw.Props.C17.get_atmost_le
#print axioms Ufw.Props.C17.put_chunk_exact
#print axioms Ufw.Props.C17.put_chunk_refuses
#print axioms Ufw.Props.C17.put_atmost_le
#print axioms Ufw.Props.C17.sts_n_spec
#print axioms Ufw.Props.C17.sts_n_cbc_spec
#print axioms Ufw.Props.C17.sts_drain_spec
#print axioms Ufw.Props.C17.sts_drain_complete
#print axioms Ufw.Props.C17.sts_some_aux_spec
#print axioms Ufw.Props.C17.sts_n_aux_spec
#print axioms Ufw.Props.C17.sts_drain_aux_spec
#print axioms Ufw.Props.C17.aux_write_frame
#print axioms Ufw.Tie.Misc.const_ssize_max
#print axioms Ufw.Tie.Misc.const_crc_initial
#print axioms Ufw.Tie.Misc.const_lenp_kinds
