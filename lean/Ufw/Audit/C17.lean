import Ufw.Props.C17
import Ufw.Tie.Misc
import Ufw.Tie.EndpFns.Common
import Ufw.Tie.EndpFns.SinkAdapt
import Ufw.Tie.EndpFns.SourceAdapt
import Ufw.Tie.EndpFns.SinkPutChunk
import Ufw.Tie.EndpFns.SourceGetChunk
import Ufw.Tie.EndpFns.StsCbc
import Ufw.Tie.EndpFns.StsLoops
import Ufw.Tie.EndpFns.EndToEnd
#print axioms Ufw.Props.C17.get_chunk_exact
#print axioms Ufw.Props.C17.get_chunk_refuses
#print axioms Ufw.Props.C17.get_atmost_le
#print axioms Ufw.Props.C17.put_chunk_exact
#print axioms Ufw.Props.C17.put_chunk_refuses
#print axioms Ufw.Props.C17.put_atmost_le
#print axioms Ufw.Props.C17.sts_n_spec
#print axioms Ufw.Props.C17.sts_n_cbc_spec
#print axioms Ufw.Props.C17.sts_drain_spec
#print axioms Ufw.Props.C17.sts_drain_complete
#print axioms Ufw.Props.C17.sts_some_aux_spec
#print axioms Ufw.Props.C17.sts_n_aux_spec
#print axioms Ufw.Props.C17.sts_drain_aux_spec
#print axioms Ufw.Props.C17.aux_write_frame
#print axioms Ufw.Tie.Misc.const_ssize_max
#print axioms Ufw.Tie.Misc.const_crc_initial
#print axioms Ufw.Tie.Misc.const_lenp_kinds
#print axioms Ufw.Tie.EndpFns.errnoOf_neg
#print axioms Ufw.Tie.EndpFns.errnoOf_eintr
#print axioms Ufw.Tie.EndpFns.errnoOf_eagain
#print axioms Ufw.Tie.EndpFns.errnoOf_enodata
#print axioms Ufw.Tie.EndpFns.snk_octet_call
#print axioms Ufw.Tie.EndpFns.snk_call_not_diverge
#print axioms Ufw.Tie.EndpFns.snk_call_octet_le
#print axioms Ufw.Tie.EndpFns.sx0_64
#print axioms Ufw.Tie.EndpFns.zero_toInt32
#print axioms Ufw.Tie.EndpFns.retry_iff
#print axioms Ufw.Tie.EndpFns.sink_adapt_loop
#print axioms Ufw.Tie.EndpFns.gen_sink_adapt
#print axioms Ufw.Tie.EndpFns.src_octet_call
#print axioms Ufw.Tie.EndpFns.src_call_not_diverge
#print axioms Ufw.Tie.EndpFns.src_call_octet_ok
#print axioms Ufw.Tie.EndpFns.src_call_err_nil
#print axioms Ufw.Tie.EndpFns.source_adapt_acc_len
#print axioms Ufw.Tie.EndpFns.drop_through
#print axioms Ufw.Tie.EndpFns.sx0_64'
#print axioms Ufw.Tie.EndpFns.retry_iff'
#print axioms Ufw.Tie.EndpFns.source_adapt_loop
#print axioms Ufw.Tie.EndpFns.gen_source_adapt
#print axioms Ufw.Tie.EndpFns.snk_chunk_call
#print axioms Ufw.Tie.EndpFns.snk_call_kind
#print axioms Ufw.Tie.EndpFns.snk_call_le
#print axioms Ufw.Tie.EndpFns.sink_adapt_facts
#print axioms Ufw.Tie.EndpFns.gen_once_sink_put_chunk
#print axioms Ufw.Tie.EndpFns.once_facts
#print axioms Ufw.Tie.EndpFns.sx_toInt
#print axioms Ufw.Tie.EndpFns.sx_inj
#print axioms Ufw.Tie.EndpFns.ofNat_toInt
#print axioms Ufw.Tie.EndpFns.put_loop
#print axioms Ufw.Tie.EndpFns.gen_sink_put_chunk
#print axioms Ufw.Tie.EndpFns.gen_sink_put_chunk_atmost
#print axioms Ufw.Tie.EndpFns.src_chunk_call
#print axioms Ufw.Tie.EndpFns.src_call_facts
#print axioms Ufw.Tie.EndpFns.source_adapt_facts
#print axioms Ufw.Tie.EndpFns.once_src_facts
#print axioms Ufw.Tie.EndpFns.gen_once_source_get_chunk
#print axioms Ufw.Tie.EndpFns.get_loop
#print axioms Ufw.Tie.EndpFns.gen_source_get_chunk
#print axioms Ufw.Tie.EndpFns.gen_source_get_chunk_atmost
#print axioms Ufw.Tie.EndpFns.tr_sx32
#print axioms Ufw.Tie.EndpFns.tr_ofNat
#print axioms Ufw.Tie.EndpFns.tr_rc64
#print axioms Ufw.Tie.EndpFns.gen_sink_put_octet
#print axioms Ufw.Tie.EndpFns.gen_source_get_octet
#print axioms Ufw.Tie.EndpFns.sx_rc32
#print axioms Ufw.Tie.EndpFns.put_retry_loop
#print axioms Ufw.Tie.EndpFns.gen_sts_cbc
#print axioms Ufw.Tie.EndpFns.snk_call_script
#print axioms Ufw.Tie.EndpFns.putRetry_script
#print axioms Ufw.Tie.EndpFns.sts_cbc_keeps
#print axioms Ufw.Tie.EndpFns.rc64_neg_iff
#print axioms Ufw.Tie.EndpFns.sts_cbc_ok_le
#print axioms Ufw.Tie.EndpFns.sts_cbc_not_diverge
#print axioms Ufw.Tie.EndpFns.drain_loop
#print axioms Ufw.Tie.EndpFns.gen_sts_drain_cbc
#print axioms Ufw.Tie.EndpFns.n_loop
#print axioms Ufw.Tie.EndpFns.gen_sts_n_cbc
#print axioms Ufw.Tie.EndpFns.rc64_err_neg
#print axioms Ufw.Tie.EndpFns.c_put_chunk_exact
#print axioms Ufw.Tie.EndpFns.c_get_chunk_exact
