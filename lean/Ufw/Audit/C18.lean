import Ufw.Props.C18
import Ufw.Tie.ByteBuf.Null
import Ufw.Tie.ByteBuf.Set
import Ufw.Tie.ByteBuf.Use
import Ufw.Tie.ByteBuf.Space
import Ufw.Tie.ByteBuf.Avail
import Ufw.Tie.ByteBuf.Rest
import Ufw.Tie.ByteBuf.Add
import Ufw.Tie.ByteBuf.Consume
import Ufw.Tie.ByteBuf.ConsumeAtMost
import Ufw.Tie.ByteBuf.Rewind
import Ufw.Tie.ByteBuf.Clear
import Ufw.Tie.ByteBuf.Reset
import Ufw.Tie.ByteBuf.Repeat
#print axioms Ufw.Props.C18.setup_refuses
#print axioms Ufw.Props.C18.setup_inv
#print axioms Ufw.Props.C18.step_refines
#print axioms Ufw.Props.C18.run_refines
#print axioms Ufw.Props.C18.inv_run
#print axioms Ufw.Props.C18.add_spec
#print axioms Ufw.Props.C18.consume_spec
#print axioms Ufw.Props.C18.consume_at_most_spec
#print axioms Ufw.Props.C18.rewind_spec
#print axioms Ufw.Props.C18.reset_clear_repeat_spec
#print axioms Ufw.Tie.ByteBuf.gen_null
#print axioms Ufw.Tie.ByteBuf.gen_set
#print axioms Ufw.Tie.ByteBuf.gen_use
#print axioms Ufw.Tie.ByteBuf.gen_space
#print axioms Ufw.Tie.ByteBuf.gen_avail
#print axioms Ufw.Tie.ByteBuf.gen_rest
#print axioms Ufw.Tie.ByteBuf.gen_add
#print axioms Ufw.Tie.ByteBuf.gen_consume
#print axioms Ufw.Tie.ByteBuf.gen_consume_at_most
#print axioms Ufw.Tie.ByteBuf.gen_rewind
#print axioms Ufw.Tie.ByteBuf.gen_clear
#print axioms Ufw.Tie.ByteBuf.gen_reset
#print axioms Ufw.Tie.ByteBuf.gen_repeat
