import Ufw.Props.C18
#print axioms Ufw.Props.C18.setup_refuses
#print axioms Ufw.Props.C18.setup_inv
#print axioms Ufw.Props.C18.step_refines
#print axioms Ufw.Props.C18.run_refines
#print axioms Ufw.Props.C18.inv_run
#print axioms Ufw.Props.C18.add_spec
#print axioms Ufw.Props.C18.consume_spec
#print axioms Ufw.Props.C18.consume_at_most_spec
#print axioms Ufw.Props.C18.rewind_spec
#print axioms Ufw.Props.C18.reset_clear_repeat_spec
