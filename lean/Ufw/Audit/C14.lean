import Ufw.Props.C14
import Ufw.Tie.Varint
#print axioms Ufw.Props.C14.canonical
#print axioms Ufw.Props.C14.length_eq
#print axioms Ufw.Props.C14.encode_buf_spec
#print axioms Ufw.Props.C14.roundtrip_u64
#print axioms Ufw.Props.C14.roundtrip_u32
#print axioms Ufw.Props.C14.roundtrip_source_u64
#print axioms Ufw.Props.C14.roundtrip_source_u32
#print axioms Ufw.Props.C14.roundtrip_signed
#print axioms Ufw.Props.C14.decoders_agree
#print axioms Ufw.Props.C14.no_terminator
#print axioms Ufw.Props.C14.buf_bounds
#print axioms Ufw.Tie.Varint.const_model
#print axioms Ufw.Tie.Varint.const_leb128
