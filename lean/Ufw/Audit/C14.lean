import Ufw.Props.C14
import Ufw.Tie.Varint
import Ufw.Tie.VarintLoops.Common
import Ufw.Tie.VarintLoops.Done
import Ufw.Tie.VarintLoops.Length
import Ufw.Tie.VarintLoops.Decode
import Ufw.Tie.VarintLoops.FromSource
import Ufw.Tie.VarintLoops.Encode
import Ufw.Tie.VarintLoops.EndToEnd
import Ufw.Tie.VarintLoops.Wrappers
import Ufw.Tie.VarintLoops.EncodeTyped
#print axioms Ufw.Props.C14.canonical
#print axioms Ufw.Props.C14.length_eq
#print axioms Ufw.Props.C14.encode_buf_spec
#print axioms Ufw.Props.C14.roundtrip_u64
#print axioms Ufw.Props.C14.roundtrip_u32
#print axioms Ufw.Props.C14.roundtrip_source_u64
#print axioms Ufw.Props.C14.roundtrip_source_u32
#print axioms Ufw.Props.C14.roundtrip_signed
#print axioms Ufw.Props.C14.decoders_agree
#print axioms Ufw.Props.C14.no_terminator
#print axioms Ufw.Props.C14.buf_bounds
#print axioms Ufw.Tie.Varint.const_model
#print axioms Ufw.Tie.Varint.const_leb128
#print axioms Ufw.Tie.VarintLoops.seven
#print axioms Ufw.Tie.VarintLoops.one64
#print axioms Ufw.Tie.VarintLoops.zero64
#print axioms Ufw.Tie.VarintLoops.sone64
#print axioms Ufw.Tie.VarintLoops.sx0'
#print axioms Ufw.Tie.VarintLoops.zero_toInt
#print axioms Ufw.Tie.VarintLoops.shr7
#print axioms Ufw.Tie.VarintLoops.done_all
#print axioms Ufw.Tie.VarintLoops.gen_varint_done
#print axioms Ufw.Tie.VarintLoops.done_ne_zero
#print axioms Ufw.Tie.VarintLoops.length_loop
#print axioms Ufw.Tie.VarintLoops.gen_varint_u64_length
#print axioms Ufw.Tie.VarintLoops.data_bits
#print axioms Ufw.Tie.VarintLoops.acc_step
#print axioms Ufw.Tie.VarintLoops.decode_loop
#print axioms Ufw.Tie.VarintLoops.gen_varint_decode
#print axioms Ufw.Tie.VarintLoops.sourceLoop_ok_gt
#print axioms Ufw.Tie.VarintLoops.agrees_cons
#print axioms Ufw.Tie.VarintLoops.data_bits'
#print axioms Ufw.Tie.VarintLoops.acc_step'
#print axioms Ufw.Tie.VarintLoops.neg_enodata
#print axioms Ufw.Tie.VarintLoops.one_nonneg
#print axioms Ufw.Tie.VarintLoops.source_loop
#print axioms Ufw.Tie.VarintLoops.gen_varint_from_source
#print axioms Ufw.Tie.VarintLoops.low7
#print axioms Ufw.Tie.VarintLoops.cont_bit
#print axioms Ufw.Tie.VarintLoops.set_take
#print axioms Ufw.Tie.VarintLoops.set_drop
#print axioms Ufw.Tie.VarintLoops.encode_loop
#print axioms Ufw.Tie.VarintLoops.gen_varint_encode
#print axioms Ufw.Tie.VarintLoops.c_roundtrip_u64
#print axioms Ufw.Tie.VarintLoops.mask32
#print axioms Ufw.Tie.VarintLoops.five
#print axioms Ufw.Tie.VarintLoops.ten
#print axioms Ufw.Tie.VarintLoops.gen_varint_decode_u64
#print axioms Ufw.Tie.VarintLoops.gen_varint_decode_s64
#print axioms Ufw.Tie.VarintLoops.gen_varint_decode_u32
#print axioms Ufw.Tie.VarintLoops.gen_varint_u32_length
#print axioms Ufw.Tie.VarintLoops.gen_varint_s32_length
#print axioms Ufw.Tie.VarintLoops.gen_varint_s64_length
#print axioms Ufw.Tie.VarintLoops.ofNat32_nonneg
#print axioms Ufw.Tie.VarintLoops.tailRc_neg
#print axioms Ufw.Tie.VarintLoops.sourceLoop_ok_le
#print axioms Ufw.Tie.VarintLoops.gen_varint_u64_from_source
#print axioms Ufw.Tie.VarintLoops.gen_varint_u32_from_source
#print axioms Ufw.Tie.VarintLoops.avail_toNat
#print axioms Ufw.Tie.VarintLoops.typed_shape
#print axioms Ufw.Tie.VarintLoops.gen_varint_encode_u64
#print axioms Ufw.Tie.VarintLoops.gen_varint_encode_s64
#print axioms Ufw.Tie.VarintLoops.u32_pattern
#print axioms Ufw.Tie.VarintLoops.s32_pattern
#print axioms Ufw.Tie.VarintLoops.gen_varint_encode_u32
#print axioms Ufw.Tie.VarintLoops.gen_varint_encode_s32
#print axioms Ufw.Tie.VarintLoops.encodeBufSpec_model
