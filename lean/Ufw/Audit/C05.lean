import Ufw.Props.C05
import Ufw.Tie.RegTable
#print axioms Ufw.Props.C05.set_refused_unchanged
#print axioms Ufw.Props.C05.set_other_get_pair
#print axioms Ufw.Props.C05.set_other_get
#print axioms Ufw.Props.C05.set_preserves_sat
#print axioms Ufw.Props.C05.set_keeps_layout
#print axioms Ufw.Props.C05.sets_preserve_sat
#print axioms Ufw.Props.C05.bit_op_spec
#print axioms Ufw.Props.C05.bit_op_refuses
#print axioms Ufw.Props.C05.bit_op_refused_unchanged
#print axioms Ufw.Props.C05.get_value_wf
#print axioms Ufw.Props.C05.bit_op_is_set
#print axioms Ufw.Props.C05.history_preserves_sat
#print axioms Ufw.Props.C05.block_write_preserves_sat
#print axioms Ufw.Props.C05.block_write_refused_unchanged
#print axioms Ufw.Props.C05.block_write_keeps_layout
#print axioms Ufw.Props.C05.history_with_block_writes
#print axioms Ufw.Props.C05.sanitise_restores
#print axioms Ufw.Props.C05.sanitise_succeeds
#print axioms Ufw.Props.C05.sanitise_values
#print axioms Ufw.Props.C05.history_preserves_constraints
#print axioms Ufw.Props.C05.goodTable_good
#print axioms Ufw.Tie.RegTable.const_rds_size
#print axioms Ufw.Tie.RegTable.const_enums
