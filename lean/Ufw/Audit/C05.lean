import Ufw.Props.C05
#print axioms Ufw.Props.C05.uninitialised_refuses
