import Ufw.Props.C19
#print axioms Ufw.Props.C19.length_abs
#print axioms Ufw.Props.C19.step_refines
#print axioms Ufw.Props.C19.iter_old_to_new
#print axioms Ufw.Props.C19.iter_new_to_old
#print axioms Ufw.Props.C19.run_refines
#print axioms Ufw.Props.C19.init_spec
#print axioms Ufw.Props.C19.size_empty_full
#print axioms Ufw.Props.C19.iterators_faithful
