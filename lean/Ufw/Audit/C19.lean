import Ufw.Props.C19
import Ufw.Tie.Ring.AdvanceHead
import Ufw.Tie.Ring.AdvanceTail
import Ufw.Tie.Ring.Size
import Ufw.Tie.Ring.Empty
import Ufw.Tie.Ring.Full
import Ufw.Tie.Ring.Clear
import Ufw.Tie.Ring.Get
import Ufw.Tie.Ring.Put
import Ufw.Tie.Ring.Override
import Ufw.Tie.Ring.IterDone
import Ufw.Tie.Ring.IterAdvance
#print axioms Ufw.Props.C19.length_abs
#print axioms Ufw.Props.C19.step_refines
#print axioms Ufw.Props.C19.iter_old_to_new
#print axioms Ufw.Props.C19.iter_new_to_old
#print axioms Ufw.Props.C19.run_refines
#print axioms Ufw.Props.C19.init_spec
#print axioms Ufw.Props.C19.size_empty_full
#print axioms Ufw.Props.C19.iterators_faithful
#print axioms Ufw.Tie.Ring.gen_advance_head
#print axioms Ufw.Tie.Ring.gen_advance_tail
#print axioms Ufw.Tie.Ring.gen_size
#print axioms Ufw.Tie.Ring.gen_empty
#print axioms Ufw.Tie.Ring.gen_full
#print axioms Ufw.Tie.Ring.gen_clear
#print axioms Ufw.Tie.Ring.gen_get
#print axioms Ufw.Tie.Ring.gen_push
#print axioms Ufw.Tie.Ring.advance_tail_fit
#print axioms Ufw.Tie.Ring.gen_put
#print axioms Ufw.Tie.Ring.gen_override
#print axioms Ufw.Tie.Ring.gen_iter_done
#print axioms Ufw.Tie.Ring.gen_iter_advance
