import Ufw.Props.C09
import Ufw.Tie.Regp
#print axioms Ufw.Props.C09.stored_le_capacity
#print axioms Ufw.Props.C09.ledger
#print axioms Ufw.Props.C09.channel_error_no_frame
#print axioms Ufw.Props.C09.free_releases_once
#print axioms Ufw.Props.C09.write_payload_exact
#print axioms Ufw.Props.C09.overflow_reply
#print axioms Ufw.Props.C09.busy_reply
#print axioms Ufw.Props.C09.short_frame_reply
#print axioms Ufw.Tie.Regp.const_header_sizes
#print axioms Ufw.Tie.Regp.const_options
#print axioms Ufw.Tie.Regp.const_frame_types
#print axioms Ufw.Tie.Regp.const_response_codes
#print axioms Ufw.Tie.Regp.const_value_codes
