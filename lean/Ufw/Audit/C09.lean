import Ufw.Props.C09
#print axioms Ufw.Props.C09.stored_le_capacity
#print axioms Ufw.Props.C09.ledger
#print axioms Ufw.Props.C09.channel_error_no_frame
#print axioms Ufw.Props.C09.free_releases_once
#print axioms Ufw.Props.C09.write_payload_exact
#print axioms Ufw.Props.C09.overflow_reply
#print axioms Ufw.Props.C09.busy_reply
#print axioms Ufw.Props.C09.short_frame_reply
