import Ufw.Props.C09
#print axioms Ufw.Props.C09.seq_step
