import Ufw.Props.C20
#print axioms Ufw.Props.C20.error_no_tree
