import Ufw.Props.C20
#print axioms Ufw.Props.C20.error_no_tree
#print axioms Ufw.Props.C20.no_outside_read
#print axioms Ufw.Props.C20.terminates
#print axioms Ufw.Props.C20.success_forward
#print axioms Ufw.Props.C20.list_reader_safe
#print axioms Ufw.Props.C20.parse_rendering
#print axioms Ufw.Props.C20.render_is_rendering
#print axioms Ufw.Props.C20.parse_render
#print axioms Ufw.Props.C20.hex_rendering
#print axioms Ufw.Props.C20.allocations_accounted
#print axioms Ufw.Props.C20.error_frees_everything
#print axioms Ufw.Props.C20.heap_view_refines
