import Ufw.Props.C03
#print axioms Ufw.Props.C03.uninitialised_refuses
