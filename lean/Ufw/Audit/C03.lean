import Ufw.Props.C03
import Ufw.Tie.RegTable
#print axioms Ufw.Props.C03.firstHole_none_iff
#print axioms Ufw.Props.C03.firstHole_some
#print axioms Ufw.Props.C03.block_read_spec
#print axioms Ufw.Props.C03.cellsFrom_get
#print axioms Ufw.Props.C03.block_read_length
#print axioms Ufw.Props.C03.block_read_uninitialised
#print axioms Ufw.Props.C03.foreach_visits
#print axioms Ufw.Props.C03.foreach_stops
#print axioms Ufw.Props.C03.foreach_uninitialised
#print axioms Ufw.Tie.RegTable.const_rds_size
#print axioms Ufw.Tie.RegTable.const_enums
