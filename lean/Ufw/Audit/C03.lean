import Ufw.Props.C03
import Ufw.Tie.RegTable
import Ufw.Tie.RegFns.Geometry
import Ufw.Tie.RegFns.EndToEnd
#print axioms Ufw.Props.C03.firstHole_none_iff
#print axioms Ufw.Props.C03.firstHole_some
#print axioms Ufw.Props.C03.block_read_spec
#print axioms Ufw.Props.C03.cellsFrom_get
#print axioms Ufw.Props.C03.block_read_length
#print axioms Ufw.Props.C03.block_read_uninitialised
#print axioms Ufw.Props.C03.foreach_visits
#print axioms Ufw.Props.C03.foreach_stops
#print axioms Ufw.Props.C03.foreach_uninitialised
#print axioms Ufw.Tie.RegTable.const_rds_size
#print axioms Ufw.Tie.RegTable.const_enums
#print axioms Ufw.Tie.RegFns.gen_rds_size
#print axioms Ufw.Tie.RegFns.rds_size_invalid
#print axioms Ufw.Tie.RegFns.size_lt
#print axioms Ufw.Tie.RegFns.gen_register_entry_size
#print axioms Ufw.Tie.RegFns.gen_reg_min
#print axioms Ufw.Tie.RegFns.gen_ra_addr_is_part_of
#print axioms Ufw.Tie.RegFns.gen_ra_reg_is_part_of
#print axioms Ufw.Tie.RegFns.gen_ra_reg_fits_into
#print axioms Ufw.Tie.RegFns.gen_reg_range_touches
#print axioms Ufw.Tie.RegFns.overlap_iff_touches_zero
#print axioms Ufw.Tie.RegFns.gen_ra_range_touches
#print axioms Ufw.Tie.RegFns.ofNat_address
#print axioms Ufw.Tie.RegFns.c_taint_selects
#print axioms Ufw.Tie.RegFns.c_foreach_overlap
#print axioms Ufw.Tie.RegFns.c_entry_in_area
