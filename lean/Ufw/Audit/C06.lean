import Ufw.Props.C06
#print axioms Ufw.Props.C06.seq_step
