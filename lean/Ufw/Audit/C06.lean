import Ufw.Props.C06
#print axioms Ufw.Props.C06.process_write
#print axioms Ufw.Props.C06.process_read
#print axioms Ufw.Props.C06.process_read_overflow
#print axioms Ufw.Props.C06.process_wordsize
#print axioms Ufw.Props.C06.process_ignores
