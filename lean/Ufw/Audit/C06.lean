import Ufw.Props.C06
import Ufw.Tie.Regp
#print axioms Ufw.Props.C06.process_write
#print axioms Ufw.Props.C06.process_read
#print axioms Ufw.Props.C06.process_read_overflow
#print axioms Ufw.Props.C06.process_wordsize
#print axioms Ufw.Props.C06.process_ignores
#print axioms Ufw.Props.C06.process_calls
#print axioms Ufw.Props.C06.session_run
#print axioms Ufw.Tie.Regp.const_header_sizes
#print axioms Ufw.Tie.Regp.const_options
#print axioms Ufw.Tie.Regp.const_frame_types
#print axioms Ufw.Tie.Regp.const_response_codes
#print axioms Ufw.Tie.Regp.const_value_codes
