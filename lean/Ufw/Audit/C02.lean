import Ufw.Props.C02
#print axioms Ufw.Props.C02.uninitialised_refuses
