import Ufw.Props.C02
import Ufw.Tie.RegTable
import Ufw.Props.C02Iff
import Ufw.Tie.RegFns.Geometry
import Ufw.Tie.RegFns.EndToEnd
#print axioms Ufw.Props.C02.refused_unchanged
#print axioms Ufw.Props.C02.decision
#print axioms Ufw.Props.C02.writeable_spec
#print axioms Ufw.Props.C02.writeable_ok
#print axioms Ufw.Props.C02.taint_spec
#print axioms Ufw.Props.C02.malformed_ok
#print axioms Ufw.Props.C02.block_write_success_inv
#print axioms Ufw.Props.C02.block_write_frame
#print axioms Ufw.Tie.RegTable.const_rds_size
#print axioms Ufw.Tie.RegTable.const_enums
#print axioms Ufw.Props.C02.malformed_complete
#print axioms Ufw.Props.C02.blockWrite_total
#print axioms Ufw.Props.C02.block_write_success_iff
#print axioms Ufw.Tie.RegFns.gen_rds_size
#print axioms Ufw.Tie.RegFns.rds_size_invalid
#print axioms Ufw.Tie.RegFns.size_lt
#print axioms Ufw.Tie.RegFns.gen_register_entry_size
#print axioms Ufw.Tie.RegFns.gen_reg_min
#print axioms Ufw.Tie.RegFns.gen_ra_addr_is_part_of
#print axioms Ufw.Tie.RegFns.gen_ra_reg_is_part_of
#print axioms Ufw.Tie.RegFns.gen_ra_reg_fits_into
#print axioms Ufw.Tie.RegFns.gen_reg_range_touches
#print axioms Ufw.Tie.RegFns.overlap_iff_touches_zero
#print axioms Ufw.Tie.RegFns.gen_ra_range_touches
#print axioms Ufw.Tie.RegFns.ofNat_address
#print axioms Ufw.Tie.RegFns.c_taint_selects
#print axioms Ufw.Tie.RegFns.c_foreach_overlap
#print axioms Ufw.Tie.RegFns.c_entry_in_area
