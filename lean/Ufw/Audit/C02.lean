import Ufw.Props.C02
import Ufw.Tie.RegTable
import Ufw.Props.C02Iff
#print axioms Ufw.Props.C02.refused_unchanged
#print axioms Ufw.Props.C02.decision
#print axioms Ufw.Props.C02.writeable_spec
#print axioms Ufw.Props.C02.writeable_ok
#print axioms Ufw.Props.C02.taint_spec
#print axioms Ufw.Props.C02.malformed_ok
#print axioms Ufw.Props.C02.block_write_success_inv
#print axioms Ufw.Props.C02.block_write_frame
#print axioms Ufw.Tie.RegTable.const_rds_size
#print axioms Ufw.Tie.RegTable.const_enums
#print axioms Ufw.Props.C02.malformed_complete
#print axioms Ufw.Props.C02.blockWrite_total
#print axioms Ufw.Props.C02.block_write_success_iff
