import Ufw.Props.C10
#print axioms Ufw.Props.C10.part_bounds
