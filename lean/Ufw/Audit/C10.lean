import Ufw.Props.C10
import Ufw.Tie.PstFns.Trivialsum
import Ufw.Tie.PstFns.Layout
#print axioms Ufw.Props.C10.part_bounds
#print axioms Ufw.Props.C10.checksum_chunking
#print axioms Ufw.Props.C10.validate_iff
#print axioms Ufw.Props.C10.alteration_detected
#print axioms Ufw.Props.C10.store_validate_fetch
#print axioms Ufw.Props.C10.region
#print axioms Ufw.Props.C10.reset_spec
#print axioms Ufw.Props.C10.sum16_streamable
#print axioms Ufw.Props.C10.sum32_streamable
#print axioms Ufw.Props.C10.crc16_streamable
#print axioms Ufw.Tie.PstFns.zx0
#print axioms Ufw.Tie.PstFns.body
#print axioms Ufw.Tie.PstFns.loop1_spec
#print axioms Ufw.Tie.PstFns.gen_trivialsum
#print axioms Ufw.Tie.PstFns.gen_trivialsum_oob
#print axioms Ufw.Tie.PstFns.c_trivialsum_streamable
#print axioms Ufw.Tie.PstFns.gen_checksum_size
#print axioms Ufw.Tie.PstFns.checksum_size_width
#print axioms Ufw.Tie.PstFns.gen_set_data_address
#print axioms Ufw.Tie.PstFns.gen_persistent_place
