import Ufw.Props.C10
#print axioms Ufw.Props.C10.part_bounds
#print axioms Ufw.Props.C10.checksum_chunking
#print axioms Ufw.Props.C10.validate_iff
#print axioms Ufw.Props.C10.alteration_detected
#print axioms Ufw.Props.C10.store_validate_fetch
#print axioms Ufw.Props.C10.region
#print axioms Ufw.Props.C10.reset_spec
#print axioms Ufw.Props.C10.sum16_streamable
#print axioms Ufw.Props.C10.sum32_streamable
#print axioms Ufw.Props.C10.crc16_streamable
