import Ufw.Props.C07
#print axioms Ufw.Props.C07.seq_step
