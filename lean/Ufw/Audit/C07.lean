import Ufw.Props.C07
import Ufw.Tie.Regp
import Ufw.Tie.RegpFns.Common
import Ufw.Tie.RegpFns.PayloadPlausible
import Ufw.Tie.RegpFns.Req2resp
import Ufw.Tie.RegpFns.MsemSize
import Ufw.Tie.RegpFns.MemtypeValid
import Ufw.Tie.RegpFns.RawWithHdcrc
import Ufw.Tie.RegpFns.RawWithPlcrc
import Ufw.Tie.RegpFns.MakeMotv
#print axioms Ufw.Props.C07.verdict_eq_spec
#print axioms Ufw.Props.C07.accepted_payload_checksum
#print axioms Ufw.Props.C07.rejected_not_executed
#print axioms Ufw.Props.C07.damaged_frame_reception
#print axioms Ufw.Props.C07.crc_burst16
#print axioms Ufw.Props.C07.header_burst_rejected
#print axioms Ufw.Props.C07.payload_burst_rejected
#print axioms Ufw.Props.C07.crc_two_bit
#print axioms Ufw.Props.C07.header_two_bit_rejected
#print axioms Ufw.Props.C07.payload_two_bit_rejected
#print axioms Ufw.Props.C07.word0_single_bit_rejected
#print axioms Ufw.Props.C07.burst_across_size_and_checksum_accepted
#print axioms Ufw.Tie.Regp.const_header_sizes
#print axioms Ufw.Tie.Regp.const_options
#print axioms Ufw.Tie.Regp.const_frame_types
#print axioms Ufw.Tie.Regp.const_response_codes
#print axioms Ufw.Tie.Regp.const_value_codes
#print axioms Ufw.Tie.RegpFns.opt16_iff
#print axioms Ufw.Tie.RegpFns.lit_iff
#print axioms Ufw.Tie.RegpFns.two64
#print axioms Ufw.Tie.RegpFns.stwo64
#print axioms Ufw.Tie.RegpFns.zero64
#print axioms Ufw.Tie.RegpFns.szero64
#print axioms Ufw.Tie.RegpFns.b2bv8_true
#print axioms Ufw.Tie.RegpFns.b2bv8_false
#print axioms Ufw.Tie.RegpFns.tail_eq
#print axioms Ufw.Tie.RegpFns.gen_payload_plausible
#print axioms Ufw.Tie.RegpFns.gen_req2resp
#print axioms Ufw.Tie.RegpFns.mul2
#print axioms Ufw.Tie.RegpFns.mul1
#print axioms Ufw.Tie.RegpFns.gen_msem_size_s16
#print axioms Ufw.Tie.RegpFns.gen_msem_size_s8
#print axioms Ufw.Tie.RegpFns.gen_msem_size_auto
#print axioms Ufw.Tie.RegpFns.opt16_b8
#print axioms Ufw.Tie.RegpFns.opt16_b8'
#print axioms Ufw.Tie.RegpFns.gen_memtype_valid
#print axioms Ufw.Tie.RegpFns.hd_mask
#print axioms Ufw.Tie.RegpFns.gen_raw_with_hdcrc
#print axioms Ufw.Tie.RegpFns.pl_mask
#print axioms Ufw.Tie.RegpFns.gen_raw_with_plcrc
#print axioms Ufw.Tie.RegpFns.motv_bits
#print axioms Ufw.Tie.RegpFns.ofNat_shl
#print axioms Ufw.Tie.RegpFns.ofNat_mod16
#print axioms Ufw.Tie.RegpFns.model_motv
#print axioms Ufw.Tie.RegpFns.gen_make_motv
