import Ufw.Props.C07
import Ufw.Tie.Regp
#print axioms Ufw.Props.C07.verdict_eq_spec
#print axioms Ufw.Props.C07.accepted_payload_checksum
#print axioms Ufw.Props.C07.rejected_not_executed
#print axioms Ufw.Props.C07.damaged_frame_reception
#print axioms Ufw.Props.C07.crc_burst16
#print axioms Ufw.Props.C07.header_burst_rejected
#print axioms Ufw.Props.C07.payload_burst_rejected
#print axioms Ufw.Props.C07.crc_two_bit
#print axioms Ufw.Props.C07.header_two_bit_rejected
#print axioms Ufw.Props.C07.payload_two_bit_rejected
#print axioms Ufw.Props.C07.word0_single_bit_rejected
#print axioms Ufw.Props.C07.burst_across_size_and_checksum_accepted
#print axioms Ufw.Tie.Regp.const_header_sizes
#print axioms Ufw.Tie.Regp.const_options
#print axioms Ufw.Tie.Regp.const_frame_types
#print axioms Ufw.Tie.Regp.const_response_codes
#print axioms Ufw.Tie.Regp.const_value_codes
