import Ufw.Props.C13
import Ufw.Tie.Misc
import Ufw.Tie.Varint
#print axioms Ufw.Props.C13.kind_table_spec
#print axioms Ufw.Props.C13.encode_prefix_spec
#print axioms Ufw.Props.C13.prefixSpec_ne_nil
#print axioms Ufw.Props.C13.memory_to_sink_spec
#print axioms Ufw.Props.C13.buffer_to_sink_spec
#print axioms Ufw.Props.C13.buffer_to_sink_n_spec
#print axioms Ufw.Props.C13.chunks_to_sink_spec
#print axioms Ufw.Props.C13.refuse_too_long
#print axioms Ufw.Props.C13.memory_encode_spec
#print axioms Ufw.Props.C13.decode_prefix_spec
#print axioms Ufw.Props.C13.memory_from_source_spec
#print axioms Ufw.Props.C13.buffer_from_source_spec
#print axioms Ufw.Props.C13.stream_order
#print axioms Ufw.Props.C13.source_to_sink_spec
#print axioms Ufw.Tie.Misc.const_ssize_max
#print axioms Ufw.Tie.Misc.const_crc_initial
#print axioms Ufw.Tie.Misc.const_lenp_kinds
#print axioms Ufw.Tie.Varint.const_model
#print axioms Ufw.Tie.Varint.const_leb128
