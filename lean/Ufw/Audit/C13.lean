import Ufw.Props.C13
#print axioms Ufw.Props.C13.kind_table_spec
#print axioms Ufw.Props.C13.encode_prefix_spec
#print axioms Ufw.Props.C13.prefixSpec_ne_nil
#print axioms Ufw.Props.C13.memory_to_sink_spec
#print axioms Ufw.Props.C13.buffer_to_sink_spec
#print axioms Ufw.Props.C13.buffer_to_sink_n_spec
#print axioms Ufw.Props.C13.chunks_to_sink_spec
#print axioms Ufw.Props.C13.refuse_too_long
#print axioms Ufw.Props.C13.memory_encode_spec
#print axioms Ufw.Props.C13.decode_prefix_spec
#print axioms Ufw.Props.C13.memory_from_source_spec
#print axioms Ufw.Props.C13.buffer_from_source_spec
#print axioms Ufw.Props.C13.stream_order
