import Ufw.Props.C12
import Ufw.Tie.Slip
#print axioms Ufw.Props.C12.enc_eq_rfc
#print axioms Ufw.Props.C12.encode_emits_enc
#print axioms Ufw.Props.C12.no_inner_delimiter
#print axioms Ufw.Props.C12.length_bound
#print axioms Ufw.Props.C12.decode_encode
#print axioms Ufw.Props.C12.concat
#print axioms Ufw.Props.C12.resync_classic
#print axioms Ufw.Props.C12.resync_sof
#print axioms Ufw.Props.C12.bad_escape
#print axioms Ufw.Props.C12.emit_le_consume
#print axioms Ufw.Props.C12.source_error_passthrough
#print axioms Ufw.Props.C12.sink_error_passthrough
#print axioms Ufw.Props.C12.encode_over_fragmenting_drivers
#print axioms Ufw.Tie.Slip.const_model_octets
#print axioms Ufw.Tie.Slip.const_rfc1055_octets
#print axioms Ufw.Tie.Slip.const_octets_distinct
#print axioms Ufw.Tie.Slip.const_worst_case
