import Ufw.Props.C12
import Ufw.Tie.Slip
import Ufw.Tie.SlipFns.Common
import Ufw.Tie.SlipFns.ContextInit
import Ufw.Tie.SlipFns.Encode
import Ufw.Tie.SlipFns.Decode
import Ufw.Tie.SlipFns.EndToEnd
#print axioms Ufw.Props.C12.enc_eq_rfc
#print axioms Ufw.Props.C12.encode_emits_enc
#print axioms Ufw.Props.C12.no_inner_delimiter
#print axioms Ufw.Props.C12.length_bound
#print axioms Ufw.Props.C12.decode_encode
#print axioms Ufw.Props.C12.concat
#print axioms Ufw.Props.C12.resync_classic
#print axioms Ufw.Props.C12.resync_sof
#print axioms Ufw.Props.C12.bad_escape
#print axioms Ufw.Props.C12.emit_le_consume
#print axioms Ufw.Props.C12.source_error_passthrough
#print axioms Ufw.Props.C12.sink_error_passthrough
#print axioms Ufw.Props.C12.encode_over_fragmenting_drivers
#print axioms Ufw.Tie.Slip.const_model_octets
#print axioms Ufw.Tie.Slip.const_rfc1055_octets
#print axioms Ufw.Tie.Slip.const_octets_distinct
#print axioms Ufw.Tie.Slip.const_worst_case
#print axioms Ufw.Tie.SlipFns.tr_signExtend
#print axioms Ufw.Tie.SlipFns.put_zero
#print axioms Ufw.Tie.SlipFns.put_succ
#print axioms Ufw.Tie.SlipFns.putAll_model
#print axioms Ufw.Tie.SlipFns.putAll_full
#print axioms Ufw.Tie.SlipFns.putAll_ok
#print axioms Ufw.Tie.SlipFns.enodata_iff
#print axioms Ufw.Tie.SlipFns.eilseq_iff
#print axioms Ufw.Tie.SlipFns.gen_rfc1055_context_init
#print axioms Ufw.Tie.SlipFns.zero_toInt
#print axioms Ufw.Tie.SlipFns.eof_octet
#print axioms Ufw.Tie.SlipFns.close_spec
#print axioms Ufw.Tie.SlipFns.is_esc
#print axioms Ufw.Tie.SlipFns.is_eof
#print axioms Ufw.Tie.SlipFns.chunk2
#print axioms Ufw.Tie.SlipFns.encode_octet_spec
#print axioms Ufw.Tie.SlipFns.neg_enodata_lt
#print axioms Ufw.Tie.SlipFns.errOf_enodata
#print axioms Ufw.Tie.SlipFns.encode_loop
#print axioms Ufw.Tie.SlipFns.gen_rfc1055_encode
#print axioms Ufw.Tie.SlipFns.zero_toInt'
#print axioms Ufw.Tie.SlipFns.is_esc'
#print axioms Ufw.Tie.SlipFns.is_eof'
#print axioms Ufw.Tie.SlipFns.is_esceof
#print axioms Ufw.Tie.SlipFns.is_escesc
#print axioms Ufw.Tie.SlipFns.neg_enodata_lt'
#print axioms Ufw.Tie.SlipFns.one_not_neg
#print axioms Ufw.Tie.SlipFns.decode_octet_spec
#print axioms Ufw.Tie.SlipFns.transition_spec
#print axioms Ufw.Tie.SlipFns.stOf_stCode
#print axioms Ufw.Tie.SlipFns.retD_neg
#print axioms Ufw.Tie.SlipFns.errOf_nodata
#print axioms Ufw.Tie.SlipFns.sof_code
#print axioms Ufw.Tie.SlipFns.decode_loop
#print axioms Ufw.Tie.SlipFns.gen_rfc1055_decode
#print axioms Ufw.Tie.SlipFns.payloadSrc_ok
#print axioms Ufw.Tie.SlipFns.srcM_payload
#print axioms Ufw.Tie.SlipFns.c_encode_emits
#print axioms Ufw.Tie.SlipFns.c_decode_encode
