import Ufw.Props.C11
#print axioms Ufw.Props.C11.part_bounds_again
