import Ufw.Props.C11
import Ufw.Tie.PstFns.Trivialsum
import Ufw.Tie.PstFns.Layout
#print axioms Ufw.Props.C11.crash_consistent
#print axioms Ufw.Props.C11.torn_write
#print axioms Ufw.Props.C11.io_error_propagates
#print axioms Ufw.Tie.PstFns.zx0
#print axioms Ufw.Tie.PstFns.body
#print axioms Ufw.Tie.PstFns.loop1_spec
#print axioms Ufw.Tie.PstFns.gen_trivialsum
#print axioms Ufw.Tie.PstFns.gen_trivialsum_oob
#print axioms Ufw.Tie.PstFns.c_trivialsum_streamable
#print axioms Ufw.Tie.PstFns.gen_checksum_size
#print axioms Ufw.Tie.PstFns.checksum_size_width
#print axioms Ufw.Tie.PstFns.gen_set_data_address
#print axioms Ufw.Tie.PstFns.gen_persistent_place
