import Ufw.Props.C11
#print axioms Ufw.Props.C11.crash_consistent
#print axioms Ufw.Props.C11.torn_write
#print axioms Ufw.Props.C11.io_error_propagates
