import Ufw.Props.C16
#print axioms Ufw.Props.C16.octet_eq_bitwise
#print axioms Ufw.Props.C16.crc_eq_spec
#print axioms Ufw.Props.C16.buffer_crc_eq_spec
#print axioms Ufw.Props.C16.crc_append
#print axioms Ufw.Props.C16.crc_u16_eq_octets
