import Ufw.Props.C16
import Ufw.Tie.Misc
#print axioms Ufw.Props.C16.octet_eq_bitwise
#print axioms Ufw.Props.C16.crc_eq_spec
#print axioms Ufw.Props.C16.buffer_crc_eq_spec
#print axioms Ufw.Props.C16.crc_append
#print axioms Ufw.Props.C16.crc_u16_eq_octets
#print axioms Ufw.Tie.Misc.const_ssize_max
#print axioms Ufw.Tie.Misc.const_crc_initial
#print axioms Ufw.Tie.Misc.const_lenp_kinds
