import Ufw.Props.C16
import Ufw.Tie.Misc
import Ufw.Tie.CrcLoops.Octet
import Ufw.Tie.CrcLoops.Arc
import Ufw.Tie.CrcLoops.Buffer
import Ufw.Tie.CrcLoops.ArcU16
import Ufw.Tie.CrcLoops.BufferU16
import Ufw.Tie.CrcLoops.EndToEnd
#print axioms Ufw.Props.C16.octet_eq_bitwise
#print axioms Ufw.Props.C16.crc_eq_spec
#print axioms Ufw.Props.C16.buffer_crc_eq_spec
#print axioms Ufw.Props.C16.crc_append
#print axioms Ufw.Props.C16.crc_u16_eq_octets
#print axioms Ufw.Tie.Misc.const_ssize_max
#print axioms Ufw.Tie.Misc.const_crc_initial
#print axioms Ufw.Tie.Misc.const_lenp_kinds
#print axioms Ufw.Tie.CrcLoops.table_eq
#print axioms Ufw.Tie.CrcLoops.index_eq
#print axioms Ufw.Tie.CrcLoops.index_lt
#print axioms Ufw.Tie.CrcLoops.combine_eq
#print axioms Ufw.Tie.CrcLoops.sx0
#print axioms Ufw.Tie.CrcLoops.gen_crc16_octet
#print axioms Ufw.Tie.CrcLoops.loop1_spec
#print axioms Ufw.Tie.CrcLoops.gen_ufw_crc16_arc
#print axioms Ufw.Tie.CrcLoops.gen_ufw_crc16_arc_oob
#print axioms Ufw.Tie.CrcLoops.gen_ufw_buffer_crc16_arc
#print axioms Ufw.Tie.CrcLoops.low_eq
#print axioms Ufw.Tie.CrcLoops.high_eq
#print axioms Ufw.Tie.CrcLoops.loop1_u16_spec
#print axioms Ufw.Tie.CrcLoops.gen_ufw_crc16_arc_u16
#print axioms Ufw.Tie.CrcLoops.gen_ufw_buffer_crc16_arc_u16
#print axioms Ufw.Tie.CrcLoops.c_crc_eq_spec
#print axioms Ufw.Tie.CrcLoops.c_crc_append
#print axioms Ufw.Tie.CrcLoops.c_crc_u16_eq_octets
