import Ufw.Props.C04
#print axioms Ufw.Props.C04.uninitialised_refuses
