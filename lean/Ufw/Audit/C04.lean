import Ufw.Props.C04
import Ufw.Tie.RegTable
#print axioms Ufw.Props.C04.orderCheck_go_none
#print axioms Ufw.Props.C04.orderCheck_go_some
#print axioms Ufw.Props.C04.init_outcome
#print axioms Ufw.Props.C04.uninitialised_refuses
#print axioms Ufw.Props.C04.init_no_areas
#print axioms Ufw.Tie.RegTable.const_rds_size
#print axioms Ufw.Tie.RegTable.const_enums
