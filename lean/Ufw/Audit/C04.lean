import Ufw.Props.C04
#print axioms Ufw.Props.C04.orderCheck_go_none
#print axioms Ufw.Props.C04.orderCheck_go_some
#print axioms Ufw.Props.C04.init_outcome
#print axioms Ufw.Props.C04.uninitialised_refuses
#print axioms Ufw.Props.C04.init_no_areas
