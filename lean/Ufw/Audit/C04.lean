import Ufw.Props.C04
import Ufw.Tie.RegTable
#print axioms Ufw.Props.C04.orderCheck_go_none
#print axioms Ufw.Props.C04.orderCheck_go_some
#print axioms Ufw.Props.C04.init_outcome
#print axioms Ufw.Props.C04.uninitialised_refuses
#print axioms Ufw.Props.C04.init_no_areas
#print axioms Ufw.Props.C04.init_unfold
#print axioms Ufw.Props.C04.init_success_iff
#print axioms Ufw.Props.C04.init_first_error
#print axioms Ufw.Props.C04.init_post
#print axioms Ufw.Props.C04.init_records
#print axioms Ufw.Props.C04.init_good
#print axioms Ufw.Props.C04.init_then_history
#print axioms Ufw.Tie.RegTable.const_rds_size
#print axioms Ufw.Tie.RegTable.const_enums
