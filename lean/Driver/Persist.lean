/-
Line-protocol driver for persistent storage (C10, C11).
-/
import Ufw.Model.Persist
import Ufw.Model.Crc
import Driver.Loop

open Ufw

namespace Driver.Persist
open Ufw.Model.Persist

structure State where
  m : Medium := { cells := [] }
  s : Store := { sumAddr := 0, width := 2, init := 0, dataSize := 0, buf := none }
  kind : String := "sum16"

def fOf (kind : String) : List Octet → Nat → Nat :=
  match kind with
  | "crc16" => fun d i => (Ufw.Model.Crc.ufw_crc16_arc (BitVec.ofNat 16 i) d).toNat
  | "sum32" => sum32
  | _ => sum16

def accStr : Access → String
  | .success => "success" | .invalidData => "invalid-data" | .ioError => "io-error" | .outOfRange => "out-of-range"

def logStr (l : List (Bool × Nat × Nat)) : String :=
  if l.isEmpty then "-" else ",".intercalate (l.map fun (w, a, n) => s!"{if w then "w" else "r"}@{a}+{n}")

def inRegion (s : Store) (l : List (Bool × Nat × Nat)) : Bool :=
  l.all fun (_, a, n) => s.sumAddr ≤ a ∧ a + n ≤ s.dataAddr + s.dataSize

def parseFaults (t : String) : Option (List (Option Nat)) :=
  if t == "-" then some [] else
  (t.splitOn ",").mapM fun x =>
    if x == "n" then some none
    else if x.startsWith "s" then (x.drop 1).toString.toNat?.map some
    else none

/-- result line: model view (with the access log) ## spec view (result, data, medium image, region) -/
def view (st : State) (a : Access) (data : Option (List Octet)) (m0 m1 : Medium) : String :=
  let newLog := m1.log.drop m0.log.length
  let d := match data with | some d => s!" data={hexOf d}" | none => ""
  s!"{accStr a}{d} log={logStr newLog} ## {accStr a}{d} medium={hexOf m1.cells} inregion={inRegion st.s newLog}"

/-- independent reading for `validate`: success iff the checksum field on the medium equals the
    checksum function applied to the data image on the medium (when the medium can be read) -/
def specValidate (st : State) : Option Access :=
  let s := st.s
  if s.dataAddr + s.dataSize ≤ st.m.cells.length ∧ st.m.faults.all Option.isNone then
    let field := (st.m.cells.drop s.sumAddr).take s.width
    let image := (st.m.cells.drop s.dataAddr).take s.dataSize
    let stored := Ufw.Spec.Endian.loadU s.hostBig field
    some (if stored = trunc s (fOf st.kind image (trunc s s.init)) then .success else .invalidData)
  else none

def stepLine (st : State) (toks : List String) : State × String :=
  let f := fOf st.kind
  match toks with
  | ["ps.relocate", b] =>
    -- where the medium's window lies in the address space is invisible here: addresses are relative to it
    if (parseNat b).isSome then (st, "ok") else (st, "bad-op")
  | ["ps.init", msize, fill, sumAddr, kind, init, dsize, buf] =>
    match msize.toNat?, parseHexNat fill, sumAddr.toNat?, parseNat init, dsize.toNat? with
    | some ms, some fl, some sa, some ini, some ds =>
      let w := if kind == "sum32" then 4 else 2
      let b := if buf == "none" then none else buf.toNat?
      ({ m := { cells := List.replicate ms (BitVec.ofNat 8 fl) },
         s := { sumAddr := sa, width := w, init := ini, dataSize := ds, buf := b }, kind := kind }, "ok")
    | _, _, _, _, _ => (st, "bad-op")
  | ["ps.resum", kind, init] =>
    -- the checksum of a live instance is configured again: width and start value change, nothing else
    match parseNat init with
    | some ini =>
      if kind == "crc16" || kind == "sum32" then
        ({ st with s := { st.s with width := if kind == "sum32" then 4 else 2, init := ini }, kind := kind }, "ok")
      else (st, "bad-op")
    | none => (st, "bad-op")
  | ["ps.faults", script] =>
    match parseFaults script with
    | some fs => ({ st with m := { st.m with faults := fs } }, "ok")
    | none => (st, "bad-op")
  | ["ps.poke", addr, hex] =>
    match addr.toNat?, parseHex hex with
    | some a, some d =>
      let c := st.m.cells
      if a + d.length ≤ c.length then
        ({ st with m := { st.m with cells := c.take a ++ (d ++ c.drop (a + d.length)) } }, "ok")
      else (st, "bad-op")
    | _, _ => (st, "bad-op")
  | ["ps.store", hex] =>
    match parseHex hex with
    | some d =>
      let (a, m') := persistent_store f st.s st.m d
      ({ st with m := m' }, view st a none st.m m')
    | none => (st, "bad-op")
  | ["ps.storepart", hex, off] =>
    match parseHex hex, off.toNat? with
    | some d, some o =>
      let (a, m') := persistent_store_part f st.s st.m d o
      ({ st with m := m' }, view st a none st.m m')
    | _, _ => (st, "bad-op")
  | ["ps.storeraw", off, n] =>
    -- offset/length pair given as numbers (for pairs whose sum wraps in size_t); only refusals are defined
    match off.toNat?, n.toNat? with
    | some o, some n =>
      if n > st.s.dataSize ∨ o > st.s.dataSize - n then (st, view st .outOfRange none st.m st.m)
      else (st, "bad-op")
    | _, _ => (st, "bad-op")
  | ["ps.fetchraw", off, n] =>
    match off.toNat?, n.toNat? with
    | some o, some n =>
      if n > st.s.dataSize ∨ o > st.s.dataSize - n then (st, view st .outOfRange none st.m st.m)
      else (st, "bad-op")
    | _, _ => (st, "bad-op")
  | ["ps.validate"] =>
    let (a, m') := persistent_validate f st.s st.m
    let line := view st a none st.m m'
    let line := match specValidate st with
      | some sa => (line.splitOn " ## ").head! ++ s!" ## {accStr sa} medium={hexOf m'.cells} inregion={inRegion st.s (m'.log.drop st.m.log.length)}"
      | none => line
    ({ st with m := m' }, line)
  | ["ps.fetch"] =>
    let (a, d, m') := persistent_fetch st.s st.m
    ({ st with m := m' }, view st a (if a == .success then some d else some []) st.m m')
  | ["ps.fetchpart", off, n] =>
    match off.toNat?, n.toNat? with
    | some o, some n =>
      let (a, d, m') := persistent_fetch_part st.s st.m o n
      ({ st with m := m' }, view st a (if a == .success then some d else some []) st.m m')
    | _, _ => (st, "bad-op")
  | ["ps.reset", item] =>
    match parseHexNat item with
    | some it =>
      let (a, m') := persistent_reset st.s st.m (BitVec.ofNat 8 it)
      ({ st with m := m' }, view st a none st.m m')
    | none => (st, "bad-op")
  | _ => (st, "bad-op")

end Driver.Persist

def main : IO Unit := Driver.loop ({} : Driver.Persist.State) Driver.Persist.stepLine
