/-
Line-protocol driver for the register table (C01–C05).
-/
import Ufw.Model.RegTable
import Driver.Loop

open Ufw

namespace Driver.RegTable
open Ufw.Model.RegTable

structure State where
  t : Table := { areas := [], entries := [] }

/-- validator callbacks shared with the harness, selected by id -/
def cb (id : Nat) (v : Value) : Bool :=
  match id with
  | 0 => v.bits % 2 == 0
  | 1 => false
  | 2 => true
  | _ => v.bits % 3 == 0

def typeOf : String → Option RType
  | "u16" => some .u16 | "u32" => some .u32 | "u64" => some .u64
  | "s16" => some .s16 | "s32" => some .s32 | "s64" => some .s64
  | "f32" => some .f32 | "f64" => some .f64 | _ => none

def typeStr : RType → String
  | .u16 => "u16" | .u32 => "u32" | .u64 => "u64" | .s16 => "s16" | .s32 => "s32" | .s64 => "s64"
  | .f32 => "f32" | .f64 => "f64"

def codeStr : Code → String
  | .success => "success" | .failure => "failure" | .uninitialised => "uninitialised" | .noentry => "noentry"
  | .range => "range" | .invalid => "invalid" | .readonly => "readonly" | .ioError => "io-error"

def accStr (a : Access) : String :=
  -- the address field is specified for failures only
  if a.code == .success then "success" else s!"{codeStr a.code}@{a.address}"

def atomsHex (l : List Atom) : String :=
  if l.isEmpty then "-" else String.join (l.map fun a => hexNat a 4)

def parseAtoms (s : String) : Option (List Atom) :=
  if s == "-" then some [] else
  let cs := s.toList
  if cs.length % 4 != 0 then none else
  (List.range (cs.length / 4)).mapM fun i => parseHexNat (String.ofList ((cs.drop (4 * i)).take 4))

def parseArea (s : String) : Option Area :=
  match s.splitOn ":" with
  | [base, size, flags, kind] =>
    match parseNat base, parseNat size with
    | some b, some sz =>
      let mem := kind.startsWith "M"
      some { base := b, size := sz,
             readable := flags.contains 'r', writeable := flags.contains 'w', skipDefaults := flags.contains 's',
             hasRead := mem || kind.contains 'R', hasWrite := mem || kind.contains 'W', memBacked := mem,
             mem := List.replicate sz (if mem then 0xeeee else 0xa5a5) }
    | _, _ => none
  | _ => none

def parseCheck (s : String) : Option Validator :=
  if s == "t" then some .trivial
  else if s == "f" then some .fail
  else if s.startsWith "m" then (parseHexNat (s.drop 1).toString).map .min
  else if s.startsWith "x" then (parseHexNat (s.drop 1).toString).map .max
  else if s.startsWith "r" then
    match (s.drop 1).toString.splitOn "-" with
    | [lo, hi] => match parseHexNat lo, parseHexNat hi with
      | some l, some h => some (.range l h)
      | _, _ => none
    | _ => none
  else if s.startsWith "c" then ((s.drop 1).toString.toNat?).map .callback
  else none

def parseEntry (s : String) : Option Entry :=
  match s.splitOn ":" with
  | [ty, addr, dflt, chk] =>
    match typeOf ty, parseNat addr, parseHexNat dflt, parseCheck chk with
    | some t, some a, some d, some c => some { type := t, default := d, address := a, check := c }
    | _, _, _, _ => none
  | _ => none

def parseList {α} (f : String → Option α) (s : String) : Option (List α) :=
  if s == "-" then some [] else (s.splitOn "|").mapM f

def memStr (t : Table) : String :=
  "/".intercalate (t.areas.map fun a => atomsHex a.mem)

def touchedStr (t : Table) : String :=
  if t.entries.isEmpty then "-" else String.ofList (t.entries.map fun e => if e.touched then '1' else '0')

def stateStr (t : Table) : String := s!"mem={memStr t} touched={touchedStr t}"

def initStr : InitCode → String
  | .success => "success" | .tableInvalid => "table-invalid" | .noAreas => "no-areas" | .tooManyAreas => "too-many-areas"
  | .areaInvalidOrder => "area-invalid-order" | .areaAddressOverlap => "area-address-overlap"
  | .tooManyEntries => "too-many-entries" | .entryInvalidOrder => "entry-invalid-order"
  | .entryAddressOverlap => "entry-address-overlap" | .entryInMemoryHole => "entry-in-memory-hole"
  | .entryInvalidDefault => "entry-invalid-default"

def parseValue (ty bits : String) : Option Value :=
  match typeOf ty, parseHexNat bits with
  | some t, some b => some ⟨t, b % 2 ^ t.bits⟩
  | _, _ => none

def parseScript (s : String) : Option (List Int) :=
  if s == "-" then some [] else (s.splitOn ",").mapM String.toInt?

def stepLine (st : State) (toks : List String) : State × String :=
  let t := st.t
  match toks with
  | ["rt.table", be, areas, entries] =>
    match parseList parseArea areas, parseList parseEntry entries with
    | some as, some es => ({ t := { areas := as, entries := es, bigEndian := be == "1" } }, "ok")
    | _, _ => (st, "bad-op")
  | ["rt.edit", be, areas, entries] =>
    -- the description is edited in place: what earlier operations left in the structures stays (entry -> area
    -- link and offset, touched marks, the run recorded in each area, the table's flags, storage of areas whose
    -- size is unchanged)
    match parseList parseArea areas, parseList parseEntry entries with
    | some as, some es =>
      let as' := (List.range as.length).filterMap fun i =>
        match as[i]?, t.areas[i]? with
        | some a, some o => some { a with first := o.first, last := o.last, count := o.count,
                                          mem := if a.size = o.size then o.mem else a.mem }
        | some a, none => some a
        | none, _ => none
      let es' := (List.range es.length).filterMap fun i =>
        match es[i]?, t.entries[i]? with
        | some e, some o => some { e with area := o.area, offset := o.offset, touched := o.touched }
        | some e, none => some e
        | none, _ => none
      ({ t := { t with areas := as', entries := es', bigEndian := be == "1" } }, "ok")
    | _, _ => (st, "bad-op")
  | ["rt.init"] =>
    let (r, t') := register_init cb t
    let links := "/".intercalate (t'.areas.map fun a => s!"{a.first},{a.last},{a.count}")
    let pos := if r.code == .success then "" else s!"@{r.pos}"
    -- area links and memory are specified after a successful initialisation only
    let detail := if r.code == .success then s!" links={links} {stateStr t'}" else ""
    ({ t := t' }, s!"{initStr r.code}{pos} init={t'.initialised}{detail}")
  | ["rt.set", h, ty, bits] | ["rt.setu", h, ty, bits] =>
    match h.toNat?, parseValue ty bits with
    | some h, some v =>
      let (a, t') := if toks.head! == "rt.set" then register_set cb t h v else register_set_unsafe cb t h v
      ({ t := t' }, s!"{accStr a} {stateStr t'}")
    | _, _ => (st, "bad-op")
  | ["rt.get", h] =>
    match h.toNat? with
    | some h =>
      let (a, v) := register_get t h
      let vs := match a.code, v with
        | .success, some v => s!" {typeStr v.type}:{hexNat v.bits (v.type.bits / 4)}"
        | _, _ => ""
      (st, s!"{accStr a}{vs}")
    | none => (st, "bad-op")
  | ["rt.default", h] =>
    match h.toNat? with
    | some h =>
      let (a, v) := register_default t h
      let vs := match a.code, v with
        | .success, some v => s!" {typeStr v.type}:{hexNat v.bits (v.type.bits / 4)}"
        | _, _ => ""
      (st, s!"{accStr a}{vs}")
    | none => (st, "bad-op")
  | ["rt.bset", h, ty, bits] | ["rt.bclr", h, ty, bits] =>
    match h.toNat?, parseValue ty bits with
    | some h, some v =>
      let (a, t') := register_bit_op cb t h v (toks.head! == "rt.bset")
      ({ t := t' }, s!"{accStr a} {stateStr t'}")
    | _, _ => (st, "bad-op")
  | ["rt.bread", addr, n] =>
    match parseNat addr, n.toNat? with
    | some a, some n =>
      let (r, d) := register_block_read t a n
      (st, s!"{accStr r} data={if r.code == .success then atomsHex d else "-"}")
    | _, _ => (st, "bad-op")
  | ["rt.bwrite", addr, atoms] =>
    match parseNat addr, parseAtoms atoms with
    | some a, some d =>
      let (r, t') := register_block_write cb t a d
      ({ t := t' }, s!"{accStr r} {stateStr t'}")
    | _, _ => (st, "bad-op")
  | ["rt.hole", addr, n] =>
    match parseNat addr, n.toNat? with
    | some a, some n =>
      if a ≥ 2 ^ 32 ∨ n ≥ 2 ^ 32 then (st, "bad-op")      -- not a RegisterAddress / RegisterOffset
      else (st, accStr (register_block_touches_hole t a n))
    | _, _ => (st, "bad-op")
  | ["rt.userinit", k] =>
    -- `register_user_init`: the callback is asked for every register in table order until it reports failure
    -- (here: for entry k); the table is not touched
    match k.toNat? with
    | some k =>
      let r : Access := if !t.initialised then ⟨.uninitialised, 0⟩
        else match t.entries[k]? with
          | some e => ⟨.failure, e.address⟩
          | none => ⟨.success, 0⟩
      let calls := if !t.initialised then 0 else min (k + 1) t.entries.length
      (st, s!"{accStr r} calls={calls} {stateStr t}")
    | none => (st, "bad-op")
  | ["rt.sanitise"] =>
    let (r, t') := register_sanitise cb t
    ({ t := t' }, s!"{accStr r} {stateStr t'}")
  | ["rt.foreach", addr, off, script] =>
    match parseNat addr, off.toNat?, parseScript script with
    | some a, some o, some sc =>
      let (r, hs) := register_foreach_in t a o sc
      (st, s!"{accStr r} visited={if hs.isEmpty then "-" else ",".intercalate (hs.map toString)}")
    | _, _, _ => (st, "bad-op")
  | ["rt.poke", area, off, atoms] =>
    match area.toNat?, off.toNat?, parseAtoms atoms with
    | some ai, some o, some d =>
      match t.areas[ai]? with
      | some a =>
        if o + d.length ≤ a.mem.length then
          let a' := { a with mem := a.mem.take o ++ (d ++ a.mem.drop (o + d.length)) }
          ({ t := { t with areas := t.areas.set ai a' } }, "ok")
        else (st, "bad-op")
      | none => (st, "bad-op")
    | _, _, _ => (st, "bad-op")
  | _ => (st, "bad-op")

end Driver.RegTable

def main : IO Unit := Driver.loop ({} : Driver.RegTable.State) Driver.RegTable.stepLine
