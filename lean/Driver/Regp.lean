/-
Line-protocol driver for the register protocol (C06-C09).  Every result line is
`model view ## spec view`: the model view is computed by Ufw.Model.Regp (the definitions
the theorems are about), the spec view by Ufw.Spec.Regp (written from doc/regp.txt).
-/
import Ufw.Model.Regp
import Ufw.Spec.Regp
import Driver.Loop

open Ufw

namespace Driver.Regp
open Ufw.Model.Regp
open Ufw.Model.Slip (SrcEv Snk)

structure State where
  p  : Inst := { cfg := { mem16 := true, serial := true, B := 128, F := 64 } }
  mf : MaybeFrame := {}
  beStatus : Nat := 0
  beAddr : Nat := 0
  beSeed : Nat := 0
  ready : Bool := false
  pending : List (List Octet) := []      -- emitted and not yet looped back, newest first (the sink's `got` is emptied after every operation)

def pattern (seed n : Nat) : List Octet := (List.range n).map fun i => BitVec.ofNat 8 (seed + 7 * i)

def rcStr : Option Err → String
  | none => "ok"
  | some e => e.name

def errStr : Option Err → String
  | none => "0"
  | some e => e.name

def hdrStr (h : Hdr) (pl : List Octet) : String :=
  s!"t={h.type},o={h.opts},m={h.mcode},s={h.seq},a={h.addr},n={h.bsize},hc={h.hdcrc},pc={h.plcrc},pl={hexOf pl}"

def frameStr (mf : MaybeFrame) : String :=
  match mf.frame with
  | none => "null"
  | some b =>
    match b.hdr with
    | some (h, off) => hdrStr h (b.raw.drop (2 * off))
    | none => "raw"

def callStr (c : Call) : String :=
  let k := (if c.write then "w" else "r") ++ (if c.sem16 then "16" else "8")
  let unit := if c.sem16 then 2 else 1
  s!"{k}@{c.addr}+{c.bsize}/{c.room}" ++ (if c.write then ":" ++ hexOf (c.payload.take (c.bsize * unit)) else "")

def callsStr (l : List Call) : String := if l.isEmpty then "-" else ",".intercalate (l.map callStr)

/-! ### spec side -/

open Ufw.Spec.Regp in
def specFrameStr (f : Frame) : String :=
  s!"t={f.type.code},o={f.options},m={f.code},s={f.seq},a={f.addr},n={f.size},pl={hexOf f.payload}"

/-- next frame of an error-free stream according to the transport rules of the document:
    `none` = the channel cannot deliver a frame (invalid escape, missing octets, source error) -/
def specDeframe (serial : Bool) (src : List SrcEv) : Option (List Octet) :=
  let octs := src.takeWhile (fun e => match e with | .octet _ => true | _ => false)
  let os := octs.filterMap (fun e => match e with | .octet o => some o | _ => none)
  if serial then
    let seg := os.takeWhile (· ≠ Ufw.Spec.Slip.END)
    if seg.length = os.length then none          -- no delimiter before the stream ends or fails
    else Ufw.Spec.Slip.unstuff seg
  else
    let digits := os.takeWhile (fun o => o.toNat ≥ 128)
    if digits.length ≥ os.length then none else
    if digits.length ≥ 10 then none else
    let pre := os.take (digits.length + 1)
    let len := Ufw.Spec.Leb128.valueOf pre % 2 ^ 64
    let body := os.drop pre.length
    if body.length < len then none else some (body.take len)

open Ufw.Spec.Regp in
/-- header-only reading used for the early replies: a frame whose first sixteen octets read as
    a request header -/
def specHeaderOf (raw : List Octet) : Option (Option Frame) × Verdict :=
  let v := classify (raw.take 16)
  match v with
  | .accept f | .badPayloadSize f | .badPayloadChecksum f => (some (some f), v)
  | _ => (none, v)

open Ufw.Spec.Regp in
def specRecv (st : State) : Option String :=
  let c := st.p.cfg
  match specDeframe c.serial st.p.src with
  | none => none
  | some raw =>
    let allocFails := st.p.al.script.head?.getD false
    let earlyReply (code : Nat) : List Octet :=
      match classify (raw.take 16) with
      | .accept f | .badPayloadSize f | .badPayloadChecksum f =>
        if f.type.isRequest then wire c.serial (errorResponse f code (c.B - c.F)) else []
      | .badHeaderEncoding => wire c.serial (metaFrame 1)
      | .badHeaderChecksum => wire c.serial (metaFrame 2)
    let (v, fr, reply, live) : String × String × List Octet × Nat :=
      if raw.isEmpty then ("enc", "null", wire c.serial (metaFrame 1), st.p.al.live)
      else if allocFails then ("busy", "null", earlyReply 6, st.p.al.live)
      else if raw.length > c.B - c.F then ("overflow", "raw", earlyReply 4, st.p.al.live + 1)
      else match classify raw with
        | .accept f => ("accept", specFrameStr f, [], st.p.al.live + 1)
        | .badHeaderEncoding => ("enc", "raw", wire c.serial (metaFrame 1), st.p.al.live + 1)
        | .badHeaderChecksum => ("hcrc", "raw", wire c.serial (metaFrame 2), st.p.al.live + 1)
        | .badPayloadSize f => ("size", specFrameStr f, [], st.p.al.live + 1)
        | .badPayloadChecksum f => ("pcrc", specFrameStr f, [], st.p.al.live + 1)
    if st.p.snk.room < reply.length then none
    else some s!"v={v} frame={fr} live={live} reply={hexOf reply}"

open Ufw.Spec.Regp in
def specProcess (st : State) : Option String :=
  let c := st.p.cfg
  match st.mf.frame, st.mf.err with
  | none, _ => some "calls=- reply=-"
  | some _, some .ebadmsg | some _, some .eilseq | some _, some .enomem => some "calls=- reply=-"
  | some b, _ =>
    let unit := if c.mem16 then 2 else 1
    let answer (calls : String) (f : Option Frame) : Option String :=
      let w := match f with | some f => wire c.serial f | none => []
      if st.p.snk.room < w.length then none else some s!"calls={calls} reply={hexOf w}"
    match classify b.raw with
    | .badPayloadSize f => answer "-" (if f.type.isRequest then some (errorResponse f 3 0) else none)
    | .badPayloadChecksum f => answer "-" (if f.type.isRequest then some (errorResponse f 2 0) else none)
    | .accept f =>
      if !f.type.isRequest then answer "-" none
      else if f.ws16 ≠ c.mem16 then answer "-" (some (errorResponse f 1 0))
      else
        let k := (if f.type = .writeRequest then "w" else "r") ++ (if c.mem16 then "16" else "8")
        let hlen := 12 + (if f.hdcrc then 2 else 0) + (if f.plcrc then 2 else 0)
        let room := c.B - (c.F + hlen)
        let value (code : Nat) : Nat := if code = 4 ∨ code = 5 then (c.B - c.F) else st.beAddr
        if f.type = .readRequest then
          if room < f.size * unit then answer "-" (some (errorResponse f 5 (c.B - c.F)))
          else
            let call := s!"{k}@{f.addr}+{f.size}/{room}"
            if st.beStatus = 0 then answer call (some (ackResponse f c.mem16 (pattern st.beSeed (f.size * unit))))
            else if st.beStatus ≤ 11 then answer call (some (errorResponse f st.beStatus (value st.beStatus)))
            else answer call none
        else
          let call := s!"{k}@{f.addr}+{f.size}/{room}:{hexOf f.payload}"
          if st.beStatus = 0 then answer call (some (ackResponse f c.mem16 []))
          else if st.beStatus ≤ 11 then answer call (some (errorResponse f st.beStatus (value st.beStatus)))
          else answer call none
    | _ => none

/-! ### operations -/

def parseEvents : List String → Option (List SrcEv)
  | [] => some []
  | t :: ts => do
    let rest ← parseEvents ts
    if t.startsWith "!" then
      let e ← Err.ofName (t.drop 1).toString
      pure (SrcEv.err e :: rest)
    else
      let d ← parseHex t
      pure (d.map SrcEv.octet ++ rest)

def verdictStr (rc : Option Err) (mf : MaybeFrame) : String :=
  match mf.err with
  | none => if rc.isSome ∧ mf.frame.isNone then "chan" else "accept"
  | some .ebadmsg => "enc"
  | some .eilseq => "hcrc"
  | some .efault => "size"
  | some .eproto => "pcrc"
  | some .ebusy => "busy"
  | some .enomem => "overflow"
  | some e => e.name

def respCode (name : String) : Option (Nat × Bool) :=
  match name with
  | "ewordsize" => some (1, false) | "epayloadcrc" => some (2, false) | "epayloadsize" => some (3, false)
  | "erxoverflow" => some (4, true) | "etxoverflow" => some (5, true) | "ebusy" => some (6, false)
  | "eunmapped" => some (7, true) | "eaccess" => some (8, true) | "erange" => some (9, true)
  | "einvalid" => some (10, true) | "eio" => some (11, false)
  | _ => none

/-- model view of a modelled frame for the spec-view text (accept/size/pcrc cases print fields) -/
def modelSpecFrame (mf : MaybeFrame) : String :=
  match mf.frame with
  | none => "null"
  | some b =>
    match b.hdr with
    | some (h, off) => s!"t={h.type},o={h.opts},m={h.mcode},s={h.seq},a={h.addr},n={h.bsize},pl={hexOf (b.raw.drop (2 * off))}"
    | none => "raw"

open Ufw.Spec.Regp in
def specReq (c : Cfg) (write sem16 : Bool) (seq addr n : Nat) (pl : List Octet) : List Octet :=
  wire c.serial (request write sem16 seq addr (n % 2 ^ 32) pl)

def emitLine (st : State) (s : Sent) (seq : Option Nat) (specWire : Option (List Octet)) (specSeq : Option Nat) :
    State × String :=
  let out := s.snk.got
  let seqS := match seq with | some q => s!" seq={q}" | none => ""
  let mv := s!"rc={rcStr s.rc}{seqS} wire={hexOf out}"
  let sv := match specWire with
    | some w =>
      if st.p.snk.room < w.length then mv
      else
        let sq := match specSeq with | some q => s!" seq={q}" | none => ""
        s!"rc=ok{sq} wire={hexOf w}"
    | none => mv
  ({ st with p := { st.p with snk := { s.snk with got := [] }, seq := seq.getD st.p.seq }, pending := out :: st.pending },
   s!"{mv} ## {sv}")

/-- `rp.recv`; with `damaged = some tag` the frame is announced as a damaged copy of a valid frame
    (C07): the property-level view then demands that it is not accepted -/
def doRecv (st : State) (damaged : Option String) : State × String :=
  if st.mf.frame.isSome then (st, "bad-op") else     -- the previous frame must be released first
  let (rc, mf, p') := regp_recv st.p
  let reply := p'.snk.got
  let mv := s!"rc={rcStr rc} err={errStr mf.err} fsz={mf.framesize} frame={frameStr mf} live={p'.al.live} reply={hexOf reply}"
  let own := s!"v={verdictStr rc mf} frame={modelSpecFrame mf} live={p'.al.live} reply={hexOf reply}"
  let sv := match specRecv st with
    | some s => s
    | none => own
  let sv := match damaged with
    | some tag => if sv.startsWith "v=accept " then s!"v=MUST-REJECT({tag}) " ++ (sv.drop 9).toString else sv
    | none => sv
  ({ st with p := { p' with snk := { p'.snk with got := [] } }, mf := mf, pending := reply :: st.pending }, s!"{mv} ## {sv}")

def stepLine (st : State) (toks : List String) : State × String :=
  match toks with
  | ["rp.cfg", mem, ep, b, f] =>
    match b.toNat?, f.toNat? with
    | some b, some f =>
      if (mem ≠ "8" ∧ mem ≠ "16") ∨ (ep ≠ "serial" ∧ ep ≠ "tcp") ∨ b = 0 then (st, "bad-op") else
      ({ p := { cfg := { mem16 := mem == "16", serial := ep == "serial", B := b, F := f },
                snk := { room := 1000000 } }, ready := true }, s!"ok F={f}")
    | _, _ => (st, "bad-op")
  | _ =>
  if !st.ready then (st, "bad-op") else
  let c := st.p.cfg
  match toks with
  | ["rp.alloc", script] =>
    let l := if script == "-" then [] else script.toList.map (· == 'f')
    ({ st with p := { st.p with al := { st.p.al with script := l } } }, "ok")
  | ["rp.sinkbusy", _k, _e] =>
    -- over TCP every octet goes out through the retrying chunk put: a sink that is busy once is invisible on the wire
    (st, "ok")
  | ["rp.sinkmode", m] =>
    -- the style of the sink driver (octet / chunk:k) is invisible on the wire
    if m == "octet" || (m.startsWith "chunk:" && ((m.drop 6).toString.toNat?).isSome) then (st, "ok") else (st, "bad-op")
  | ["rp.sink", room, full] =>
    match (if room == "inf" then some 1000000 else room.toNat?), Err.ofName full with
    | some r, some e => ({ st with p := { st.p with snk := { st.p.snk with room := r, full := e } } }, "ok")
    | _, _ => (st, "bad-op")
  | "rp.src" :: evs =>
    match parseEvents evs with
    | some l => ({ st with p := { st.p with src := st.p.src ++ l } }, "ok")
    | none => (st, "bad-op")
  | ["rp.loopback"] =>
    let got := st.pending.reverse.flatten
    ({ st with p := { st.p with src := st.p.src ++ got.map SrcEv.octet }, pending := [] },
     s!"ok n={got.length}")
  | ["rp.seq", n] =>
    match n.toNat? with
    | some n => ({ st with p := { st.p with seq := n % 65536 } }, "ok")
    | none => (st, "bad-op")
  | ["rp.backend", status, addr, seed] =>
    match status.toNat?, parseNat addr, seed.toNat? with
    | some s, some a, some sd => ({ st with beStatus := s, beAddr := a % 2 ^ 32, beSeed := sd }, "ok")
    | _, _, _ => (st, "bad-op")
  | ["rp.recv"] => doRecv st none
  | ["rp.recvx", tag, hex] =>
    -- feed a damaged copy of a valid frame (already in its transport envelope) and receive it: one
    -- operation, so that the tag naming the damage cannot be separated from the octets
    match parseHex hex with
    | some d => doRecv { st with p := { st.p with src := st.p.src ++ d.map SrcEv.octet } } (some tag)
    | none => (st, "bad-op")
  | ["rp.process"] =>
    let be : Backend := { status := st.beStatus, address := st.beAddr, data := pattern st.beSeed }
    let (s, calls) := regp_process c st.p.snk st.mf be
    let reply := s.snk.got
    let mv := s!"rc={rcStr s.rc} calls={callsStr calls} reply={hexOf reply}"
    let own := s!"calls={callsStr calls} reply={hexOf reply}"
    let sv := match specProcess st with
      | some x => x
      | none => own
    ({ st with p := { st.p with snk := { s.snk with got := [] } }, pending := reply :: st.pending }, s!"{mv} ## {sv}")
  | ["rp.free"] =>
    let (p', mf') := regp_free st.p st.mf
    ({ st with p := p', mf := mf' }, s!"live={p'.al.live}")
  | ["rp.req", kind, addr, n] =>
    match parseNat addr, parseNat n with
    | some a, some n =>
      if kind ≠ "r8" ∧ kind ≠ "r16" then (st, "bad-op") else
      let (s, q) := regp_req_read c st.p.snk st.p.seq (kind == "r16") (a % 2 ^ 32) n
      emitLine st s (some q) (some (specReq c false (kind == "r16") st.p.seq (a % 2 ^ 32) n [])) (some ((st.p.seq + 1) % 65536))
    | _, _ => (st, "bad-op")
  | ["rp.req", kind, addr, n, hex] =>
    match parseNat addr, parseNat n, parseHex hex with
    | some a, some n, some d =>
      if kind ≠ "w8" ∧ kind ≠ "w16" then (st, "bad-op") else
      if d.length ≠ n * (if kind == "w16" then 2 else 1) then (st, "bad-op") else
      let (s, q) := regp_req_write c st.p.snk st.p.seq (kind == "w16") (a % 2 ^ 32) n d
      emitLine st s (some q) (some (specReq c true (kind == "w16") st.p.seq (a % 2 ^ 32) n d)) (some ((st.p.seq + 1) % 65536))
    | _, _, _ => (st, "bad-op")
  | "rp.resp" :: name :: ftype :: seq :: addr :: rest =>
    match respCode name, ftype.toNat?, seq.toNat?, parseNat addr with
    | some (code, hasValue), some ft, some sq, some a =>
      let h : Hdr := { type := ft, opts := 0, mcode := 0, seq := sq % 65536, addr := a % 2 ^ 32, bsize := 0, hdcrc := 0, plcrc := 0 }
      let value := match rest with | [v] => (parseNat v).getD 0 % 2 ^ 32 | _ => 0
      if hasValue ≠ (rest.length == 1) then (st, "bad-op") else
      let s := if hasValue then send_resp_32 c st.p.snk h code value .s8 else send_resp_0 c st.p.snk h code .s8
      let specW := match Ufw.Spec.Regp.MType.ofCode ft with
        | some t =>
          let req := Ufw.Spec.Regp.request (t == .writeRequest) false h.seq h.addr 0 []
          some (Ufw.Spec.Regp.wire c.serial (Ufw.Spec.Regp.errorResponse { req with type := t } code value))
        | none => none
      emitLine st s none specW none
    | _, _, _, _ => (st, "bad-op")
  | ["rp.ack", ftype, seq, addr, n, hex] =>
    match ftype.toNat?, seq.toNat?, parseNat addr, parseNat n with
    | some ft, some sq, some a, some n =>
      let h : Hdr := { type := ft, opts := 0, mcode := 0, seq := sq % 65536, addr := a % 2 ^ 32, bsize := 0, hdcrc := 0, plcrc := 0 }
      let unit := if c.mem16 then 2 else 1
      let pl : Option (Option (List Octet)) :=
        if hex == "null" then some none else (parseHex hex).map some
      match pl with
      | none => (st, "bad-op")
      | some pl =>
        if (match pl with | some d => decide (d.length ≠ n * unit) | none => false) then (st, "bad-op") else
        let s := regp_resp_ack c st.p.snk h pl n
        let specW := match Ufw.Spec.Regp.MType.ofCode ft, pl with
          | some t, some d =>
            let req := Ufw.Spec.Regp.request (t == .writeRequest) false h.seq h.addr 0 []
            some (Ufw.Spec.Regp.wire c.serial (Ufw.Spec.Regp.ackResponse { req with type := t } c.mem16 d))
          | some t, none =>
            if n = 0 then
              let req := Ufw.Spec.Regp.request (t == .writeRequest) false h.seq h.addr 0 []
              some (Ufw.Spec.Regp.wire c.serial (Ufw.Spec.Regp.ackResponse { req with type := t } c.mem16 []))
            else none
          | none, _ => none
        emitLine st s none specW none
    | _, _, _, _ => (st, "bad-op")
  | ["rp.meta", m] =>
    match m.toNat? with
    | some m =>
      let s := regp_resp_meta c st.p.snk m
      emitLine st s none (if m < 16 then some (Ufw.Spec.Regp.wire c.serial (Ufw.Spec.Regp.metaFrame m)) else none) none
    | none => (st, "bad-op")
  | _ => (st, "bad-op")

end Driver.Regp

def main : IO Unit := Driver.loop ({} : Driver.Regp.State) Driver.Regp.stepLine
