/-
Line-protocol driver for the stream group: SLIP (C12); endpoints (C17) and length
prefix (C13) are added to the same driver.
-/
import Ufw.Model.Slip
import Ufw.Spec.Slip
import Ufw.Model.Endpoints
import Ufw.Model.Lenp
import Ufw.Model.SlipEp
import Driver.Loop

open Ufw

namespace Driver.Streams
open Ufw.Model.Slip

def stStr : St → String
  | .searchStart => "start" | .searchEnd => "end" | .normal => "normal"

def stOf : String → Option St
  | "start" => some .searchStart | "end" => some .searchEnd | "normal" => some .normal | _ => none

def errTok (e : Err) : String := s!"ERR:{e.name}"

/-- source script: the octets, optionally an error injected before octet number `k` -/
def mkSrc (l : List Octet) (errAt : Option (Nat × Err)) : List SrcEv :=
  match errAt with
  | none => l.map .octet
  | some (k, e) => (l.take k).map .octet ++ [.err e] ++ (l.drop k).map .octet

def countOctets (l : List SrcEv) : Nat := (l.filter fun | .octet _ => true | _ => false).length

/-- classic-mode reading of RFC 1055: cut at END, unstuff each piece -/
def hasBadEscape : List Octet → Bool
  | a :: b :: rest =>
    if a = Ufw.Spec.Slip.ESC then
      if b = Ufw.Spec.Slip.ESC_END ∨ b = Ufw.Spec.Slip.ESC_ESC then hasBadEscape rest else true
    else hasBadEscape (b :: rest)
  | _ => false

def classicEvents (input : List Octet) : List String :=
  let rec go (cur : List Octet) : List Octet → List String
    | [] => if hasBadEscape cur.reverse then ["I"] else []     -- an invalid escape is reported at once
    | o :: rest =>
      if o = Ufw.Spec.Slip.END then
        (match Ufw.Spec.Slip.unstuff cur.reverse with
         | some p => s!"F:{hexOf p}"
         | none => "I") :: go [] rest
      else go (o :: cur) rest
  go [] input

def evStr (full : Bool) : Event → String
  | .frame p => s!"F:{hexOf p}"
  | .illegal p => if full then s!"I:{hexOf p}" else "I"

def parseErrAt (k e : String) : Option (Option (Nat × Err)) :=
  if k == "-" then some none else
  match k.toNat?, Err.ofName e with
  | some k, some e => some (some (k, e))
  | _, _ => none

def slipLine (toks : List String) : String :=
  match toks with
  | ["slip.enc", sof, hex, room, ek, ee] =>
    match parseHex hex, room.toNat?, parseErrAt ek ee with
    | some p, some room, some errAt =>
      let sof := sof == "1"
      let r := rfc1055_encode sof (mkSrc p errAt) { room := room }
      let rc := match r.ret with | none => "ok:0" | some e => errTok e
      -- spec view: with enough room and no source error the sink holds the RFC 1055 frame
      let spec := if errAt.isNone && (Ufw.Spec.Slip.frame sof p).length ≤ room
        then s!"ok:0 out={hexOf (Ufw.Spec.Slip.frame sof p)}" else s!"{rc} out={hexOf r.snk.got}"
      s!"{rc} out={hexOf r.snk.got} ## {spec}"
    | _, _, _ => "bad-op"
  | ["slip.dec", sof, st, hex, room, ek, ee] =>
    match stOf st, parseHex hex, room.toNat?, parseErrAt ek ee with
    | some st, some inp, some room, some errAt =>
      let sof := sof == "1"
      let src := mkSrc inp errAt
      let r := rfc1055_decode sof st src { room := room }
      let rc := match r.ret with | .frame => "ok:1" | .error e => errTok e
      s!"{rc} st={stStr r.st} consumed={inp.length - countOctets r.rest} out={hexOf r.snk.got}"
    | _, _, _, _ => "bad-op"
  | ["slip.stream", sof, st, hex] =>
    match stOf st, parseHex hex with
    | some st, some inp =>
      let sof := sof == "1"
      let (evs, (fst, _, pending)) := run sof st false [] inp
      let model := " ".intercalate (evs.map (evStr true)) ++ s!" | st={stStr fst} pending={hexOf pending}"
      let spec :=
        if !sof && st == .normal then " ".intercalate (classicEvents inp)
        else " ".intercalate (evs.map (evStr false))
      s!"{model} ## {spec}"
    | _, _ => "bad-op"
  | ["slip.rt", sof, hex, trail] =>
    match parseHex hex, parseHex trail with
    | some p, some tr =>
      let sof := sof == "1"
      let e := (rfc1055_encode sof (mkSrc p none) { room := 2 * p.length + 2 }).snk.got
      let r := rfc1055_decode sof (rfc1055_context_init sof) (mkSrc (e ++ tr) none) { room := p.length + tr.length }
      let rc := match r.ret with | .frame => "ok:1" | .error e => errTok e
      s!"enc={hexOf e} {rc} st={stStr r.st} consumed={(e ++ tr).length - countOctets r.rest} out={hexOf r.snk.got} ## " ++
      s!"enc={hexOf (Ufw.Spec.Slip.frame sof p)} ok:1 st={stStr (rfc1055_context_init sof)} consumed={(Ufw.Spec.Slip.frame sof p).length} out={hexOf p}"
    | _, _ => "bad-op"
  | ["slip.frames", sof, st, garbage, plist] =>
    match stOf st, parseHex garbage, (plist.splitOn ",").mapM parseHex with
    | some st, some g, some ps =>
      let sof := sof == "1"
      let input := g ++ ps.flatMap (enc sof)
      let (evs, (fst, _, _)) := run sof st false [] input
      -- spec: classic - every frame after the garbage (which ends with END) is delivered; with start
      -- delimiter - every frame after the first one (non-empty) is delivered; decoder ready afterwards
      let expect := if sof then ps.drop 1 else ps
      let tail := evs.drop (evs.length - expect.length)
      s!"tail={" ".intercalate (tail.map (evStr true))} st={stStr fst} ## tail={" ".intercalate (expect.map fun p => s!"F:{hexOf p}")} st={stStr (rfc1055_context_init sof)}"
    | _, _, _ => "bad-op"
  | _ => "bad-op"

/-! ### endpoints (C17) -/

namespace EP
open Ufw.Model.Endpoints

def parseStep (t : String) : Option Step :=
  if t == "z" then some .zero
  else if t == "i" then some .eintr
  else if t == "a" then some .eagain
  else if t.startsWith "k" then (t.drop 1).toString.toNat?.map .xfer
  else if t.startsWith "h:" then (Err.ofName (t.drop 2).toString).map .hard
  else none

def parseScript (s : String) : Option (List Step) :=
  if s == "-" then some [] else (s.splitOn ",").mapM parseStep

def parseKind : String → Option Kind
  | "o" => some .octet | "c" => some .chunk
  -- "b" / "b:<cap>": the library's buffer-backed endpoints; a chunk driver whose behaviour the operation's script spells out
  | k => if k == "b" || k.startsWith "b:" then some .chunk else none

def rStr (strict : Bool) : R → String
  | .ok n => s!"ok:{n}"
  | .err e => (if strict then "ERR:" else "err:") ++ e.name
  | .diverge => "diverge"

/-- errors a driver script can raise are returned unchanged (strict); EINVAL/ENODATA too -/
def fuelFor (script : List Step) (n : Nat) : Nat := 2 * (script.length + n) + 4

def line (toks : List String) : String :=
  match toks with
  | ["ep.get", kind, stream, script, n] | ["ep.getmost", kind, stream, script, n] =>
    match parseKind kind, parseHex stream, parseScript script, n.toNat? with
    | some k, some st, some sc, some n =>
      let src : Src := { kind := k, stream := st, script := sc }
      let fuel := fuelFor sc n
      let most := toks.head! == "ep.getmost"
      let (r, d, s') := if most then source_get_chunk_atmost fuel src n else source_get_chunk fuel src n
      let consumed := st.length - s'.stream.length
      let dataOk := match r with | .ok m => hexOf (d.take m) | _ => "-"
      let spec := match r with
        | .ok m => s!"ok:{m} data={hexOf (st.take m)}"
        | r => s!"{rStr true r} data=-"
      s!"{rStr true r} data={dataOk} consumed={consumed} ## {spec}"
    | _, _, _, _ => "bad-op"
  | ["ep.put", kind, script, data] | ["ep.putmost", kind, script, data] =>
    match parseKind kind, parseScript script, parseHex data with
    | some k, some sc, some d =>
      let snk : Ufw.Model.Endpoints.Snk := { kind := k, script := sc }
      let fuel := fuelFor sc d.length
      let most := toks.head! == "ep.putmost"
      let (r, s') := if most then sink_put_chunk_atmost fuel snk d else sink_put_chunk fuel snk d
      let spec := match r with
        | .ok m => s!"ok:{m} got={hexOf (d.take m)}"
        | r => s!"{rStr true r} prefix={decide (s'.got.isPrefixOf d)}"
      let view := match r with
        | .ok _ => s!"{rStr true r} got={hexOf s'.got}"
        | r => s!"{rStr true r} prefix={decide (s'.got.isPrefixOf d)}"
      s!"{view} gotraw={hexOf s'.got} ## {spec}"
    | _, _, _ => "bad-op"
  | ["ep.big", what, kind] =>
    match parseKind kind with
    | some k =>
      let n := 2 ^ 63
      if what == "get" then
        let (r, _, s') := source_get_chunk 8 { kind := k, stream := [1#8, 2#8], script := [] } n
        s!"{rStr true r} calls={s'.calls}"
      else
        -- a put of more than SSIZE_MAX octets is refused before the driver is called
        s!"ERR:einval calls=0"
    | none => "bad-op"
  | ["ep.huge", _what, first, n] =>
    -- counts beyond 32 bits (a spec-level line: the streams are too long to be lists): by get_chunk_exact /
    -- put_chunk_exact a driver that moves `first` octets and then the rest makes the call return N after
    -- two driver calls, each handed the position reached so far
    match first.toNat?, n.toNat? with
    | some f, some n =>
      if n = 0 ∨ n > SSIZE_MAX then "ERR:einval total=0 calls=0 placed=true"
      else s!"ok:{n} total={n} calls={if 0 < f ∧ f < n then 2 else 1} placed=true"
    | _, _ => "bad-op"
  | ["sts", fn, skind, stream, sscript, kkind, kscript, n, asize, aused, aoff] =>
    match parseKind skind, parseHex stream, parseScript sscript, parseKind kkind, parseScript kscript,
          n.toNat?, asize.toNat?, aused.toNat?, aoff.toNat? with
    | some sk, some st, some ssc, some kk, some ksc, some n, some asize, some aused, some aoff =>
      let src : Src := { kind := sk, stream := st, script := ssc }
      let snk : Ufw.Model.Endpoints.Snk := { kind := kk, script := ksc }
      let aux : Aux := { mem := List.replicate asize 0xee#8, used := aused, offset := aoff }
      let fuel := 2 * (ssc.length + ksc.length + st.length + n) + 8
      let res : Option (R × Src × Ufw.Model.Endpoints.Snk × Aux) :=
        match fn with
        | "cbc" => let (r, a, b) := sts_cbc src snk; some (r, a, b, aux)
        -- without the buffer extension (no endpoint of the library has it) `sts_atmost` / `sts_some` move one octet
        | "atmost" | "some" => let (r, a, b) := sts_cbc src snk; some (r, a, b, aux)
        | "n_cbc" => let (r, a, b) := sts_n_cbc fuel n src snk n; some (r, a, b, aux)
        | "drain_cbc" => let (r, a, b) := sts_drain_cbc fuel src snk; some (r, a, b, aux)
        | "n" => let (r, a, b) := sts_n fuel src snk n n; some (r, a, b, aux)
        | "drain" => let (r, a, b) := sts_drain fuel src snk; some (r, a, b, aux)
        | "some_aux" => some (sts_some_aux fuel src snk aux (aux.used - aux.offset))
        | "atmost_aux" => some (sts_atmost_aux fuel src snk aux n)
        | "n_aux" => some (sts_n_aux fuel src snk aux n n)
        | "drain_aux" => some (sts_drain_aux fuel src snk aux asize)
        | _ => none
      match res with
      | none => "bad-op"
      | some (r, src', snk', aux') =>
        let consumed := st.length - src'.stream.length
        -- designated region of the auxiliary buffer: [0, used-offset) once rewound, else [offset, used)
        let outside := (List.range asize).all fun i =>
          (aux.offset ≤ i ∧ i < aux.used) ∨ (i < aux.used - aux.offset ∧ (fn == "n_aux" ∨ fn == "drain_aux")) ∨
            aux'.mem[i]? == some 0xee#8
        let pre := decide (snk'.got.isPrefixOf st)
        s!"{rStr true r} got={hexOf snk'.got} consumed={consumed} ## {rStr true r} prefix={pre} auxclean={outside}"
    | _, _, _, _, _, _, _, _, _ => "bad-op"
  | _ => "bad-op"

end EP

/-! ### length prefix (C13) -/

namespace LP
open Ufw.Model.Endpoints Ufw.Model.Lenp
open Ufw.Model.ByteBuffer (ByteBuffer)

def kindOf : String → Option Nat
  | "var" => some 0 | "octet" => some 1 | "le16" => some 2 | "le32" => some 3 | "be16" => some 4 | "be32" => some 5
  | _ => none

/-- independent reading of the property: the prefix of each kind -/
def specPrefix (k : Nat) (n : Nat) : Option (List Octet) :=
  let be (w : Nat) : List Octet := (List.range w).reverse.map fun i => BitVec.ofNat 8 (n / 256 ^ i)
  let le (w : Nat) : List Octet := (List.range w).map fun i => BitVec.ofNat 8 (n / 256 ^ i)
  let rec leb (fuel n : Nat) : List Octet :=
    match fuel with
    | 0 => []
    | f + 1 => if n < 128 then [BitVec.ofNat 8 n] else BitVec.ofNat 8 (n % 128 + 128) :: leb f (n / 128)
  match k with
  | 0 => if n < 2 ^ 63 then some (leb 10 n) else none
  | 1 => if n ≤ 255 then some (le 1) else none
  | 2 => if n ≤ 65535 then some (le 2) else none
  | 3 => if n ≤ 4294967295 then some (le 4) else none
  | 4 => if n ≤ 65535 then some (be 2) else none
  | 5 => if n ≤ 4294967295 then some (be 4) else none
  | _ => none

def parseBuf (s : String) : Option ByteBuffer :=
  match s.splitOn ":" with
  | [mem, used, off] =>
    match parseHex mem, used.toNat?, off.toNat? with
    | some m, some u, some o => some { mem := m, size := m.length, used := u, offset := o }
    | _, _, _ => none
  | _ => none

def rS := EP.rStr true

def exStr : Except Err Encoded → String
  | .ok e => s!"ok:0 prefix={hexOf e.pre} plen={e.payloadLen}"
  | .error e => s!"ERR:{e.name}"

def bufStr (b : ByteBuffer) : String := s!"used={b.used} off={b.offset} mem={hexOf (b.mem.take b.used)}"

def line (toks : List String) : String :=
  match toks with
  | ["lenp.memenc", k, n] =>
    match kindOf k, n.toNat? with
    | some k, some n =>
      let spec := match specPrefix k n with
        | some p => if n = 0 then "ERR:einval" else s!"ok:0 prefix={hexOf p} plen={n}"
        | none => "ERR:einval"
      s!"{exStr (flenp_memory_encode k n)} ## {spec}"
    | _, _ => "bad-op"
  | ["lenp.bufenc", k, buf] =>
    match kindOf k, parseBuf buf with
    | some k, some b => exStr (flenp_buffer_encode k b)
    | _, _ => "bad-op"
  | ["lenp.bufenc_n", k, buf, n] =>
    match kindOf k, parseBuf buf, n.toNat? with
    | some k, some b, some n =>
      let (r, b') := flenp_buffer_encode_n k b n
      s!"{exStr r} {bufStr b'}"
    | _, _, _ => "bad-op"
  | ["lenp.chunksuse", k, chunks, active] =>
    match kindOf k, (chunks.splitOn "|").mapM parseBuf, active.toNat? with
    | some k, some cs, some a =>
      (match flenp_chunks_use k cs a with
       | .ok p => s!"ok:0 prefix={hexOf p}"
       | .error e => s!"ERR:{e.name}")
    | _, _, _ => "bad-op"
  | ["lenp.mem2sink", k, payload, kk, ksc] =>
    match kindOf k, parseHex payload, EP.parseKind kk, EP.parseScript ksc with
    | some k, some p, some kk, some ksc =>
      let fuel := 2 * (ksc.length + p.length) + 40
      let (r, s') := flenp_memory_to_sink fuel k { kind := kk, script := ksc } p
      let spec := match r, specPrefix k p.length with
        | .ok _, some pre => s!"ok:{pre.length + p.length} got={hexOf (pre ++ p)}"
        | _, _ => s!"{rS r} got={hexOf s'.got}"
      s!"{rS r} got={hexOf s'.got} ## {spec}"
    | _, _, _, _ => "bad-op"
  | ["lenp.big2sink", k, n, kk] =>
    -- a payload length beyond the kind's maximum is refused before anything is emitted
    match kindOf k, n.toNat?, EP.parseKind kk with
    | some k, some n, some _ =>
      (match encode_prefix k n with
       | .error e => s!"ERR:{e.name} got=-"
       | .ok _ => "bad-op")
    | _, _, _ => "bad-op"
  | ["lenp.buf2sink", k, buf, kk, ksc] =>
    match kindOf k, parseBuf buf, EP.parseKind kk, EP.parseScript ksc with
    | some k, some b, some kk, some ksc =>
      let fuel := 2 * (ksc.length + b.mem.length) + 40
      let (r, s') := flenp_buffer_to_sink fuel k { kind := kk, script := ksc } b
      let pl := unread b
      let spec := match r, specPrefix k pl.length with
        | .ok _, some pre => s!"ok:{pre.length + pl.length} got={hexOf (pre ++ pl)}"
        | _, _ => s!"{rS r} got={hexOf s'.got}"
      s!"{rS r} got={hexOf s'.got} ## {spec}"
    | _, _, _, _ => "bad-op"
  | ["lenp.buf2sink_n", k, buf, n, kk, ksc] =>
    match kindOf k, parseBuf buf, n.toNat?, EP.parseKind kk, EP.parseScript ksc with
    | some k, some b, some n, some kk, some ksc =>
      let fuel := 2 * (ksc.length + b.mem.length) + 40
      let (r, s', b') := flenp_buffer_to_sink_n fuel k { kind := kk, script := ksc } b n
      let pl := (unread b).take n
      let spec := match r, specPrefix k n with
        | .ok _, some pre => s!"ok:{pre.length + n} got={hexOf (pre ++ pl)} off={b.offset + n}"
        | _, _ => s!"{rS r} got={hexOf s'.got} off={b'.offset}"
      s!"{rS r} got={hexOf s'.got} off={b'.offset} ## {spec}"
    | _, _, _, _, _ => "bad-op"
  | ["lenp.chunks2sink", k, chunks, active, kk, ksc] =>
    match kindOf k, (chunks.splitOn "|").mapM parseBuf, active.toNat?, EP.parseKind kk, EP.parseScript ksc with
    | some k, some cs, some a, some kk, some ksc =>
      let total := (cs.map (·.mem.length)).sum
      let fuel := 2 * (ksc.length + total) + 40
      let (r, s') := flenp_chunks_to_sink fuel k { kind := kk, script := ksc } cs a
      let pl := (chunksRest cs a).flatten
      let spec := match r, specPrefix k pl.length with
        | .ok _, some pre => s!"ok:{pre.length + pl.length} got={hexOf (pre ++ pl)}"
        | _, _ => s!"{rS r} got={hexOf s'.got}"
      s!"{rS r} got={hexOf s'.got} ## {spec}"
    | _, _, _, _, _ => "bad-op"
  | ["lenp.mem_from", k, stream, sk, ssc, size] =>
    match kindOf k, parseHex stream, EP.parseKind sk, EP.parseScript ssc, size.toNat? with
    | some k, some st, some sk, some ssc, some size =>
      let fuel := 2 * (ssc.length + st.length) + 40
      let (r, d, s') := flenp_memory_from_source fuel k { kind := sk, stream := st, script := ssc } size
      let dat := match r with | .ok m => hexOf (d.take m) | _ => "-"
      s!"{rS r} data={dat} consumed={st.length - s'.stream.length}"
    | _, _, _, _, _ => "bad-op"
  | ["lenp.buf_from", k, stream, sk, ssc, buf] =>
    match kindOf k, parseHex stream, EP.parseKind sk, EP.parseScript ssc, parseBuf buf with
    | some k, some st, some sk, some ssc, some b =>
      let fuel := 2 * (ssc.length + st.length) + 40
      let (r, b', s') := flenp_buffer_from_source fuel k { kind := sk, stream := st, script := ssc } b
      s!"{rS r} {bufStr b'} consumed={st.length - s'.stream.length}"
    | _, _, _, _, _ => "bad-op"
  | ["lenp.s2s", k, stream, sk, ssc, kk, ksc] =>
    match kindOf k, parseHex stream, EP.parseKind sk, EP.parseScript ssc, EP.parseKind kk, EP.parseScript ksc with
    | some k, some st, some sk, some ssc, some kk, some ksc =>
      let fuel := 2 * (ssc.length + ksc.length + st.length) + 40
      let (r, s', n') := flenp_decode_source_to_sink fuel k { kind := sk, stream := st, script := ssc } { kind := kk, script := ksc }
      s!"{rS r} got={hexOf n'.got} consumed={st.length - s'.stream.length}"
    | _, _, _, _, _, _ => "bad-op"
  | ["lenp.frames", k, payloads, sk, ssc, cap] =>
    -- encode each payload with the library, concatenate, decode again frame by frame from a fragmenting source
    match kindOf k, (payloads.splitOn ",").mapM parseHex, EP.parseKind sk, EP.parseScript ssc, cap.toNat? with
    | some k, some ps, some sk, some ssc, some cap =>
      let wire := ps.flatMap fun p =>
        (flenp_memory_to_sink (2 * p.length + 40) k { kind := .chunk, script := [] } p).2.got
      let fuel := 2 * (ssc.length + wire.length) + 40
      let rec go (n : Nat) (src : Src) (acc : List String) : List String :=
        match n with
        | 0 => acc
        | n + 1 =>
          let (r, d, s') := flenp_memory_from_source fuel k src cap
          match r with
          | .ok m => go n s' (acc ++ [hexOf (d.take m)])
          | r => acc ++ [rS r]
      let out := go ps.length { kind := sk, stream := wire, script := ssc } []
      -- spec: with room for every payload and a source that only fragments, the frames come back in order
      let plain := ssc.all fun st => match st with | .xfer _ => true | _ => false
      let fits := ps.all fun p => p.length ≤ cap ∧ p.length ≥ 1
      let specFrames := if plain && fits then ",".intercalate (ps.map hexOf) else ",".intercalate out
      s!"wire={hexOf wire} frames={",".intercalate out} ## wire={hexOf (ps.flatMap fun p => (specPrefix k p.length).getD [] ++ p)} frames={specFrames}"
    | _, _, _, _, _ => "bad-op"
  | _ => "bad-op"

end LP

/-! ### SLIP encoder over scripted endpoint drivers (C12 on top of C17) -/
namespace SX
open Ufw.Model.Endpoints

def line (toks : List String) : String :=
  match toks with
  | ["slipx.enc", sof, skind, stream, sscript, kkind, kscript] =>
    match EP.parseKind skind, parseHex stream, EP.parseScript sscript, EP.parseKind kkind, EP.parseScript kscript with
    | some sk, some st, some ssc, some kk, some ksc =>
      let src : Src := { kind := sk, stream := st, script := ssc }
      let snk : Ufw.Model.Endpoints.Snk := { kind := kk, script := ksc }
      let fuel := 2 * (ksc.length + 4) + 4
      let (r, src', snk') := Ufw.Model.SlipEp.rfc1055_encode fuel (sof == "1") src snk
      let view := s!"{EP.rStr true r} out={hexOf snk'.got} consumed={st.length - src'.stream.length}"
      -- spec: drivers that only fragment their transfers (never 0, never an error) are invisible - the wire
      -- is the RFC 1055 frame of the stream; otherwise no independent opinion
      let plain (l : List Step) := l.all fun st => match st with | .xfer k => k ≥ 1 | _ => false
      let spec := if plain ssc && plain ksc then
          s!"ok:0 out={hexOf (Ufw.Spec.Slip.frame (sof == "1") st)} consumed={st.length}"
        else view
      s!"{view} ## {spec}"
    | _, _, _, _, _ => "bad-op"
  | _ => "bad-op"

end SX

def stepLine (_ : Unit) (toks : List String) : Unit × String :=
  ((), match toks with
  | t :: rest =>
    if t.startsWith "slipx." then SX.line (t :: rest)
    else if t.startsWith "slip." then slipLine (t :: rest)
    else if t.startsWith "ep." || t == "sts" then EP.line (t :: rest)
    else if t.startsWith "lenp." then LP.line (t :: rest)
    else "bad-op"
  | _ => "bad-op")

end Driver.Streams

def main : IO Unit := Driver.loop () Driver.Streams.stepLine
