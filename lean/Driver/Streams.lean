/-
Line-protocol driver for the stream group: SLIP (C12); endpoints (C17) and length
prefix (C13) are added to the same driver.
-/
import Ufw.Model.Slip
import Ufw.Spec.Slip
import Ufw.Model.Endpoints
import Driver.Loop

open Ufw

namespace Driver.Streams
open Ufw.Model.Slip

def stStr : St → String
  | .searchStart => "start" | .searchEnd => "end" | .normal => "normal"

def stOf : String → Option St
  | "start" => some .searchStart | "end" => some .searchEnd | "normal" => some .normal | _ => none

def errTok (e : Err) : String := s!"ERR:{e.name}"

/-- source script: the octets, optionally an error injected before octet number `k` -/
def mkSrc (l : List Octet) (errAt : Option (Nat × Err)) : List SrcEv :=
  match errAt with
  | none => l.map .octet
  | some (k, e) => (l.take k).map .octet ++ [.err e] ++ (l.drop k).map .octet

def countOctets (l : List SrcEv) : Nat := (l.filter fun | .octet _ => true | _ => false).length

/-- classic-mode reading of RFC 1055: cut at END, unstuff each piece -/
def hasBadEscape : List Octet → Bool
  | a :: b :: rest =>
    if a = Ufw.Spec.Slip.ESC then
      if b = Ufw.Spec.Slip.ESC_END ∨ b = Ufw.Spec.Slip.ESC_ESC then hasBadEscape rest else true
    else hasBadEscape (b :: rest)
  | _ => false

def classicEvents (input : List Octet) : List String :=
  let rec go (cur : List Octet) : List Octet → List String
    | [] => if hasBadEscape cur.reverse then ["I"] else []     -- an invalid escape is reported at once
    | o :: rest =>
      if o = Ufw.Spec.Slip.END then
        (match Ufw.Spec.Slip.unstuff cur.reverse with
         | some p => s!"F:{hexOf p}"
         | none => "I") :: go [] rest
      else go (o :: cur) rest
  go [] input

def evStr (full : Bool) : Event → String
  | .frame p => s!"F:{hexOf p}"
  | .illegal p => if full then s!"I:{hexOf p}" else "I"

def parseErrAt (k e : String) : Option (Option (Nat × Err)) :=
  if k == "-" then some none else
  match k.toNat?, Err.ofName e with
  | some k, some e => some (some (k, e))
  | _, _ => none

def slipLine (toks : List String) : String :=
  match toks with
  | ["slip.enc", sof, hex, room, ek, ee] =>
    match parseHex hex, room.toNat?, parseErrAt ek ee with
    | some p, some room, some errAt =>
      let sof := sof == "1"
      let r := rfc1055_encode sof (mkSrc p errAt) { room := room }
      let rc := match r.ret with | none => "ok:0" | some e => errTok e
      -- spec view: with enough room and no source error the sink holds the RFC 1055 frame
      let spec := if errAt.isNone && (Ufw.Spec.Slip.frame sof p).length ≤ room
        then s!"ok:0 out={hexOf (Ufw.Spec.Slip.frame sof p)}" else s!"{rc} out={hexOf r.snk.got}"
      s!"{rc} out={hexOf r.snk.got} ## {spec}"
    | _, _, _ => "bad-op"
  | ["slip.dec", sof, st, hex, room, ek, ee] =>
    match stOf st, parseHex hex, room.toNat?, parseErrAt ek ee with
    | some st, some inp, some room, some errAt =>
      let sof := sof == "1"
      let src := mkSrc inp errAt
      let r := rfc1055_decode sof st src { room := room }
      let rc := match r.ret with | .frame => "ok:1" | .error e => errTok e
      s!"{rc} st={stStr r.st} consumed={inp.length - countOctets r.rest} out={hexOf r.snk.got}"
    | _, _, _, _ => "bad-op"
  | ["slip.stream", sof, st, hex] =>
    match stOf st, parseHex hex with
    | some st, some inp =>
      let sof := sof == "1"
      let (evs, (fst, _, pending)) := run sof st false [] inp
      let model := " ".intercalate (evs.map (evStr true)) ++ s!" | st={stStr fst} pending={hexOf pending}"
      let spec :=
        if !sof && st == .normal then " ".intercalate (classicEvents inp)
        else " ".intercalate (evs.map (evStr false))
      s!"{model} ## {spec}"
    | _, _ => "bad-op"
  | ["slip.rt", sof, hex, trail] =>
    match parseHex hex, parseHex trail with
    | some p, some tr =>
      let sof := sof == "1"
      let e := (rfc1055_encode sof (mkSrc p none) { room := 2 * p.length + 2 }).snk.got
      let r := rfc1055_decode sof (rfc1055_context_init sof) (mkSrc (e ++ tr) none) { room := p.length + tr.length }
      let rc := match r.ret with | .frame => "ok:1" | .error e => errTok e
      s!"enc={hexOf e} {rc} st={stStr r.st} consumed={(e ++ tr).length - countOctets r.rest} out={hexOf r.snk.got} ## " ++
      s!"enc={hexOf (Ufw.Spec.Slip.frame sof p)} ok:1 st={stStr (rfc1055_context_init sof)} consumed={(Ufw.Spec.Slip.frame sof p).length} out={hexOf p}"
    | _, _ => "bad-op"
  | ["slip.frames", sof, st, garbage, plist] =>
    match stOf st, parseHex garbage, (plist.splitOn ",").mapM parseHex with
    | some st, some g, some ps =>
      let sof := sof == "1"
      let input := g ++ ps.flatMap (enc sof)
      let (evs, (fst, _, _)) := run sof st false [] input
      -- spec: classic - every frame after the garbage (which ends with END) is delivered; with start
      -- delimiter - every frame after the first one (non-empty) is delivered; decoder ready afterwards
      let expect := if sof then ps.drop 1 else ps
      let tail := evs.drop (evs.length - expect.length)
      s!"tail={" ".intercalate (tail.map (evStr true))} st={stStr fst} ## tail={" ".intercalate (expect.map fun p => s!"F:{hexOf p}")} st={stStr (rfc1055_context_init sof)}"
    | _, _, _ => "bad-op"
  | _ => "bad-op"

/-! ### endpoints (C17) -/

namespace EP
open Ufw.Model.Endpoints

def parseStep (t : String) : Option Step :=
  if t == "z" then some .zero
  else if t == "i" then some .eintr
  else if t == "a" then some .eagain
  else if t.startsWith "k" then (t.drop 1).toString.toNat?.map .xfer
  else if t.startsWith "h:" then (Err.ofName (t.drop 2).toString).map .hard
  else none

def parseScript (s : String) : Option (List Step) :=
  if s == "-" then some [] else (s.splitOn ",").mapM parseStep

def parseKind : String → Option Kind
  | "o" => some .octet | "c" => some .chunk | _ => none

def rStr (strict : Bool) : R → String
  | .ok n => s!"ok:{n}"
  | .err e => (if strict then "ERR:" else "err:") ++ e.name
  | .diverge => "diverge"

/-- errors a driver script can raise are returned unchanged (strict); EINVAL/ENODATA too -/
def fuelFor (script : List Step) (n : Nat) : Nat := 2 * (script.length + n) + 4

def line (toks : List String) : String :=
  match toks with
  | ["ep.get", kind, stream, script, n] | ["ep.getmost", kind, stream, script, n] =>
    match parseKind kind, parseHex stream, parseScript script, n.toNat? with
    | some k, some st, some sc, some n =>
      let src : Src := { kind := k, stream := st, script := sc }
      let fuel := fuelFor sc n
      let most := toks.head! == "ep.getmost"
      let (r, d, s') := if most then source_get_chunk_atmost fuel src n else source_get_chunk fuel src n
      let consumed := st.length - s'.stream.length
      let dataOk := match r with | .ok m => hexOf (d.take m) | _ => "-"
      let spec := match r with
        | .ok m => s!"ok:{m} data={hexOf (st.take m)}"
        | r => s!"{rStr true r} data=-"
      s!"{rStr true r} data={dataOk} consumed={consumed} ## {spec}"
    | _, _, _, _ => "bad-op"
  | ["ep.put", kind, script, data] | ["ep.putmost", kind, script, data] =>
    match parseKind kind, parseScript script, parseHex data with
    | some k, some sc, some d =>
      let snk : Ufw.Model.Endpoints.Snk := { kind := k, script := sc }
      let fuel := fuelFor sc d.length
      let most := toks.head! == "ep.putmost"
      let (r, s') := if most then sink_put_chunk_atmost fuel snk d else sink_put_chunk fuel snk d
      let spec := match r with
        | .ok m => s!"ok:{m} got={hexOf (d.take m)}"
        | r => s!"{rStr true r} prefix={decide (s'.got.isPrefixOf d)}"
      let view := match r with
        | .ok _ => s!"{rStr true r} got={hexOf s'.got}"
        | r => s!"{rStr true r} prefix={decide (s'.got.isPrefixOf d)}"
      s!"{view} gotraw={hexOf s'.got} ## {spec}"
    | _, _, _ => "bad-op"
  | ["ep.big", what, kind] =>
    match parseKind kind with
    | some k =>
      let n := 2 ^ 63
      if what == "get" then
        let (r, _, s') := source_get_chunk 8 { kind := k, stream := [1#8, 2#8], script := [] } n
        s!"{rStr true r} calls={s'.calls}"
      else
        -- a put of more than SSIZE_MAX octets is refused before the driver is called
        s!"ERR:einval calls=0"
    | none => "bad-op"
  | ["sts", fn, skind, stream, sscript, kkind, kscript, n, asize, aused, aoff] =>
    match parseKind skind, parseHex stream, parseScript sscript, parseKind kkind, parseScript kscript,
          n.toNat?, asize.toNat?, aused.toNat?, aoff.toNat? with
    | some sk, some st, some ssc, some kk, some ksc, some n, some asize, some aused, some aoff =>
      let src : Src := { kind := sk, stream := st, script := ssc }
      let snk : Ufw.Model.Endpoints.Snk := { kind := kk, script := ksc }
      let aux : Aux := { mem := List.replicate asize 0xee#8, used := aused, offset := aoff }
      let fuel := 2 * (ssc.length + ksc.length + st.length + n) + 8
      let res : Option (R × Src × Ufw.Model.Endpoints.Snk × Aux) :=
        match fn with
        | "cbc" => let (r, a, b) := sts_cbc src snk; some (r, a, b, aux)
        | "n_cbc" => let (r, a, b) := sts_n_cbc n src snk n; some (r, a, b, aux)
        | "drain_cbc" => let (r, a, b) := sts_drain_cbc fuel src snk; some (r, a, b, aux)
        | "n" => let (r, a, b) := sts_n fuel src snk n n; some (r, a, b, aux)
        | "drain" => let (r, a, b) := sts_drain fuel src snk; some (r, a, b, aux)
        | "some_aux" => some (sts_some_aux fuel src snk aux (aux.used - aux.offset))
        | "atmost_aux" => some (sts_atmost_aux fuel src snk aux n)
        | "n_aux" => some (sts_n_aux fuel src snk aux n n)
        | "drain_aux" => some (sts_drain_aux fuel src snk aux asize)
        | _ => none
      match res with
      | none => "bad-op"
      | some (r, src', snk', aux') =>
        let consumed := st.length - src'.stream.length
        -- designated region of the auxiliary buffer: [0, used-offset) once rewound, else [offset, used)
        let outside := (List.range asize).all fun i =>
          (aux.offset ≤ i ∧ i < aux.used) ∨ (i < aux.used - aux.offset ∧ (fn == "n_aux" ∨ fn == "drain_aux")) ∨
            aux'.mem[i]? == some 0xee#8
        let pre := decide (snk'.got.isPrefixOf st)
        s!"{rStr true r} got={hexOf snk'.got} consumed={consumed} ## {rStr true r} prefix={pre} auxclean={outside}"
    | _, _, _, _, _, _, _, _, _ => "bad-op"
  | _ => "bad-op"

end EP

def stepLine (_ : Unit) (toks : List String) : Unit × String :=
  ((), match toks with
  | t :: rest =>
    if t.startsWith "slip." then slipLine (t :: rest)
    else if t.startsWith "ep." || t == "sts" then EP.line (t :: rest)
    else "bad-op"
  | _ => "bad-op")

end Driver.Streams

def main : IO Unit := Driver.loop () Driver.Streams.stepLine
