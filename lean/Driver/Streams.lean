/-
Line-protocol driver for the stream group: SLIP (C12); endpoints (C17) and length
prefix (C13) are added to the same driver.
-/
import Ufw.Model.Slip
import Ufw.Spec.Slip
import Driver.Loop

open Ufw

namespace Driver.Streams
open Ufw.Model.Slip

def stStr : St → String
  | .searchStart => "start" | .searchEnd => "end" | .normal => "normal"

def stOf : String → Option St
  | "start" => some .searchStart | "end" => some .searchEnd | "normal" => some .normal | _ => none

def errTok (e : Err) : String := s!"ERR:{e.name}"

/-- source script: the octets, optionally an error injected before octet number `k` -/
def mkSrc (l : List Octet) (errAt : Option (Nat × Err)) : List SrcEv :=
  match errAt with
  | none => l.map .octet
  | some (k, e) => (l.take k).map .octet ++ [.err e] ++ (l.drop k).map .octet

def countOctets (l : List SrcEv) : Nat := (l.filter fun | .octet _ => true | _ => false).length

/-- classic-mode reading of RFC 1055: cut at END, unstuff each piece -/
def hasBadEscape : List Octet → Bool
  | a :: b :: rest =>
    if a = Ufw.Spec.Slip.ESC then
      if b = Ufw.Spec.Slip.ESC_END ∨ b = Ufw.Spec.Slip.ESC_ESC then hasBadEscape rest else true
    else hasBadEscape (b :: rest)
  | _ => false

def classicEvents (input : List Octet) : List String :=
  let rec go (cur : List Octet) : List Octet → List String
    | [] => if hasBadEscape cur.reverse then ["I"] else []     -- an invalid escape is reported at once
    | o :: rest =>
      if o = Ufw.Spec.Slip.END then
        (match Ufw.Spec.Slip.unstuff cur.reverse with
         | some p => s!"F:{hexOf p}"
         | none => "I") :: go [] rest
      else go (o :: cur) rest
  go [] input

def evStr (full : Bool) : Event → String
  | .frame p => s!"F:{hexOf p}"
  | .illegal p => if full then s!"I:{hexOf p}" else "I"

def parseErrAt (k e : String) : Option (Option (Nat × Err)) :=
  if k == "-" then some none else
  match k.toNat?, Err.ofName e with
  | some k, some e => some (some (k, e))
  | _, _ => none

def slipLine (toks : List String) : String :=
  match toks with
  | ["slip.enc", sof, hex, room, ek, ee] =>
    match parseHex hex, room.toNat?, parseErrAt ek ee with
    | some p, some room, some errAt =>
      let sof := sof == "1"
      let r := rfc1055_encode sof (mkSrc p errAt) { room := room }
      let rc := match r.ret with | none => "ok:0" | some e => errTok e
      -- spec view: with enough room and no source error the sink holds the RFC 1055 frame
      let spec := if errAt.isNone && (Ufw.Spec.Slip.frame sof p).length ≤ room
        then s!"ok:0 out={hexOf (Ufw.Spec.Slip.frame sof p)}" else s!"{rc} out={hexOf r.snk.got}"
      s!"{rc} out={hexOf r.snk.got} ## {spec}"
    | _, _, _ => "bad-op"
  | ["slip.dec", sof, st, hex, room, ek, ee] =>
    match stOf st, parseHex hex, room.toNat?, parseErrAt ek ee with
    | some st, some inp, some room, some errAt =>
      let sof := sof == "1"
      let src := mkSrc inp errAt
      let r := rfc1055_decode sof st src { room := room }
      let rc := match r.ret with | .frame => "ok:1" | .error e => errTok e
      s!"{rc} st={stStr r.st} consumed={inp.length - countOctets r.rest} out={hexOf r.snk.got}"
    | _, _, _, _ => "bad-op"
  | ["slip.stream", sof, st, hex] =>
    match stOf st, parseHex hex with
    | some st, some inp =>
      let sof := sof == "1"
      let (evs, (fst, _, pending)) := run sof st false [] inp
      let model := " ".intercalate (evs.map (evStr true)) ++ s!" | st={stStr fst} pending={hexOf pending}"
      let spec :=
        if !sof && st == .normal then " ".intercalate (classicEvents inp)
        else " ".intercalate (evs.map (evStr false))
      s!"{model} ## {spec}"
    | _, _ => "bad-op"
  | ["slip.rt", sof, hex, trail] =>
    match parseHex hex, parseHex trail with
    | some p, some tr =>
      let sof := sof == "1"
      let e := (rfc1055_encode sof (mkSrc p none) { room := 2 * p.length + 2 }).snk.got
      let r := rfc1055_decode sof (rfc1055_context_init sof) (mkSrc (e ++ tr) none) { room := p.length + tr.length }
      let rc := match r.ret with | .frame => "ok:1" | .error e => errTok e
      s!"enc={hexOf e} {rc} st={stStr r.st} consumed={(e ++ tr).length - countOctets r.rest} out={hexOf r.snk.got} ## " ++
      s!"enc={hexOf (Ufw.Spec.Slip.frame sof p)} ok:1 st={stStr (rfc1055_context_init sof)} consumed={(Ufw.Spec.Slip.frame sof p).length} out={hexOf p}"
    | _, _ => "bad-op"
  | ["slip.frames", sof, st, garbage, plist] =>
    match stOf st, parseHex garbage, (plist.splitOn ",").mapM parseHex with
    | some st, some g, some ps =>
      let sof := sof == "1"
      let input := g ++ ps.flatMap (enc sof)
      let (evs, (fst, _, _)) := run sof st false [] input
      -- spec: classic - every frame after the garbage (which ends with END) is delivered; with start
      -- delimiter - every frame after the first one (non-empty) is delivered; decoder ready afterwards
      let expect := if sof then ps.drop 1 else ps
      let tail := evs.drop (evs.length - expect.length)
      s!"tail={" ".intercalate (tail.map (evStr true))} st={stStr fst} ## tail={" ".intercalate (expect.map fun p => s!"F:{hexOf p}")} st={stStr (rfc1055_context_init sof)}"
    | _, _, _ => "bad-op"
  | _ => "bad-op"

def stepLine (_ : Unit) (toks : List String) : Unit × String :=
  ((), match toks with
  | t :: rest => if t.startsWith "slip." then slipLine (t :: rest) else "bad-op"
  | _ => "bad-op")

end Driver.Streams

def main : IO Unit := Driver.loop () Driver.Streams.stepLine
