/-
Line-protocol driver for the s-expression reader (C20).
-/
import Ufw.Model.Sx
import Ufw.Model.SxHeap
import Driver.Loop

open Ufw

namespace Driver.Sx
open Ufw.Model.Sx Ufw.Model.SxHeap

/-- allocations made / released before the reader returns / held by the returned tree (Model/SxHeap) -/
def heapStr (s : List Octet) : String :=
  let h := parse_h s 0
  s!" heap={h.allocs}/{h.freed}/{h.node.weight}"

/-- what is still allocated after the returned tree has been destroyed (0 by Props.C20.allocations_accounted) -/
def leakStr (s : List Octet) : String :=
  let h := parse_h s 0
  -- entry=same: sx_parse_stringn and sx_parse_string are sx_parse from position 0 (the harness runs all three)
  s!" leaked={(h.allocs : Int) - h.freed - h.node.weight} entry=same"

partial def showTree : Tree → String
  | .sym s => "S" ++ hexOf s
  | .int n => s!"I{n}"
  | .nil => "N"
  | .cons a d => s!"({showTree a}.{showTree d})"

def statusStr : Status → String
  | .success => "success" | .foundList => "found-list" | .brokenInteger => "broken-integer"
  | .brokenSymbol => "broken-symbol" | .unknownInput => "unknown-input" | .unexpectedEnd => "unexpected-end"
  | .oob => "oob" | .diverge => "diverge"

/-- tree syntax of the generator: S<hex> symbol, I<dec> integer, N empty list, (a . d) pair -/
partial def parseTree (cs : List Char) : Option (Tree × List Char) :=
  match cs with
  | 'N' :: rest => some (.nil, rest)
  | 'S' :: rest =>
    let h := rest.takeWhile fun c => c.isAlphanum
    (parseHex (String.ofList h)).map fun o => (.sym o, rest.drop h.length)
  | 'I' :: rest =>
    let d := rest.takeWhile Char.isDigit
    (String.ofList d).toNat?.map fun n => (.int n, rest.drop d.length)
  | '(' :: rest =>
    match parseTree rest with
    | some (a, '.' :: r2) =>
      (match parseTree r2 with
       | some (d, ')' :: r3) => some (.cons a d, r3)
       | _ => none)
    | _ => none
  | _ => none

def stepLine (_ : Unit) (toks : List String) : Unit × String :=
  ((), match toks with
  | ["sx.parse", hex] =>
    match parseHex hex with
    | some s =>
      let r := sx_parse s 0
      -- the position is compared only on success (where the statement fixes it)
      let pos := if r.status == .success then s!" pos={r.pos}" else ""
      let line := s!"{statusStr r.status} tree={match r.node with | some t => showTree t | none => "-"}{pos}"
      s!"{line}{heapStr s} ## {line}{leakStr s}"
    | none => "bad-op"
  | ["sx.render", hex, tree] =>
    -- the generator says which tree the text renders: the spec view is that tree, complete consumption
    match parseHex hex, parseTree tree.toList with
    | some s, some (t, []) =>
      let r := sx_parse s 0
      let pos := if r.status == .success then s!" pos={r.pos}" else ""
      s!"{statusStr r.status} tree={match r.node with | some t => showTree t | none => "-"}{pos}{heapStr s} ## success tree={showTree t} pos={s.length} leaked=0 entry=same"
    | _, _ => "bad-op"
  | ["sx.deep", kind, n] =>
    -- deep nesting, a spec-level line (the model's list indexing is quadratic in the input length): n opening
    -- parentheses contain no complete expression; the empty list wrapped n times is a tree whose first-element
    -- chain has n links and whose rendering is 2n + 2 characters (Props.C20.parse_rendering / error_no_tree)
    match n.toNat? with
    | some n =>
      if kind == "open" then (if n == 0 then "unexpected-end depth=0" else "unexpected-end depth=0")
      else if kind == "nested" then s!"success depth={n} pos={2 * n + 2}"
      else "bad-op"
    | none => "bad-op"
  | _ => "bad-op")

end Driver.Sx

def main : IO Unit := Driver.loop () Driver.Sx.stepLine
