/-
Line-protocol driver for the codec group: varint (C14), CRC-16/ARC (C16),
endian codecs (C15).
-/
import Ufw.Model.Varint
import Ufw.Model.Crc
import Ufw.Spec.Crc
import Driver.Loop

open Ufw

namespace Driver.Codec
open Ufw.Model.Varint
open Ufw.Model.ByteBuffer (ByteBuffer Rc)

inductive Ty | u32 | s32 | u64 | s64
  deriving DecidableEq

def Ty.ofString : String → Option Ty
  | "u32" => some .u32 | "s32" => some .s32 | "u64" => some .u64 | "s64" => some .s64 | _ => none

def Ty.max : Ty → Nat
  | .u32 | .s32 => MAX32
  | _ => MAX64

/-- bit pattern the C wrappers hand to `varint_encode` for a value given in decimal -/
def Ty.pattern (t : Ty) (x : Int) : Nat :=
  match t with
  | .u32 => Ufw.Model.Varint.u32 x.toNat
  | .s32 => ofS32 x
  | .u64 => x.toNat % 2 ^ 64
  | .s64 => ofS64 x

/-- how a decoded pattern is shown -/
def Ty.show (t : Ty) (v : Nat) : String :=
  match t with
  | .u32 => toString (Ufw.Model.Varint.u32 v)
  | .s32 => toString (toS32 (Ufw.Model.Varint.u32 v))
  | .u64 => toString v
  | .s64 => toString (toS64 v)

def rcStr : Rc → String
  | .ok n => s!"ok:{n}"
  | .err e => s!"err:{e.name}"
  | .oob => "oob"

def decStr (t : Ty) (d : Dec) (okSuffix : Nat → String) (errSuffix : String) : String :=
  match d with
  | .ok v c => s!"ok:{c} value={t.show v}{okSuffix c}"
  | .err .eilseq => s!"ERR:eilseq{errSuffix}"
  | .err e => s!"err:{e.name}{errSuffix}"
  | .oob => "oob"

/-! CRC: left view = model (table from the source), right view = bitwise spec -/

def hex16 (v : BitVec 16) : String := hexNat v.toNat 4

def wordsOfImage : List Octet → List (BitVec 16)
  | a :: b :: rest => (BitVec.zeroExtend 16 a ||| (BitVec.zeroExtend 16 b <<< 8)) :: wordsOfImage rest
  | _ => []

def sweep (f : BitVec 16 → BitVec 8 → BitVec 16) (lo hi : Nat) : Nat := Id.run do
  let mut acc : Nat := 0
  for s in [lo:hi] do
    for d in [0:256] do
      let r := (f (BitVec.ofNat 16 s) (BitVec.ofNat 8 d)).toNat
      acc := (acc * 31 + r + 1) % 18446744073709551557
  return acc

def crcLine (toks : List String) : String :=
  match toks with
  | ["crc.buf", init, hex] =>
    match parseHexNat init, parseHex hex with
    | some i, some buf =>
      let i := BitVec.ofNat 16 i
      s!"{hex16 (Ufw.Model.Crc.ufw_crc16_arc i buf)} ## {hex16 (Ufw.Spec.Crc.crc i buf)}"
    | _, _ => "bad-op"
  | ["crc.split", init, hex, k] =>
    match parseHexNat init, parseHex hex, k.toNat? with
    | some i, some buf, some k =>
      let i := BitVec.ofNat 16 i
      let whole := Ufw.Model.Crc.ufw_crc16_arc i buf
      let split := Ufw.Model.Crc.ufw_crc16_arc (Ufw.Model.Crc.ufw_crc16_arc i (buf.take k)) (buf.drop k)
      let sp := Ufw.Spec.Crc.crc i buf
      s!"whole={hex16 whole} split={hex16 split} ## whole={hex16 sp} split={hex16 sp}"
    | _, _, _ => "bad-op"
  | ["crc.u16", init, hex] =>
    match parseHexNat init, parseHex hex with
    | some i, some img =>
      let i := BitVec.ofNat 16 i
      s!"{hex16 (Ufw.Model.Crc.ufw_crc16_arc_u16 false i (wordsOfImage img))} ## {hex16 (Ufw.Spec.Crc.crc i (img.take (img.length / 2 * 2)))}"
    | _, _ => "bad-op"
  | ["crc.initial", hex] =>
    match parseHex hex with
    | some buf => s!"{hex16 (Ufw.Model.Crc.ufw_buffer_crc16_arc buf)} ## {hex16 (Ufw.Spec.Crc.crc 0#16 buf)}"
    | none => "bad-op"
  | ["crc.table"] =>
    let m := (List.range 256).map fun i => hex16 (Ufw.Gen.CrcTable.crc16_octet 0#16 (BitVec.ofNat 8 i))
    let sp := (List.range 256).map fun i => hex16 (Ufw.Spec.Crc.step8 0#16 (BitVec.ofNat 8 i))
    s!"{String.join m} ## {String.join sp}"
  | ["crc.sweep", lo, hi] =>
    match lo.toNat?, hi.toNat? with
    | some lo, some hi => s!"{sweep Ufw.Gen.CrcTable.crc16_octet lo hi} ## {sweep Ufw.Spec.Crc.step8 lo hi}"
    | _, _ => "bad-op"
  | _ => "bad-op"

def stepLine (_ : Unit) (toks : List String) : Unit × String :=
  ((), match toks with
  | ["vi.len", ty, v] =>
    match Ty.ofString ty, v.toInt? with
    | some t, some x => toString (varint_u64_length (t.pattern x))
    | _, _ => "bad-op"
  | ["vi.enc", ty, v, size, used, off] =>
    match Ty.ofString ty, v.toInt?, size.toNat?, used.toNat?, off.toNat? with
    | some t, some x, some size, some used, some off =>
      let b : ByteBuffer := { mem := List.replicate size 0#8, size := size, used := used, offset := off }
      let (rc, b') := varint_encode_buf b t.max (t.pattern x)
      s!"{rcStr rc} used={b'.used} off={b'.offset} mem={hexOf b'.mem}"
    | _, _, _, _, _ => "bad-op"
  | ["vi.decbuf", ty, hex, off, _used] =>
    match Ty.ofString ty, parseHex hex, off.toNat? with
    | some t, some mem, some off =>
      let d := varint_decode mem off t.max
      decStr t d (fun c => s!" off={off + c}") s!" off={off}"
    | _, _, _ => "bad-op"
  | ["vi.decsrc", ty, hex] =>
    match Ty.ofString ty, parseHex hex with
    | some t, some inp => decStr t (varint_from_source .enodata inp t.max) (fun c => s!" taken={c}") ""
    | _, _ => "bad-op"
  | ["vi.tosink", ty, v] =>
    match Ty.ofString ty, v.toInt? with
    | some t, some x => let e := encode (t.pattern x); s!"ok:{e.length} out={hexOf e}"
    | _, _ => "bad-op"
  | t :: rest => if t.startsWith "crc." then crcLine (t :: rest) else "bad-op"
  | _ => "bad-op")

end Driver.Codec

def main : IO Unit := Driver.loop () Driver.Codec.stepLine
