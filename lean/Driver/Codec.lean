/-
Line-protocol driver for the codec group: varint (C14), CRC-16/ARC (C16),
endian codecs (C15).
-/
import Ufw.Model.Varint
import Ufw.Model.Crc
import Ufw.Spec.Crc
import Ufw.Gen.BinFmtLE
import Ufw.Spec.Endian
import Driver.Loop

open Ufw

namespace Driver.Codec
open Ufw.Model.Varint
open Ufw.Model.ByteBuffer (ByteBuffer Rc)

inductive Ty | u32 | s32 | u64 | s64
  deriving DecidableEq

def Ty.ofString : String → Option Ty
  | "u32" => some .u32 | "s32" => some .s32 | "u64" => some .u64 | "s64" => some .s64 | _ => none

def Ty.max : Ty → Nat
  | .u32 | .s32 => MAX32
  | _ => MAX64

/-- bit pattern the C wrappers hand to `varint_encode` for a value given in decimal -/
def Ty.pattern (t : Ty) (x : Int) : Nat :=
  match t with
  | .u32 => Ufw.Model.Varint.u32 x.toNat
  | .s32 => ofS32 x
  | .u64 => x.toNat % 2 ^ 64
  | .s64 => ofS64 x

/-- how a decoded pattern is shown -/
def Ty.show (t : Ty) (v : Nat) : String :=
  match t with
  | .u32 => toString (Ufw.Model.Varint.u32 v)
  | .s32 => toString (toS32 (Ufw.Model.Varint.u32 v))
  | .u64 => toString v
  | .s64 => toString (toS64 v)

def rcStr : Rc → String
  | .ok n => s!"ok:{n}"
  | .err e => s!"err:{e.name}"
  | .oob => "oob"

def decStr (t : Ty) (d : Dec) (okSuffix : Nat → String) (errSuffix : String) : String :=
  match d with
  | .ok v c => s!"ok:{c} value={t.show v}{okSuffix c}"
  | .err .eilseq => s!"ERR:eilseq{errSuffix}"
  | .err e => s!"err:{e.name}{errSuffix}"
  | .oob => "oob"

/-! CRC: left view = model (table from the source), right view = bitwise spec -/

def hex16 (v : BitVec 16) : String := hexNat v.toNat 4

def wordsOfImage : List Octet → List (BitVec 16)
  | a :: b :: rest => (BitVec.zeroExtend 16 a ||| (BitVec.zeroExtend 16 b <<< 8)) :: wordsOfImage rest
  | _ => []

def sweep (f : BitVec 16 → BitVec 8 → BitVec 16) (lo hi : Nat) : Nat := Id.run do
  let mut acc : Nat := 0
  for s in [lo:hi] do
    for d in [0:256] do
      let r := (f (BitVec.ofNat 16 s) (BitVec.ofNat 8 d)).toNat
      acc := (acc * 31 + r + 1) % 18446744073709551557
  return acc

def crcLine (toks : List String) : String :=
  match toks with
  | ["crc.buf", init, hex] =>
    match parseHexNat init, parseHex hex with
    | some i, some buf =>
      let i := BitVec.ofNat 16 i
      s!"{hex16 (Ufw.Model.Crc.ufw_crc16_arc i buf)} ## {hex16 (Ufw.Spec.Crc.crc i buf)}"
    | _, _ => "bad-op"
  | ["crc.split", init, hex, k] =>
    match parseHexNat init, parseHex hex, k.toNat? with
    | some i, some buf, some k =>
      let i := BitVec.ofNat 16 i
      let whole := Ufw.Model.Crc.ufw_crc16_arc i buf
      let split := Ufw.Model.Crc.ufw_crc16_arc (Ufw.Model.Crc.ufw_crc16_arc i (buf.take k)) (buf.drop k)
      let sp := Ufw.Spec.Crc.crc i buf
      s!"whole={hex16 whole} split={hex16 split} ## whole={hex16 sp} split={hex16 sp}"
    | _, _, _ => "bad-op"
  | ["crc.u16", init, hex] =>
    match parseHexNat init, parseHex hex with
    | some i, some img =>
      let i := BitVec.ofNat 16 i
      s!"{hex16 (Ufw.Model.Crc.ufw_crc16_arc_u16 false i (wordsOfImage img))} ## {hex16 (Ufw.Spec.Crc.crc i (img.take (img.length / 2 * 2)))}"
    | _, _ => "bad-op"
  | ["crc.mid", init, n, k] =>
    match parseHexNat init, n.toNat?, k.toNat? with
    | some i, some n, some k =>
      if n > 16 * 2 ^ 20 ∨ k > n then "bad-op" else
      let i := BitVec.ofNat 16 i
      let buf : List Octet := (List.range n).map fun j => BitVec.ofNat 8 ((j * 2654435761) >>> 7)
      let whole := Ufw.Model.Crc.ufw_crc16_arc i buf
      let split := Ufw.Model.Crc.ufw_crc16_arc (Ufw.Model.Crc.ufw_crc16_arc i (buf.take k)) (buf.drop k)
      let sp := Ufw.Spec.Crc.crc i buf
      s!"whole={hex16 whole} split={hex16 split} words={hex16 whole} ## whole={hex16 sp} split={hex16 sp} words={hex16 sp}"
    | _, _, _ => "bad-op"
  | ["crc.huge16", _init, _n, _split] => "split=same ## split=same"
  | ["crc.huge", _init, _n, _split] =>
    -- Props.C16.crc_append for every length: the whole equals the continuation over the parts
    "split=same ## split=same"
  | ["crc.initial", hex] =>
    match parseHex hex with
    | some buf => s!"{hex16 (Ufw.Model.Crc.ufw_buffer_crc16_arc buf)} ## {hex16 (Ufw.Spec.Crc.crc 0#16 buf)}"
    | none => "bad-op"
  | ["crc.table"] =>
    let m := (List.range 256).map fun i => hex16 (Ufw.Gen.CrcTable.crc16_octet 0#16 (BitVec.ofNat 8 i))
    let sp := (List.range 256).map fun i => hex16 (Ufw.Spec.Crc.step8 0#16 (BitVec.ofNat 8 i))
    s!"{String.join m} ## {String.join sp}"
  | ["crc.sweep", lo, hi] =>
    match lo.toNat?, hi.toNat? with
    | some lo, some hi => s!"{sweep Ufw.Gen.CrcTable.crc16_octet lo hi} ## {sweep Ufw.Spec.Crc.step8 lo hi}"
    | _, _ => "bad-op"
  | _ => "bad-op"

/-! endian codecs: left view = generated definitions (little-endian host, as compiled here),
    right view = the arithmetic spec selected by the function's name -/

structure BfName where
  op : String      -- ref / set
  kind : Char      -- u s f
  bits : Nat
  order : Char     -- n b l

def parseBfName (name : String) : Option BfName :=
  match name.splitOn "_" with
  | ["bf", op, rest] =>
    match rest.toList with
    | k :: more =>
      let digits := more.takeWhile Char.isDigit
      let ord := more.dropWhile Char.isDigit
      match (String.ofList digits).toNat?, ord with
      | some b, [o] => some ⟨op, k, b, o⟩
      | _, _ => none
    | [] => none
  | _ => none

def retWidth (bits : Nat) : Nat := if bits ≤ 16 then 16 else if bits ≤ 32 then 32 else 64

def bfLine (toks : List String) : String :=
  open Ufw.Gen.BinFmtLE in
  open Ufw.Spec.Endian in
  match toks with
  | ["bf.ref", name, hex, _align] =>
    match parseHex hex, parseBfName name, refTable.find? (·.1 == name) with
    | some octs, some nm, some (_, arity, rw, f) =>
      if octs.length ≠ arity then "bad-op" else
      let big := nm.order == 'b'     -- native = little on this host
      let sp := if nm.kind == 's' then patternOfInt rw (loadS big octs) else loadU big octs
      s!"{hexNat (f octs) (rw / 4)} ## {hexNat sp (rw / 4)}"
    | some octs, some nm, none =>
      -- the translator did not deliver this function: the property-level view does not depend on it
      if octs.length ≠ nm.bits / 8 then "bad-op" else
      let big := nm.order == 'b'
      let rw := retWidth nm.bits
      let sp := if nm.kind == 's' then patternOfInt rw (loadS big octs) else loadU big octs
      s!"untranslated ## {hexNat sp (rw / 4)}"
    | _, _, _ => "bad-op"
  | ["bf.set", name, hex, _align] =>
    match parseHexNat hex, parseBfName name, setTable.find? (·.1 == name) with
    | some v, some nm, some (_, _pw, ret, f) =>
      let big := nm.order == 'b'
      s!"ret={ret} out={hexOf (f v)} pre=ok ## ret={nm.bits / 8} out={hexOf (store big (nm.bits / 8) v)} pre=ok"
    | some v, some nm, none =>
      let big := nm.order == 'b'
      s!"untranslated ## ret={nm.bits / 8} out={hexOf (store big (nm.bits / 8) v)} pre=ok"
    | _, _, _ => "bad-op"
  | ["bf.rsr", name, hex1, hex2, _align] =>
    -- store v1, load, store v2, load, store v1, load - through the same pair of functions
    match parseHexNat hex1, parseHexNat hex2, parseBfName name with
    | some v1, some v2, some nm =>
      let big := nm.order == 'b'
      let rw := retWidth nm.bits
      let n := nm.bits / 8
      let spec1 (v : Nat) : Nat :=
        let octs := store big n v
        if nm.kind == 's' then patternOfInt rw (loadS big octs) else loadU big octs
      let sp := s!"{hexNat (spec1 v1) (rw / 4)} {hexNat (spec1 v2) (rw / 4)} {hexNat (spec1 v1) (rw / 4)}"
      let setName := "bf_set_" ++ (name.drop 7).toString
      match refTable.find? (·.1 == name), setTable.find? (·.1 == setName) with
      | some (_, _, _, rf), some (_, _, _, sf) =>
        let m1 (v : Nat) : Nat := rf (sf v)
        s!"{hexNat (m1 v1) (rw / 4)} {hexNat (m1 v2) (rw / 4)} {hexNat (m1 v1) (rw / 4)} ## {sp}"
      | _, _ => s!"untranslated ## {sp}"
    | _, _, _ => "bad-op"
  | ["bf.swap", name, hex] =>
    match parseHexNat hex, valTable.find? (·.1 == name) with
    | some v, some (_, pw, f) =>
      let bits := (name.drop 7).toString.toNat?.getD 0
      s!"{hexNat (f v) (pw / 4)} ## {hexNat (swap (bits / 8) v) (pw / 4)}"
    | some v, none =>
      let bits := (name.drop 7).toString.toNat?.getD 0
      if bits = 0 then "bad-op" else
      s!"untranslated ## {hexNat (swap (bits / 8) v) (retWidth bits / 4)}"
    | _, _ => "bad-op"
  | ["bf.inrange", name, hex] =>
    match parseHexNat hex, predTable.find? (·.1 == name) with
    | some v, some (_, pw, f) =>
      let signed := (name.drop 11).toString.startsWith "s"
      let bits := (name.drop 12).toString.toNat?.getD 0
      let sp := if signed then inRangeS bits (BitVec.ofNat pw v).toInt else inRangeU bits v
      s!"{f v} ## {sp}"
    | some v, none =>
      let signed := (name.drop 11).toString.startsWith "s"
      let bits := (name.drop 12).toString.toNat?.getD 0
      if bits = 0 then "bad-op" else
      let sp := if signed then inRangeS bits (BitVec.ofNat (retWidth bits) v).toInt else inRangeU bits v
      s!"untranslated ## {sp}"
    | _, _ => "bad-op"
  | ["bf.sweep", name, lo, hi] =>
    match lo.toNat?, hi.toNat? with
    | some lo, some hi =>
      let M := 18446744073709551557
      let mix (acc r : Nat) : Nat := (acc * 31 + r + 1) % M
      let octsOf (n v : Nat) : List Octet := (List.range n).map fun k => BitVec.ofNat 8 (v / 256 ^ k)
      let run (f : Nat → Nat) : Nat := Id.run do
        let mut acc := 0
        for v in [lo:hi] do
          acc := mix acc (f v)
        return acc
      match parseBfName name with
      | some nm =>
        let big := nm.order == 'b'
        if nm.op == "ref" then
          match refTable.find? (·.1 == name) with
          | some (_, arity, rw, f) =>
            let m := run fun v => f (octsOf arity v)
            let sp := run fun v =>
              if nm.kind == 's' then patternOfInt rw (loadS big (octsOf arity v)) else loadU big (octsOf arity v)
            s!"{m} ## {sp}"
          | none => "bad-op"
        else
          match setTable.find? (·.1 == name) with
          | some (_, _, _, f) =>
            let m := run fun v => (f v).foldl (fun a o => mix a o.toNat) 0
            let sp := run fun v => (store big (nm.bits / 8) v).foldl (fun a o => mix a o.toNat) 0
            s!"{m} ## {sp}"
          | none => "bad-op"
      | none =>
        match valTable.find? (·.1 == name), predTable.find? (·.1 == name) with
        | some (_, _, f), _ =>
          let bits := (name.drop 7).toString.toNat?.getD 0
          s!"{run f} ## {run fun v => swap (bits / 8) v}"
        | _, some (_, pw, f) =>
          let signed := (name.drop 11).toString.startsWith "s"
          let bits := (name.drop 12).toString.toNat?.getD 0
          let m := run fun v => if f v then 1 else 0
          let sp := run fun v =>
            if (if signed then inRangeS bits (BitVec.ofNat pw v).toInt else inRangeU bits v) then 1 else 0
          s!"{m} ## {sp}"
        | _, _ => "bad-op"
    | _, _ => "bad-op"
  | _ => "bad-op"

def stepLine (_ : Unit) (toks : List String) : Unit × String :=
  ((), match toks with
  | ["vi.len", ty, v] =>
    match Ty.ofString ty, v.toInt? with
    | some t, some x => toString (varint_u64_length (t.pattern x))
    | _, _ => "bad-op"
  | ["vi.enc", ty, v, size, used, off] =>
    match Ty.ofString ty, v.toInt?, size.toNat?, used.toNat?, off.toNat? with
    | some t, some x, some size, some used, some off =>
      let b : ByteBuffer := { mem := List.replicate size 0#8, size := size, used := used, offset := off }
      let (rc, b') := varint_encode_buf b t.max (t.pattern x)
      s!"{rcStr rc} used={b'.used} off={b'.offset} mem={hexOf b'.mem}"
    | _, _, _, _, _ => "bad-op"
  | ["vi.decbuf", ty, hex, off, _used] =>
    match Ty.ofString ty, parseHex hex, off.toNat? with
    | some t, some mem, some off =>
      let d := varint_decode mem off t.max
      decStr t d (fun c => s!" off={off + c}") s!" off={off}"
    | _, _, _ => "bad-op"
  | ["vi.decseq", ty, hex, off, _used] =>
    -- up to four decodes from one buffer, each starting where the one before stopped
    match Ty.ofString ty, parseHex hex, off.toNat? with
    | some t, some mem, some off =>
      let rec go (k : Nat) (off : Nat) (acc : List String) : List String :=
        match k with
        | 0 => acc
        | k + 1 =>
          match varint_decode mem off t.max with
          | .ok v c => go k (off + c) (acc ++ [decStr t (.ok v c) (fun c => s!" off={off + c}") ""])
          | d => acc ++ [decStr t d (fun _ => "") s!" off={off}"]
      " ".intercalate (go 4 off [])
    | _, _, _ => "bad-op"
  | ["vi.decsrc", ty, hex] =>
    match Ty.ofString ty, parseHex hex with
    | some t, some inp => decStr t (varint_from_source .enodata inp t.max) (fun c => s!" taken={c}") ""
    | _, _ => "bad-op"
  | ["vi.decsrcb", ty, hex, k, e] =>
    -- the source fails once in front of octet k: for the decoder that is the end of the source with that error
    match Ty.ofString ty, parseHex hex, k.toNat?, Err.ofName e with
    | some t, some inp, some k, some e =>
      if e ≠ .eagain ∧ e ≠ .eintr ∧ e ≠ .eio then "bad-op" else
      decStr t (varint_from_source (if k < inp.length then e else .enodata) (inp.take k) t.max) (fun c => s!" taken={c}") "" ++ " ## sound"
    | _, _, _, _ => "bad-op"
  | ["vi.decchunks", ty, hex, _cuts] =>
    -- how the octets are scattered over chunks is invisible: the decoder sees the octet string
    match Ty.ofString ty, parseHex hex with
    | some t, some inp =>
      decStr t (varint_from_source .enodata inp t.max)
        (fun c => s!" taken={c} next=" ++ (match inp[c]? with | some o => hexOf [o] | none => "none")) ""
    | _, _ => "bad-op"
  | ["vi.tosink", ty, v] =>
    match Ty.ofString ty, v.toInt? with
    | some t, some x => let e := encode (t.pattern x); s!"ok:{e.length} out={hexOf e}"
    | _, _ => "bad-op"
  | t :: rest => if t.startsWith "crc." then crcLine (t :: rest) else if t.startsWith "bf." then
      (match t :: rest with
       | ["bf.setc", _k, name, hex] => bfLine ["bf.set", name, hex, "0"]   -- the same store; the harness passes a literal
       | toks => bfLine toks)
    else "bad-op"
  | _ => "bad-op")

end Driver.Codec

def main : IO Unit := Driver.loop () Driver.Codec.stepLine
