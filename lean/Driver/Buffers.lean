/-
Line-protocol driver for the buffer group: byte buffer (C18) and ring buffer (C19).
Every answer is `<model view> ## <spec view>`: the left part is computed by the
model (the definitions the theorems are about), the right part by the
property-level spec.
-/
import Ufw.Model.ByteBuffer
import Ufw.Spec.ByteBuffer
import Driver.Loop

open Ufw

namespace Driver.Buffers
open Ufw.Model.ByteBuffer
open Ufw.Spec.ByteBuffer (Fifo)

structure State where
  bb   : ByteBuffer := byte_buffer_null
  fifo : Fifo := ⟨0, [], 0⟩

def rcStr : Rc → String
  | .ok n => s!"ok:{n}"
  | .err e => e.name
  | .oob => "oob"

def bbView (rc : Rc) (b : ByteBuffer) (out : List Octet) (full : Bool) : String :=
  let base := s!"{rcStr rc} size={b.size} used={b.used} off={b.offset} mem={hexOf (b.mem.take b.used)} out={hexOf out}"
  if full then base ++ s!" full={hexOf b.mem}" else base

def fifoView (rc : Rc) (f : Fifo) (out : List Octet) : String :=
  s!"{rcStr rc} out={hexOf out} unread={hexOf f.unread} avail={f.cap - f.filled.length}"

def bbOp (s : State) (op : Op) (full := false) : State × String :=
  let (b', o) := step s.bb op
  let (f', so) := Ufw.Spec.ByteBuffer.step s.fifo op
  -- a null buffer is outside the property's domain (set-up refuses it): no independent spec view
  if s.bb.null then ({ s with bb := b' }, bbView o.rc b' o.out full ++ " ## " ++ fifoView o.rc s.fifo o.out) else
  ({ s with bb := b', fifo := f' }, bbView o.rc b' o.out full ++ " ## " ++ fifoView so.rc f' so.out)

def stepLine (s : State) (toks : List String) : State × String :=
  match toks with
  | ["bb.null"] => ({ s with bb := byte_buffer_null, fifo := ⟨0, [], 0⟩ }, "ok")
  | ["bb.set", mem, size, used, off] =>
    match size.toNat?, used.toNat?, off.toNat? with
    | some size, some used, some off =>
      let data := if mem == "null" then none else parseHex mem
      if mem != "null" ∧ data.isNone then (s, "bad-op") else
      let (rc, b') := byte_buffer_set s.bb data size used off
      -- spec side: set-up is refused for null memory, zero size, used > size, offset > used
      let refused := data.isNone || size == 0 || used > size || off > used
      let f' : Fifo := if refused then s.fifo else ⟨size, (data.getD []).take used, off⟩
      let src := if refused then Rc.err .einval else Rc.ok 0
      ({ s with bb := b', fifo := f' }, bbView rc b' [] true ++ " ## " ++ fifoView src f' [])
    | _, _, _ => (s, "bad-op")
  | ["bb.add", d] =>
    match parseHex d with
    | some d => bbOp s (.add d)
    | none => (s, "bad-op")
  | ["bb.consume", n] => match n.toNat? with | some n => bbOp s (.consume n) | none => (s, "bad-op")
  | ["bb.atmost", n] => match n.toNat? with | some n => bbOp s (.atMost n) | none => (s, "bad-op")
  | ["bb.rewind"] => bbOp s .rewind
  | ["bb.clear"] => bbOp s .clear true
  | ["bb.reset"] => bbOp s .reset
  | ["bb.repeat"] => bbOp s .repeat_
  | _ => (s, "bad-op")

end Driver.Buffers

def main : IO Unit := Driver.loop ({} : Driver.Buffers.State) Driver.Buffers.stepLine
