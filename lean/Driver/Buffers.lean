/-
Line-protocol driver for the buffer group: byte buffer (C18) and ring buffer (C19).
Every answer is `<model view> ## <spec view>`: the left part is computed by the
model (the definitions the theorems are about), the right part by the
property-level spec.
-/
import Ufw.Model.ByteBuffer
import Ufw.Spec.ByteBuffer
import Ufw.Model.Ring
import Ufw.Spec.Queue
import Driver.Loop

open Ufw

namespace Driver.Buffers
open Ufw.Model.ByteBuffer
open Ufw.Spec.ByteBuffer (Fifo)

structure State where
  bb   : ByteBuffer := byte_buffer_null
  fifo : Fifo := ⟨0, [], 0⟩
  ring : Ufw.Model.Ring.Ring := Ufw.Model.Ring.init 1
  q    : Ufw.Spec.Queue.Q := ⟨1, [], false⟩

def rcStr : Rc → String
  | .ok n => s!"ok:{n}"
  | .err e => e.name
  | .oob => "oob"

def bbView (rc : Rc) (b : ByteBuffer) (out : List Octet) (full : Bool) : String :=
  let base := s!"{rcStr rc} size={b.size} used={b.used} off={b.offset} mem={hexOf (b.mem.take b.used)} out={hexOf out}"
  if full then base ++ s!" full={hexOf b.mem}" else base

def fifoView (rc : Rc) (f : Fifo) (out : List Octet) : String :=
  s!"{rcStr rc} out={hexOf out} unread={hexOf f.unread} avail={f.cap - f.filled.length} rest={f.unread.length}"

def bbOp (s : State) (op : Op) (full := false) : State × String :=
  let (b', o) := step s.bb op
  let (f', so) := Ufw.Spec.ByteBuffer.step s.fifo op
  -- a null buffer is outside the property's domain (set-up refuses it): no independent spec view
  if s.bb.null then ({ s with bb := b' }, bbView o.rc b' o.out full ++ " ## " ++ fifoView o.rc s.fifo o.out) else
  ({ s with bb := b', fifo := f' }, bbView o.rc b' o.out full ++ " ## " ++ fifoView so.rc f' so.out)

/-! ring buffer: after every operation print the value returned, size/empty/full and both
    iterator sequences – computed from the model on the left, from the queue spec on the right -/

def natList (l : List Nat) : String :=
  if l.isEmpty then "-" else ",".intercalate (l.map toString)

def ringView (ret : String) (c : Ufw.Model.Ring.Ring) : String :=
  let o2n := match Ufw.Model.Ring.iterate c .oldToNew with | some l => natList l | none => "oob"
  let n2o := match Ufw.Model.Ring.iterate c .newToOld with | some l => natList l | none => "oob"
  s!"{ret} size={Ufw.Model.Ring.size c} empty={Ufw.Model.Ring.empty c} full={Ufw.Model.Ring.full c} o2n={o2n} n2o={n2o}"

def queueView (ret : String) (q : Ufw.Spec.Queue.Q) : String :=
  s!"{ret} size={q.items.length} empty={q.items.isEmpty} full={decide (q.items.length = q.cap)} o2n={natList q.items} n2o={natList q.items.reverse}"

def outStr : Ufw.Model.Ring.Out → String
  | .unit => "ok" | .val x => s!"val:{x}" | .oob => "oob"

def ringOp (s : State) (op : Ufw.Model.Ring.Op) : State × String :=
  let (c', o) := Ufw.Model.Ring.step s.ring op
  let (q', so) := Ufw.Spec.Queue.step s.q op
  ({ s with ring := c', q := q' }, ringView (outStr o) c' ++ " ## " ++ queueView (outStr so) q')

def stepLine1 (s : State) (toks : List String) : State × String :=
  match toks with
  | ["bb.null"] => ({ s with bb := byte_buffer_null, fifo := ⟨0, [], 0⟩ }, "ok")
  | ["bb.set", mem, size, used, off] =>
    match size.toNat?, used.toNat?, off.toNat? with
    | some size, some used, some off =>
      let data := if mem == "null" then none else parseHex mem
      if mem != "null" ∧ data.isNone then (s, "bad-op") else
      let (rc, b') := byte_buffer_set s.bb data size used off
      -- spec side: set-up is refused for null memory, zero size, used > size, offset > used
      let refused := data.isNone || size == 0 || used > size || off > used
      let f' : Fifo := if refused then s.fifo else ⟨size, (data.getD []).take used, off⟩
      let src := if refused then Rc.err .einval else Rc.ok 0
      ({ s with bb := b', fifo := f' }, bbView rc b' [] true ++ " ## " ++ fifoView src f' [])
    | _, _, _ => (s, "bad-op")
  | ["bb.add", d] =>
    match parseHex d with
    | some d => bbOp s (.add d)
    | none => (s, "bad-op")
  | ["bb.consume", n] => match n.toNat? with | some n => bbOp s (.consume n) | none => (s, "bad-op")
  | ["bb.atmost", n] => match n.toNat? with | some n => bbOp s (.atMost n) | none => (s, "bad-op")
  | ["bb.rewind"] => bbOp s .rewind
  | ["bb.clear"] =>
    -- the statement: clear empties AND zeroes the buffer (all of its size octets) - part of the spec view
    let (s', out) := bbOp s .clear true
    (s', out ++ " wiped=1")
  | ["bb.reset"] => bbOp s .reset
  | ["bb.repeat"] => bbOp s .repeat_
  | ["rb.init", _ty, cap] =>
    match cap.toNat? with
    | some cap =>
      let c := Ufw.Model.Ring.init cap
      let q : Ufw.Spec.Queue.Q := ⟨cap, [], false⟩
      ({ s with ring := c, q := q }, ringView "ok" c ++ " ## " ++ queueView "ok" q)
    | none => (s, "bad-op")
  | ["rb.put", x] => match x.toNat? with | some x => ringOp s (.put x) | none => (s, "bad-op")
  | ["rb.get"] => ringOp s .get
  | ["rb.clear"] => ringOp s .clear
  | ["rb.ovr", b] => ringOp s (.override (b == "1"))
  | _ => (s, "bad-op")

/-- `byte_buffer_space` / `byte_buffer_use` are `byte_buffer_set` with nothing / everything filled -/
def stepLine (s : State) (toks : List String) : State × String :=
  match toks with
  | ["bb.space", mem, size] => stepLine1 s ["bb.set", mem, size, "0", "0"]
  | ["bb.use", mem, size] => stepLine1 s ["bb.set", mem, size, size, "0"]
  | _ => stepLine1 s toks

end Driver.Buffers

def main : IO Unit := Driver.loop ({} : Driver.Buffers.State) Driver.Buffers.stepLine
