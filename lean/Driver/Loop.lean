/-
Line-protocol loop shared by all drivers.  Not part of any model: reads one
operation per line, prints one result line per operation.  `#case <id>` resets
the state and is echoed as `@ <id>`.
-/
namespace Driver

def tokens (line : String) : List String :=
  (line.trimAscii.toString.splitOn " ").filter (· ≠ "")

partial def loop {σ : Type} (init : σ) (step : σ → List String → σ × String) : IO Unit := do
  let stdin ← IO.getStdin
  let stdout ← IO.getStdout
  let rec go (s : σ) : IO Unit := do
    let line ← stdin.getLine
    if line.isEmpty then
      stdout.flush
      return ()
    match tokens line with
    | [] => go s
    | "#case" :: id :: _ =>
      stdout.putStrLn s!"@ {id}"
      go init
    | toks =>
      let (s', out) := step s toks
      stdout.putStrLn out
      go s'
  go init

end Driver
