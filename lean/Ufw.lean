-- Root of the `Ufw` library: models, specs, lemmas and property theorems.
import Ufw.Common
